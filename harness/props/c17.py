"""C17 — atmospheric and photometric conversions are mutually inverse and scale right."""
import json
import math

import numpy

from .. import common, t1check

MANIFEST = {
    "text": "Lean 4 theorems (inverse pairs, compositions, scaling laws, 5-magnitude factor, linearity in area and exposure, "
            "single-layer constant with |c-0.314|<0.002) over the real numbers about definitions REGENERATED from the Python source on "
            "every run (translator T1), for all positive arguments and every band of the regenerated table; the translator is "
            "validated each run against the Python functions; a direct oracle on the real code supplies failing inputs.",
    "note": "Trusted: Lean kernel + propext/Classical.choice/Quot.sound; Mathlib's Real.rpow/logb/pi as the meaning of **, log10, "
            "numpy.pi; translator T1 (self-checked each run); IEEE rounding and NumPy axis semantics are not modelled (exercised by "
            "the oracle on ranks 1-3, every axis).",
    "technique": "Lean 4 proof over a model regenerated from source (translator) + differential self-check + oracle search",
}
REQUIRED = ["cn2_r0_inv", "r0_cn2_inv", "r0_seeing_inv", "seeing_r0_inv", "cn2_to_seeing_eq_comp",
            "seeing_to_cn2_eq_comp", "cn2_seeing_inv", "seeing_cn2_inv", "r0_scales_lambda", "r0_scales_cn2",
            "seeing_scales_lambda", "slopevar_r0_inv", "r0_slopevar_inv", "table_positive",
            "table_has_twelve_bands", "mag_flux_inv", "flux_mag_inv", "five_mag_factor_100",
            "photons_per_band_linear", "photons_per_mag_linear", "coherence_single_layer",
            "isoplanatic_single_layer", "cθ_approx"]
T1_NAMES = ["cn2_to_r0", "r0_to_cn2", "r0_to_seeing", "seeing_to_r0", "cn2_to_seeing", "seeing_to_cn2",
            "coherenceTime", "isoplanaticAngle", "rytov_variance", "slope_variance_from_r0",
            "r0_from_slopes_kernel", "magnitude_to_flux", "flux_to_magnitude", "photons_per_mag",
            "photons_per_band"]
BANDS = list("UBVRIJHKgriz")
RT = 1e-9


def logu(rng, lo, hi):
    return math.exp(rng.uniform(math.log(lo), math.log(hi)))


def arggen(name, rng):
    n = rng.randint(1, 6)
    pool = {
        "cn2": logu(rng, 1e-16, 1e-11), "lamda": logu(rng, 3e-7, 1e-5), "r0": logu(rng, 0.01, 2.0),
        "seeing": logu(rng, 0.1, 5.0), "wavelength": logu(rng, 3e-7, 1e-5), "subapDiam": logu(rng, 0.05, 2.0),
        "slopeVar": logu(rng, 1e-16, 1e-10), "magnitude": rng.uniform(-2, 25), "mag": rng.uniform(-2, 25),
        "flux": logu(rng, 1e-3, 1e12), "waveband": rng.choice(BANDS), "pixel_scale": logu(rng, 1e-3, 1.0),
        "pxlScale": logu(rng, 1e-3, 1.0), "wvlBand": logu(rng, 10, 500), "exposure_time": logu(rng, 1e-4, 100),
        "expTime": logu(rng, 1e-4, 100),
    }
    if name in ("coherenceTime", "isoplanaticAngle", "rytov_variance"):
        pool["cn2"] = [logu(rng, 1e-16, 1e-12) for _ in range(n)]
        pool["v"] = [logu(rng, 1, 60) for _ in range(n)]
        pool["h"] = [logu(rng, 10, 2e4) for _ in range(n)]
    if name in ("photons_per_mag", "photons_per_band"):
        pool["mask"] = [float(rng.randint(0, 1)) for _ in range(rng.randint(1, 12))]
    return pool


def oracle(chk, n):
    """the property evaluated directly on the REAL code"""
    from aotools.turbulence import atmos_conversions as ac
    from aotools.astronomy import _astronomy as astmod
    import aotools
    import aotools.astronomy
    rng = chk.rng

    def rel(a, b):
        return abs(a - b) <= RT * max(abs(a), abs(b), 1e-300)

    def bad(key, what, **replay):
        chk.fail(key, what, replay)

    single = {"iso": 0.0, "tau": 0.0}
    DEF = 500e-9          # the documented default wavelength ("lamda=500.E-9" in every signature, "default 500 nm")

    def defaults(cn2, r0, s, m, band, h, vv, mask, px, t):
        """calls with the wavelength / band OMITTED.  Inconsistent defaults inside a pair break the property (inverse pair,
        composite = composition, single layer); a default that merely differs from the documented 500 nm / 'V' while all
        functions agree is a model matter (correspondence)"""
        pairs = [("cn2_to_r0", "r0_to_cn2", cn2), ("r0_to_cn2", "cn2_to_r0", r0), ("r0_to_seeing", "seeing_to_r0", r0),
                 ("seeing_to_r0", "r0_to_seeing", s), ("cn2_to_seeing", "seeing_to_cn2", cn2), ("seeing_to_cn2", "cn2_to_seeing", s)]
        for f, g, x in pairs:
            y = getattr(ac, g)(getattr(ac, f)(x))
            if not rel(y, x):
                bad("inverse-default:%s∘%s" % (g, f), "%s(%s(x)) = %r ≠ x = %r with both wavelengths omitted" % (g, f, y, x), f=f, g=g, x=x, got=y)
            if not rel(getattr(ac, f)(x), getattr(ac, f)(x, DEF)):
                chk.broke("correspondence", "%s(x) ≠ %s(x, 500e-9): the default wavelength is no longer the documented 500 nm "
                          "(x=%r: %r vs %r)" % (f, f, x, getattr(ac, f)(x), getattr(ac, f)(x, DEF)))
        if not rel(ac.cn2_to_seeing(cn2), ac.r0_to_seeing(ac.cn2_to_r0(cn2))):
            bad("composite-default:cn2_to_seeing", "cn2_to_seeing(x) ≠ r0_to_seeing(cn2_to_r0(x)) with the wavelengths omitted, x=%r" % cn2, cn2=cn2)
        if not rel(ac.seeing_to_cn2(s), ac.r0_to_cn2(ac.seeing_to_r0(s))):
            bad("composite-default:seeing_to_cn2", "seeing_to_cn2(x) ≠ r0_to_cn2(seeing_to_r0(x)) with the wavelengths omitted, x=%r" % s, seeing=s)
        # single layer with every wavelength omitted
        c1, h1, v1 = numpy.array([cn2]), numpy.array([h]), numpy.array([vv])
        r0d = ac.cn2_to_r0(cn2)
        ci = float(ac.isoplanaticAngle(c1, h1)) * math.pi / (180 * 3600) * h / r0d
        ct = float(ac.coherenceTime(c1, v1)) * vv / r0d
        if not abs(ci - 0.314) <= 0.002:
            bad("single-layer-default:isoplanatic", "isoplanaticAngle([cn2],[h])·h/cn2_to_r0(cn2) = %r, not 0.314±0.002, with the wavelengths "
                "omitted (cn2=%r h=%r)" % (ci, cn2, h), cn2=cn2, h=h)
        if not abs(ct - 0.314) <= 0.002:
            bad("single-layer-default:coherence", "coherenceTime([cn2],[v])·v/cn2_to_r0(cn2) = %r, not 0.314±0.002, with the wavelengths "
                "omitted (cn2=%r v=%r)" % (ct, cn2, vv), cn2=cn2, v=vv)
        for fn, x2 in ((ac.isoplanaticAngle, h1), (ac.coherenceTime, v1), (ac.rytov_variance, h1)):
            if not rel(float(fn(c1, x2)), float(fn(c1, x2, DEF))):
                chk.broke("correspondence", "%s(cn2, x) ≠ %s(cn2, x, 500e-9): the default wavelength is no longer the documented 500 nm"
                          % (fn.__name__, fn.__name__))
        # photometric default band
        back = astmod.flux_to_magnitude(astmod.magnitude_to_flux(m))
        if not abs(back - m) <= 1e-9 * max(1, abs(m)):
            bad("inverse-default:flux_to_magnitude∘magnitude_to_flux", "flux_to_magnitude(magnitude_to_flux(m)) = %r ≠ m = %r with the band "
                "omitted" % (back, m), m=m)
        for fn, a0, a1 in (("magnitude_to_flux", astmod.magnitude_to_flux(m), astmod.magnitude_to_flux(m, "V")),
                           ("flux_to_magnitude", astmod.flux_to_magnitude(1e6), astmod.flux_to_magnitude(1e6, "V")),
                           ("photons_per_band", astmod.photons_per_band(m, mask, px, t), astmod.photons_per_band(m, mask, px, t, "V"))):
            if not rel(a0, a1):
                chk.broke("correspondence", "%s without a band ≠ %s(…, 'V'): the default band is no longer the documented 'V'" % (fn, fn))

    def arrays(lam):
        """the converters on NumPy arrays (any shape; wavelength a scalar or an array of the same shape): inverse pairs hold
        element-wise"""
        nprng = numpy.random.default_rng(rng.getrandbits(32))
        shape = tuple(rng.randint(1, 4) for _ in range(rng.randint(1, 2)))
        L = lam if rng.random() < 0.5 else 10 ** nprng.uniform(-6.5, -5, shape)
        chk.count("array-args:rank%d:%s" % (len(shape), "scalar-λ" if numpy.ndim(L) == 0 else "array-λ"))
        X = {"cn2": 10 ** nprng.uniform(-16, -11, shape), "r0": 10 ** nprng.uniform(-2, 0.3, shape), "seeing": 10 ** nprng.uniform(-1, 0.7, shape)}
        pairs = [("cn2_to_r0", "r0_to_cn2", "cn2"), ("r0_to_cn2", "cn2_to_r0", "r0"), ("r0_to_seeing", "seeing_to_r0", "r0"),
                 ("seeing_to_r0", "r0_to_seeing", "seeing"), ("cn2_to_seeing", "seeing_to_cn2", "cn2"), ("seeing_to_cn2", "cn2_to_seeing", "seeing")]
        for f, g, k in pairs:
            x = X[k]
            try:
                y = numpy.asarray(getattr(ac, g)(getattr(ac, f)(x, L), L))
            except Exception as ex:     # noqa: BLE001
                bad("inverse:array:%s∘%s" % (g, f), "%s(%s(array)) raised %s: %s" % (g, f, type(ex).__name__, ex), f=f, g=g, x=x.tolist())
                continue
            if y.shape != x.shape or not numpy.allclose(y, x, rtol=RT, atol=0):
                bad("inverse:array:%s∘%s" % (g, f), "%s(%s(X,λ),λ) ≠ X element-wise for an array X of shape %s" % (g, f, shape),
                    f=f, g=g, x=x.tolist(), lamda=numpy.asarray(L).tolist())
            # … and agree with the scalar calls
            one = numpy.array([getattr(ac, f)(float(xx), float(ll)) for xx, ll in zip(x.ravel(), numpy.broadcast_to(L, shape).ravel())])
            if not numpy.allclose(numpy.asarray(getattr(ac, f)(x, L)).ravel(), one, rtol=RT, atol=0):
                bad("array:" + f, "%s(array) differs from the scalar calls for shape %s" % (f, shape), f=f, x=x.tolist(),
                    lamda=numpy.asarray(L).tolist())
        mm = nprng.uniform(-2, 25, shape)
        b = rng.choice(BANDS)
        fl = numpy.asarray(astmod.magnitude_to_flux(mm, b))
        if fl.shape != mm.shape or not numpy.allclose(fl * 100 ** (mm / 5), astmod.magnitude_to_flux(0.0, b), rtol=RT, atol=0):
            bad("array:magnitude_to_flux", "magnitude_to_flux(array, %r) is not flux(0)·100^(-m/5) element-wise" % b, m=mm.tolist(), band=b)

    INT_DTYPES = ["int64", "int32", "int16", "uint16", "uint32", "uint64"]

    def same(a, b):
        a, b = numpy.asarray(a, dtype=float), numpy.asarray(b, dtype=float)
        return a.shape == b.shape and bool(numpy.all(numpy.isfinite(a))) and numpy.allclose(a, b, rtol=RT, atol=0)

    def integer_typed(lam, cn2, band):
        """INTEGER-typed arguments: altitude grids in whole metres (numpy.arange(0, 25000, 250), a column read with dtype=int),
        wind speeds in whole m/s, relative layer weights as counts, whole magnitudes / arc-seconds / metres, 0/1 masks.  The type
        an argument is stored in is not part of its value: every function must return what it returns for the same values as
        float64 (to rounding), and the single-layer and axis clauses hold on integer grids.  Heights reach 25 km, wind 60 m/s."""
        nprng = numpy.random.default_rng(rng.getrandbits(32))
        # ---- profile integrals: integer h / v (any integer dtype that holds the values), float cn2
        if rng.random() < 0.4:
            step = rng.choice([100, 250, 500, 1000, 2500])
            Hf = numpy.arange(rng.choice([0, 0, step, rng.randint(1, 500)]), 25000, step)[:rng.choice([4, 10, 40, 250])]
            gk = "grid"
        else:
            Hf = numpy.sort(nprng.integers(0, 25001, rng.randint(1, 8)))
            gk = "irregular"
        if not Hf.any():
            Hf[-1] = rng.randint(1, 25000)              # a profile wholly at h = 0 has no isoplanatic angle (outside the domain)
        n = len(Hf)
        Vf = nprng.integers(1, 61, n)
        C = 10 ** nprng.uniform(-16, -12, n)
        chk.count("int-dtype:heights-" + gk)
        dts = ["int64", "int32", rng.choice(INT_DTYPES[2:])]
        for fn, X, arg in ((ac.isoplanaticAngle, Hf, "h"), (ac.coherenceTime, Vf, "v"), (ac.rytov_variance, Hf, "h")):
            ref = fn(C, X.astype(float), lam)
            for dt in dts:
                chk.count("int-dtype:" + dt)
                try:
                    with numpy.errstate(all="ignore"):
                        got = fn(C, X.astype(dt), lam)
                except Exception as ex:     # noqa: BLE001
                    got = "raised %s: %s" % (type(ex).__name__, ex)
                if isinstance(got, str) or not same(got, ref):
                    bad("int-dtype:%s:%s" % (fn.__name__, arg), "%s(cn2, %s) with %s stored as %s = %r, but %r for the same values as float64 "
                        "(%d layers up to %d)" % (fn.__name__, arg, arg, dt, got if isinstance(got, str) else float(got), float(ref), n, int(X.max())),
                        fn=fn.__name__, cn2=C.tolist(), **{arg: X.tolist()}, dtype=dt, lamda=lam)
                    break
            # relative layer weights as whole numbers (counts): cn2 integer-typed as well
            W = nprng.integers(1, 1000, n)
            dt = rng.choice(dts)
            refw = fn(W.astype(float), X.astype(float), lam)
            try:
                with numpy.errstate(all="ignore"):
                    gotw = fn(W.astype(dt), X.astype(dt), lam)
            except Exception as ex:     # noqa: BLE001
                gotw = "raised %s: %s" % (type(ex).__name__, ex)
            if isinstance(gotw, str) or not same(gotw, refw):
                bad("int-dtype:%s:cn2" % fn.__name__, "%s(weights, %s) with integer-typed (%s) weights and %s = %r, but %r for the same "
                    "values as float64" % (fn.__name__, arg, dt, arg, gotw if isinstance(gotw, str) else float(gotw), float(refw)),
                    fn=fn.__name__, cn2=W.tolist(), **{arg: X.tolist()}, dtype=dt, lamda=lam)
        # ---- single layer on an integer grid
        hi, vi = rng.randint(1, 25000), rng.randint(1, 60)
        dt = rng.choice(dts)
        r0l = ac.cn2_to_r0(cn2, lam)
        with numpy.errstate(all="ignore"):
            ci = float(ac.isoplanaticAngle(numpy.array([cn2]), numpy.array([hi], dtype=dt), lam)) * math.pi / (180 * 3600) * hi / r0l
            ct = float(ac.coherenceTime(numpy.array([cn2]), numpy.array([vi], dtype=dt), lam)) * vi / r0l
        if not abs(ci - 0.314) <= 0.002:
            bad("single-layer:isoplanatic:int-dtype", "isoplanaticAngle([cn2],[h])·h/r0 = %r, not 0.314±0.002, for h = %d stored as %s "
                "(cn2=%r λ=%r)" % (ci, hi, dt, cn2, lam), cn2=cn2, h=hi, dtype=dt, lamda=lam)
        if not abs(ct - 0.314) <= 0.002:
            bad("single-layer:coherence:int-dtype", "coherenceTime([cn2],[v])·v/r0 = %r, not 0.314±0.002, for v = %d stored as %s "
                "(cn2=%r λ=%r)" % (ct, vi, dt, cn2, lam), cn2=cn2, v=vi, dtype=dt, lamda=lam)
        # ---- stacked profiles on ONE integer grid (shared, or repeated to the full shape) = loop over profiles on the float grid
        lead = tuple(rng.randint(1, 3) for _ in range(rng.randint(1, 2)))
        Cs = 10 ** nprng.uniform(-16, -12, lead + (n,))
        dt = rng.choice(dts)
        for fn, X in ((ac.isoplanaticAngle, Hf), (ac.coherenceTime, Vf), (ac.rytov_variance, Hf)):
            Xi = X.astype(dt)
            Xarg = Xi if rng.random() < 0.5 else numpy.broadcast_to(Xi, Cs.shape).copy()
            loop = numpy.empty(lead)
            for idx in numpy.ndindex(*lead):
                loop[idx] = fn(Cs[idx], X.astype(float), lam)
            with numpy.errstate(all="ignore"):
                full = numpy.asarray(fn(Cs, Xarg, lam))
                first = numpy.asarray(fn(numpy.moveaxis(Cs, -1, 0), Xi.reshape((n,) + (1,) * len(lead)), lam, axis=0))
            if not same(full, loop):
                bad("axis:%s:int-dtype" % fn.__name__, "%s on stacked profiles %s with the %s grid of shape %s differs from looping over the "
                    "profiles with the same grid as float64" % (fn.__name__, Cs.shape, dt, Xarg.shape), fn=fn.__name__, cn2=Cs.tolist(),
                    x=X.tolist(), dtype=dt, lamda=lam)
            elif not same(first, loop):
                bad("axis:%s:int-dtype" % fn.__name__, "%s with axis=0 (layers first) on the %s grid differs from looping over the profiles "
                    "with the same grid as float64" % (fn.__name__, dt), fn=fn.__name__, cn2=Cs.tolist(), x=X.tolist(), dtype=dt, lamda=lam, axis=0)
        # ---- the converters on whole numbers (Python int, NumPy integer scalar, integer array): value = value at the float
        k = rng.randint(1, 9)
        arr = nprng.integers(1, 10, rng.randint(1, 4)).astype(rng.choice(["int64", "int32"]))
        for f, g in (("cn2_to_r0", "r0_to_cn2"), ("r0_to_cn2", "cn2_to_r0"), ("r0_to_seeing", "seeing_to_r0"),
                     ("seeing_to_r0", "r0_to_seeing"), ("cn2_to_seeing", "seeing_to_cn2"), ("seeing_to_cn2", "cn2_to_seeing")):
            for x, xf, tag in ((k, float(k), "int"), (numpy.int64(k), float(k), "numpy.int64"), (arr, arr.astype(float), "integer array")):
                try:
                    with numpy.errstate(all="ignore"):
                        y, yf = getattr(ac, f)(x, lam), getattr(ac, f)(xf, lam)
                        back = getattr(ac, g)(y, lam)
                except Exception as ex:     # noqa: BLE001
                    bad("int-dtype:" + f, "%s(%r) (%s) raised %s: %s" % (f, x, tag, type(ex).__name__, ex), f=f, x=numpy.asarray(x).tolist(), lamda=lam)
                    continue
                if not same(y, yf):
                    bad("int-dtype:" + f, "%s(%r) (%s) = %r but %r at the same value as a float (λ=%r)" % (f, x, tag, y, yf, lam),
                        f=f, x=numpy.asarray(x).tolist(), lamda=lam)
                elif not same(back, xf):
                    bad("inverse:int:%s∘%s" % (g, f), "%s(%s(x,λ),λ) = %r ≠ x = %r (%s)" % (g, f, back, x, tag), f=f, g=g,
                        x=numpy.asarray(x).tolist(), lamda=lam)
        d = rng.randint(1, 3)
        if not same(ac.slope_variance_from_r0(k, lam, d), ac.slope_variance_from_r0(float(k), lam, float(d))):
            bad("int-dtype:slope_variance_from_r0", "slope_variance_from_r0(%d, λ, %d) differs from the call with floats" % (k, d), r0=k, lamda=lam, d=d)
        # ---- photometry on whole magnitudes / fluxes / 0-1 integer and boolean masks / whole seconds
        mi, fi, ti = rng.randint(-2, 25), rng.randint(1, 10 ** 9), rng.randint(1, 100)
        marr = nprng.integers(-2, 26, 3)
        maski = nprng.integers(0, 2, (4, 4))
        maski[0, 0] = 1
        px = logu(rng, 1e-3, 1.)
        with numpy.errstate(all="ignore"):
            tests = [("magnitude_to_flux", astmod.magnitude_to_flux(mi, band), astmod.magnitude_to_flux(float(mi), band)),
                     ("magnitude_to_flux", astmod.magnitude_to_flux(marr, band), astmod.magnitude_to_flux(marr.astype(float), band)),
                     ("flux_to_magnitude", astmod.flux_to_magnitude(fi, band), astmod.flux_to_magnitude(float(fi), band)),
                     ("photons_per_band", astmod.photons_per_band(mi, maski, px, ti, band),
                      astmod.photons_per_band(float(mi), maski.astype(float), px, float(ti), band)),
                     ("photons_per_band", astmod.photons_per_band(mi, maski.astype(bool), px, ti, band),
                      astmod.photons_per_band(float(mi), maski.astype(float), px, float(ti), band)),
                     ("photons_per_mag", astmod.photons_per_mag(mi, maski, px, 100, ti),
                      astmod.photons_per_mag(float(mi), maski.astype(float), px, 100., float(ti)))]
        for fn, a, b in tests:
            if not same(a, b):
                bad("int-dtype:" + fn, "%s on whole-number arguments (m=%d, flux=%d, t=%d, integer / boolean mask, band %s) = %r but %r "
                    "for the same values as floats" % (fn, mi, fi, ti, band, a, b), m=mi, flux=fi, t=ti, band=band, px=px, mask=maski.tolist())
        if not abs(astmod.flux_to_magnitude(astmod.magnitude_to_flux(mi, band), band) - mi) <= 1e-9 * max(1, abs(mi)):
            bad("inverse:int:flux_to_magnitude∘magnitude_to_flux", "band %s, whole magnitude %d: round trip gives %r"
                % (band, mi, astmod.flux_to_magnitude(astmod.magnitude_to_flux(mi, band), band)), band=band, m=mi)


    # ------------------------------------------------------------------------------------------------------------------
    # Round 5 (generator audit): input classes and call histories the blocks above never produce.  Every clause evaluated here
    # is a clause of the property (inverse pair, composite = composition, scaling, 5 magnitudes, proportionality, single layer,
    # axis = loop over profiles); only the ARGUMENTS differ: memory layout (Fortran order, strided and negative-stride views whose
    # gaps hold NaN, read-only arrays), float32 storage, NumPy scalars and 0-d arrays, ranks 4-5, long profiles and stacks that
    # cross 2^8 / 2^16 (thorough: 2^18) elements, zero-strength layers and a ground layer at h = 0, extreme but finite positive
    # magnitudes, every band through every entry point, large / non-square / narrow-integer masks, odd and long slope records,
    # frame-major slope buffers, and REUSE of the caller's arrays (every function is called twice on the same array objects and
    # interleaved with its siblings; each result is compared with the result on a pristine private copy).
    MODS = (("atmos_conversions", ac), ("aotools.turbulence", aotools.turbulence), ("aotools", aotools))
    AST = (("_astronomy", astmod), ("aotools.astronomy", aotools.astronomy), ("aotools", aotools))
    PAIRS = [("cn2_to_r0", "r0_to_cn2", "cn2"), ("r0_to_cn2", "cn2_to_r0", "r0"), ("r0_to_seeing", "seeing_to_r0", "r0"),
             ("seeing_to_r0", "r0_to_seeing", "seeing"), ("cn2_to_seeing", "seeing_to_cn2", "cn2"), ("seeing_to_cn2", "cn2_to_seeing", "seeing")]
    # float32-stored arguments: the functions then compute in single precision (NumPy's promotion rules), so agreement with the
    # float64 call on the same values can only be asked to single-precision rounding.  Observed worst relative difference on the
    # unchanged tree (seeds 0..11 quick, twice with different generator streams, + thorough seed 0; every float32 case of this
    # block — converters and their round trips, profile integrals, r0_from_slopes, masks / NumPy-float32 magnitudes, pixel scales
    # and exposures): 1.35e-6 (quick runs: 0.9e-6 .. 1.35e-6, thorough 1.28e-6).  F32 = 1e-4 is 74 x that, and still 100 x below
    # the smallest effect a wrong constant, exponent or axis has.
    F32 = 1e-4
    LAYOUTS = ["C", "F", "strided", "negstride", "readonly", "strided-first"]
    worst = {"f32": 0.0, "f64-variant": 0.0}

    def relayout(a, kind):
        """the same VALUES in another memory layout; the gaps of strided views hold NaN (integers: a large sentinel), so code that
        walks the underlying buffer instead of the array reads garbage"""
        a = numpy.array(a)
        if a.ndim == 0 or kind == "C":
            return a.copy()
        if kind == "F":
            return numpy.asfortranarray(a)
        fill = numpy.nan if a.dtype.kind == "f" else 77
        if kind == "strided":
            big = numpy.full(a.shape[:-1] + (2 * a.shape[-1] + 1,), fill, dtype=a.dtype)
            big[..., 1::2] = a
            return big[..., 1::2]
        if kind == "strided-first":
            big = numpy.full((3 * a.shape[0],) + a.shape[1:], fill, dtype=a.dtype)
            big[::3] = a
            return big[::3]
        if kind == "negstride":
            return a[..., ::-1].copy()[..., ::-1]
        if kind == "readonly":
            b = a.copy()
            b.setflags(write=False)
            return b
        raise ValueError(kind)

    def reldiff(a, b):
        """largest relative difference (inf for a shape mismatch or a non-finite entry of `a`)"""
        a, b = numpy.asarray(a, dtype=float), numpy.asarray(b, dtype=float)
        if a.shape != b.shape or not numpy.all(numpy.isfinite(a)):
            return float("inf")
        if a.size == 0:
            return 0.0
        return float(numpy.max(numpy.abs(a - b) / numpy.maximum(numpy.maximum(numpy.abs(a), numpy.abs(b)), 1e-300)))

    def agree(a, b, f32):
        d = reldiff(a, b)
        k = "f32" if f32 else "f64-variant"
        if d != float("inf"):
            worst[k] = max(worst[k], d)
        return d <= (F32 if f32 else RT)

    def lib(key, fn, *a, **k):
        """call into the library; an exception on an in-domain argument is a failure of the property at that input"""
        try:
            with numpy.errstate(all="ignore"):
                return True, fn(*a, **k)
        except Exception as ex:     # noqa: BLE001
            bad(key, "%s raised %s: %s on an in-domain argument (%s)" % (getattr(fn, "__name__", "call"), type(ex).__name__, ex,
                ", ".join("%s %s%s" % (type(x).__name__, getattr(x, "dtype", ""), getattr(x, "shape", "")) for x in a)),
                fn=getattr(fn, "__name__", "call"), error=str(ex))
            return False, None

    def describe(x):
        x = numpy.asarray(x)
        return x.tolist() if x.size <= 64 else {"shape": list(x.shape), "first": x.ravel()[:8].tolist()}

    def bands_everywhere():
        """every one of the twelve bands, through every entry point: both round trips (also at magnitude exactly 0, as an int and
        as a float), 5 magnitudes = factor 100 in the flux AND in the photon counts, and the composite photons_per_band =
        magnitude_to_flux x exposure time x collecting area"""
        mask = numpy.ones((3, 5))
        mask[1, 1:3] = 0
        for band in BANDS:
            for modname, A in AST:
                chk.count("bands-exhaustive")
                m, f0 = rng.uniform(-2, 25), logu(rng, 1e-3, 1e12)
                px, t = logu(rng, 1e-3, 1.), logu(rng, 1e-4, 100)
                for mm in (0, 0.0, m):
                    ok, back = lib("inverse:flux_to_magnitude∘magnitude_to_flux", lambda: A.flux_to_magnitude(A.magnitude_to_flux(mm, band), band))
                    if ok and not abs(back - mm) <= 1e-9 * max(1, abs(mm)):
                        bad("inverse:flux_to_magnitude∘magnitude_to_flux", "%s, band %s, m=%r: round trip gives %r" % (modname, band, mm, back),
                            band=band, m=mm, via=modname)
                ok, back = lib("inverse:magnitude_to_flux∘flux_to_magnitude", lambda: A.magnitude_to_flux(A.flux_to_magnitude(f0, band), band))
                if ok and not rel(back, f0):
                    bad("inverse:magnitude_to_flux∘flux_to_magnitude", "%s, band %s, flux=%r: round trip gives %r" % (modname, band, f0, back),
                        band=band, flux=f0, via=modname)
                ok, fl = lib("five-magnitudes", lambda: (A.magnitude_to_flux(m, band), A.magnitude_to_flux(m + 5, band)))
                if ok and not rel(fl[0], 100 * fl[1]):
                    bad("five-magnitudes", "5 magnitudes are not a factor 100 in band %s at m=%r (%s)" % (band, m, modname), band=band, m=m)
                ok, ph = lib("composite:photons_per_band", lambda: (A.photons_per_band(m, mask, px, t, band),
                                                                      A.photons_per_band(m + 5, mask, px, t, band)))
                if ok:
                    want = A.magnitude_to_flux(m, band) * t * (13.0 * px ** 2)
                    if not rel(ph[0], want):
                        bad("composite:photons_per_band", "photons_per_band(m, mask, px, t, %r) = %r is not magnitude_to_flux(m, %r) x t x area "
                            "= %r (13 open pixels of %r m, t=%r, m=%r; %s)" % (band, ph[0], band, want, px, t, m, modname),
                            band=band, m=m, px=px, t=t, via=modname)
                    if not rel(ph[0], 100 * ph[1]):
                        bad("five-magnitudes:photons_per_band", "photons_per_band: 5 magnitudes are not a factor 100 in band %s at m=%r "
                            "(%r vs %r)" % (band, m, ph[0], ph[1]), band=band, m=m, px=px, t=t)
        m, px, t = rng.uniform(-2, 25), logu(rng, 1e-3, 1.), logu(rng, 1e-4, 100)
        ok, ph = lib("five-magnitudes:photons_per_mag", lambda: (astmod.photons_per_mag(m, mask, px, 100., t), astmod.photons_per_mag(m + 5, mask, px, 100., t)))
        if ok and not rel(ph[0], 100 * ph[1]):
            bad("five-magnitudes:photons_per_mag", "photons_per_mag: 5 magnitudes are not a factor 100 at m=%r (%r vs %r)" % (m, ph[0], ph[1]),
                m=m, px=px, t=t)

    def extreme_magnitudes(it):
        """the quantifier is 'all positive r0, Cn2, seeing, wavelengths; all magnitudes': the same scalar clauses far outside the
        everyday ranges (X-ray to radio wavelengths, r0 from 0.1 mm to 10 km, Cn2 over twenty decades, magnitudes -30 .. 40, scale
        factors 1e-3 .. 1e3).  Everything stays far from overflow (largest intermediate ~1e40)."""
        cn2, lam, r0, s = logu(rng, 1e-25, 1e-5), logu(rng, 1e-8, 1.0), logu(rng, 1e-4, 1e4), logu(rng, 1e-4, 1e4)
        c = logu(rng, 1e-3, 1e3)
        chk.count("extreme-magnitudes")
        _, mod = MODS[it % 3]
        X = {"cn2": cn2, "r0": r0, "seeing": s}
        for f, g, k in PAIRS:
            ok, y = lib("inverse:%s∘%s:extreme-magnitude" % (g, f), lambda: getattr(mod, g)(getattr(mod, f)(X[k], lam), lam))
            if ok and not rel(y, X[k]):
                bad("inverse:%s∘%s:extreme-magnitude" % (g, f), "%s(%s(x,λ),λ)=%r ≠ x=%r (λ=%r)" % (g, f, y, X[k], lam), f=f, g=g, x=X[k], lamda=lam)
        if not rel(mod.cn2_to_seeing(cn2, lam), mod.r0_to_seeing(mod.cn2_to_r0(cn2, lam), lam)):
            bad("composite:cn2_to_seeing:extreme-magnitude", "cn2_to_seeing ≠ r0_to_seeing∘cn2_to_r0 at cn2=%r λ=%r" % (cn2, lam), cn2=cn2, lamda=lam)
        if not rel(mod.seeing_to_cn2(s, lam), mod.r0_to_cn2(mod.seeing_to_r0(s, lam), lam)):
            bad("composite:seeing_to_cn2:extreme-magnitude", "seeing_to_cn2 ≠ r0_to_cn2∘seeing_to_r0 at s=%r λ=%r" % (s, lam), seeing=s, lamda=lam)
        if not rel(mod.cn2_to_r0(cn2, c * lam), c ** 1.2 * mod.cn2_to_r0(cn2, lam)):
            bad("scale:r0~lambda^6/5:extreme-magnitude", "r0 does not scale as λ^(6/5) at cn2=%r λ=%r c=%r" % (cn2, lam, c), cn2=cn2, lamda=lam, c=c)
        if not rel(mod.cn2_to_r0(c * cn2, lam), c ** -0.6 * mod.cn2_to_r0(cn2, lam)):
            bad("scale:r0~cn2^-3/5:extreme-magnitude", "r0 does not scale as Cn2^(-3/5) at cn2=%r λ=%r c=%r" % (cn2, lam, c), cn2=cn2, lamda=lam, c=c)
        if not rel(mod.cn2_to_seeing(cn2, c * lam), c ** -0.2 * mod.cn2_to_seeing(cn2, lam)):
            bad("scale:seeing~lambda^-1/5:extreme-magnitude", "seeing does not scale as λ^(-1/5) at cn2=%r λ=%r c=%r" % (cn2, lam, c),
                cn2=cn2, lamda=lam, c=c)
        d = logu(rng, 1e-3, 50.)
        v = mod.slope_variance_from_r0(r0, lam, d)
        sl = math.sqrt(v) * numpy.broadcast_to(numpy.array([1.0, -1.0, -1.0, 1.0]), (2, 2, 4)).copy()
        ok, got = lib("inverse:r0_from_slopes∘slope_variance_from_r0:extreme-magnitude", mod.r0_from_slopes, sl, lam, d)
        if ok and not abs(got - r0) <= 1e-7 * r0:
            bad("inverse:r0_from_slopes∘slope_variance_from_r0:extreme-magnitude", "r0_from_slopes(slopes of variance slope_variance_from_r0(r0))"
                "=%r ≠ r0=%r (λ=%r d=%r)" % (got, r0, lam, d), r0=r0, wavelength=lam, subapDiam=d)
        # single layer far up / near the ground, storm / calm
        h, vv = logu(rng, 1.0, 1e5), logu(rng, 0.05, 300.)
        r0l = mod.cn2_to_r0(cn2, lam)
        ci = float(mod.isoplanaticAngle(numpy.array([cn2]), numpy.array([h]), lam)) * math.pi / (180 * 3600) * h / r0l
        ct = float(mod.coherenceTime(numpy.array([cn2]), numpy.array([vv]), lam)) * vv / r0l
        if not abs(ci - 0.314) <= 0.002:
            bad("single-layer:isoplanatic:extreme-magnitude", "isoplanaticAngle([cn2],[h])·h/r0 = %r, not 0.314±0.002, at cn2=%r h=%r λ=%r"
                % (ci, cn2, h, lam), cn2=cn2, h=h, lamda=lam)
        if not abs(ct - 0.314) <= 0.002:
            bad("single-layer:coherence:extreme-magnitude", "coherenceTime([cn2],[v])·v/r0 = %r, not 0.314±0.002, at cn2=%r v=%r λ=%r"
                % (ct, cn2, vv, lam), cn2=cn2, v=vv, lamda=lam)
        # photometry
        _, A = AST[it % 3]
        band, m, f0 = rng.choice(BANDS), rng.uniform(-30, 40), logu(rng, 1e-10, 1e20)
        back = A.flux_to_magnitude(A.magnitude_to_flux(m, band), band)
        if not abs(back - m) <= 1e-9 * max(1, abs(m)):
            bad("inverse:flux_to_magnitude∘magnitude_to_flux:extreme-magnitude", "band %s m=%r round trip gives %r" % (band, m, back), band=band, m=m)
        if not rel(A.magnitude_to_flux(A.flux_to_magnitude(f0, band), band), f0):
            bad("inverse:magnitude_to_flux∘flux_to_magnitude:extreme-magnitude", "band %s flux=%r round trip" % (band, f0), band=band, flux=f0)
        if not rel(A.magnitude_to_flux(m, band), 100 * A.magnitude_to_flux(m + 5, band)):
            bad("five-magnitudes:extreme-magnitude", "5 magnitudes are not a factor 100 in band %s at m=%r" % (band, m), band=band, m=m)
        mask = numpy.ones((2, 3))
        px, t = logu(rng, 1e-5, 100.), logu(rng, 1e-7, 1e6)
        for fn, args in (("photons_per_band", lambda mk, p_, tt: A.photons_per_band(m, mk, p_, tt, band)),
                         ("photons_per_mag", lambda mk, p_, tt: A.photons_per_mag(m, mk, p_, 100., tt))):
            b0 = args(mask, px, t)
            if not rel(args(mask, px, c * t), c * b0):
                bad("linear-time:%s:extreme-magnitude" % fn, "%s not proportional to exposure time (m=%r px=%r t=%r c=%r: %r vs %r·%r)"
                    % (fn, m, px, t, c, args(mask, px, c * t), c, b0), m=m, band=band, px=px, t=t, c=c)
            if not rel(args(numpy.ones((4, 3)), px, t), 2 * b0):
                bad("linear-area:%s:extreme-magnitude" % fn, "%s not proportional to collecting area (mask doubled; m=%r px=%r t=%r)"
                    % (fn, m, px, t), m=m, band=band, px=px, t=t)

    def stack_variants(it, lam):
        """profile integrals on stacks of rank 2-5 in every memory layout, as float64 or float32, with zero-strength layers and a
        ground layer at h = 0, the axis as an int / numpy.int64 / negative index — each function called TWICE on the same array
        objects, interleaved with the other two; every result against the loop over profiles on pristine float64 copies"""
        nprng = numpy.random.default_rng(rng.getrandbits(32))
        rank = rng.choice([2, 3, 3, 4, 4, 5])
        shape = tuple(rng.choice([1, 2, 3, 4, 5]) for _ in range(rank))
        axis = rng.randrange(rank)
        f32 = rng.random() < 0.25
        kc, kx = rng.choice(LAYOUTS), rng.choice(LAYOUTS)
        dt = "float32" if f32 else "float64"
        C = (10 ** nprng.uniform(-16, -12, shape)).astype(dt)
        Xh = (10 ** nprng.uniform(1, 4.3, shape)).astype(dt)
        Xv = (10 ** nprng.uniform(0, 1.8, shape)).astype(dt)
        zeros = shape[axis] >= 2 and rng.random() < 0.4
        if zeros:
            # layer 0 of every profile keeps cn2 > 0 at h > 0, so every integral stays positive
            sel = [slice(None)] * rank
            sel[axis] = slice(1, None)
            sub = C[tuple(sel)]
            sub[nprng.random(sub.shape) < 0.4] = 0.0
            sel[axis] = 1
            Xh[tuple(sel)] = numpy.where(nprng.random(Xh[tuple(sel)].shape) < 0.5, 0.0, Xh[tuple(sel)])
            Xv[tuple(sel)] = numpy.where(nprng.random(Xv[tuple(sel)].shape) < 0.3, 0.0, Xv[tuple(sel)])
        ax = rng.choice([axis, axis - rank, numpy.int64(axis), numpy.int32(axis - rank)])
        chk.count("stack-variant:rank%d" % rank)
        chk.count("stack-variant:cn2-layout=" + kc)
        chk.count("stack-variant:" + dt)
        C0, H0, V0 = C.astype(float), Xh.astype(float), Xv.astype(float)
        Cv, Hv, Vv = relayout(C, kc), relayout(Xh, kx), relayout(Xv, kx)
        modname, mod = MODS[it % 3]
        ref = {}
        Cm = numpy.moveaxis(C0, axis, -1)
        for name, X0 in (("isoplanaticAngle", H0), ("coherenceTime", V0), ("rytov_variance", H0)):
            Xm = numpy.moveaxis(X0, axis, -1)
            loop = numpy.empty(Cm.shape[:-1])
            for idx in numpy.ndindex(*Cm.shape[:-1]):
                loop[idx] = getattr(ac, name)(Cm[idx].copy(), Xm[idx].copy(), lam)
            ref[name] = loop
        order = ["isoplanaticAngle", "coherenceTime", "rytov_variance"] * 2
        rng.shuffle(order)
        done = []
        for name in order:
            Xarg = Vv if name == "coherenceTime" else Hv
            key = "axis:%s:%s" % (name, "float32" if f32 else "layout")
            ok, got = lib(key, getattr(mod, name), Cv, Xarg, lam, axis=ax)
            done.append(name)
            if not ok:
                break
            if not agree(got, ref[name], f32):
                touched = not (numpy.array_equal(Cv, C) and numpy.array_equal(Hv, Xh) and numpy.array_equal(Vv, Xv))
                if touched:
                    key = "reuse:%s:caller-arrays-changed" % name
                bad(key, "%s.%s with axis=%r on cn2 %s (%s, %s) / x (%s)%s differs from looping over the profiles: max relative difference %.3g%s"
                    % (modname, name, ax, shape, dt, kc, kx, ", zero layers" if zeros else "", reldiff(got, ref[name]),
                       "; the caller's arrays were modified by the earlier calls %s" % done[:-1] if touched else ""),
                    fn=name, shape=shape, axis=int(ax), dtype=dt, layout_cn2=kc, layout_x=kx, cn2=describe(C0), h=describe(H0), v=describe(V0),
                    lamda=lam, calls=list(done))
                break

    def long_profiles(lam, big):
        """sizes that cross 2^8 / 2^16 (thorough 2^18) elements: (a) a stack = the loop over its profiles, (b) one turbulent layer
        among N-1 layers of zero strength IS a single layer: 0.314 r0/h, 0.314 r0/v, and the value of the one-element call"""
        nprng = numpy.random.default_rng(rng.getrandbits(32))
        for shape, axis in (((3, 300), 1), ((300, 3), 0), ((70, 1000), 1)) + ((((600, 500), 1),) if big else ()):
            chk.count("long:stack %dx%d" % shape)
            C = 10 ** nprng.uniform(-16, -12, shape)
            H = 10 ** nprng.uniform(1, 4.3, shape)
            V = 10 ** nprng.uniform(0, 1.8, shape)
            for name, X in (("isoplanaticAngle", H), ("coherenceTime", V), ("rytov_variance", H)):
                fn = getattr(ac, name)
                Cm, Xm = numpy.moveaxis(C, axis, -1), numpy.moveaxis(X, axis, -1)
                loop = numpy.array([fn(Cm[i].copy(), Xm[i].copy(), lam) for i in range(Cm.shape[0])])
                ok, got = lib("axis:%s:large" % name, fn, C, X, lam, axis=axis)
                if ok and not agree(got, loop, False):
                    bad("axis:%s:large" % name, "%s on a %s stack (axis=%d) differs from looping over its %d profiles: max relative difference "
                        "%.3g" % (name, shape, axis, Cm.shape[0], reldiff(got, loop)), fn=name, shape=shape, axis=axis, lamda=lam,
                        numpy_seed="see replay seed")
        for N in (257, 5000, 70000) + ((300000,) if big else ()):
            chk.count("long:one turbulent layer of %d" % N)
            j = rng.randrange(N)
            cn2, h, v = logu(rng, 1e-16, 1e-11), logu(rng, 10, 2e4), logu(rng, 1, 60)
            C = numpy.zeros(N)
            C[j] = cn2
            H = numpy.sort(10 ** nprng.uniform(1, 4.3, N))
            V = 10 ** nprng.uniform(0, 1.8, N)
            H[j], V[j] = h, v
            r0l = ac.cn2_to_r0(cn2, lam)
            for name, X, x, unit in (("isoplanaticAngle", H, h, math.pi / (180 * 3600)), ("coherenceTime", V, v, 1.0), ("rytov_variance", H, h, None)):
                fn = getattr(ac, name)
                ok, got = lib("single-layer:%s:long-profile" % name, fn, C, X, lam)
                if not ok:
                    continue
                one = float(fn(numpy.array([cn2]), numpy.array([x]), lam))
                if not rel(float(got), one):
                    bad("single-layer:%s:long-profile" % name, "%s of a %d-layer profile whose only turbulent layer is layer %d (cn2=%r at %r) "
                        "= %r, but %r for that layer alone" % (name, N, j, cn2, x, float(got), one), fn=name, N=N, layer=j, cn2=cn2, x=x, lamda=lam)
                elif unit is not None and not abs(float(got) * unit * x / r0l - 0.314) <= 0.002:
                    bad("single-layer:%s:long-profile" % name, "%s·x/r0 = %r, not 0.314±0.002, for a %d-layer profile with one turbulent layer"
                        % (name, float(got) * unit * x / r0l, N), fn=name, N=N, layer=j, cn2=cn2, x=x, lamda=lam)

    def converter_variants(it, lam, big):
        """the six converters on arrays of every layout / float32 / odd, prime and large sizes, on 0-d arrays and NumPy scalars: value
        of the scalar float call, inverse pair, and the SECOND call on the same array object gives what the first gave"""
        nprng = numpy.random.default_rng(rng.getrandbits(32))
        shape = rng.choice([(1,), (2,), (3,), (5,), (7,), (17,), (257,), (3, 5), (5, 2), (2, 3, 4), (1, 1, 3), ()])
        if big:
            shape = (70001,) if chk.tier == "quick" else rng.choice([(70001,), (263000,), (300, 301)])
        f32 = rng.random() < 0.3
        dt = "float32" if f32 else "float64"
        kind = rng.choice(LAYOUTS)
        modname, mod = MODS[it % 3]
        lamv = lam
        if shape and rng.random() < 0.3:
            lamv = relayout((10 ** nprng.uniform(-6.5, -5, shape)).astype(dt), rng.choice(LAYOUTS))
        chk.count("converter-variant:" + ("0-d" if not shape else "rank%d" % len(shape)))
        chk.count("converter-variant:" + dt)
        chk.count("converter-variant:layout=" + kind)
        X = {"cn2": 10 ** nprng.uniform(-16, -11, shape), "r0": 10 ** nprng.uniform(-2, 0.3, shape), "seeing": 10 ** nprng.uniform(-1, 0.7, shape)}
        lam0 = numpy.asarray(lamv, dtype=float)
        for f, g, k in PAIRS:
            x = numpy.asarray(X[k]).astype(dt)
            x0 = x.astype(float)
            xv = relayout(x, kind)
            if not shape and rng.random() < 0.5:
                xv = x[()]                       # a NumPy scalar (numpy.float64 / numpy.float32) instead of a 0-d array
            key = "array:%s:%s" % (f, "float32" if f32 else "layout")
            want = getattr(ac, f)(x0.copy(), lam0.copy() if lam0.ndim else float(lam0))
            ok, y1 = lib(key, getattr(mod, f), xv, lamv)
            if not ok:
                continue
            ok, y2 = lib(key, getattr(mod, f), xv, lamv)
            if not ok:
                continue
            what = "%s.%s on a %s %s array of shape %s (%s)" % (modname, f, dt, kind, shape, type(xv).__name__)
            if not agree(y1, want, f32 or numpy.asarray(lamv).dtype == numpy.float32):
                bad(key, "%s differs from the call on a contiguous float64 copy: max relative difference %.3g" % (what, reldiff(y1, want)),
                    f=f, x=describe(x0), lamda=describe(lam0), dtype=dt, layout=kind)
            elif not agree(y2, want, f32 or numpy.asarray(lamv).dtype == numpy.float32):
                bad("reuse:%s:second-call-differs" % f, "%s: the SECOND call on the same array object differs from the first (max relative "
                    "difference %.3g); the caller's array %s" % (what, reldiff(y2, want), "was modified" if not numpy.array_equal(xv, x) else "is unchanged"),
                    f=f, x=describe(x0), lamda=describe(lam0), dtype=dt, layout=kind)
            else:
                ok, back = lib("inverse:array:%s∘%s" % (g, f), getattr(mod, g), y2, lamv)
                if ok and not agree(back, x0, f32 or numpy.asarray(lamv).dtype == numpy.float32):
                    bad("inverse:array:%s∘%s" % (g, f), "%s then %s does not give the argument back (max relative difference %.3g)"
                        % (what, g, reldiff(back, x0)), f=f, g=g, x=describe(x0), lamda=describe(lam0), dtype=dt, layout=kind)

    def slopes_variants(it, lam, r0):
        """r0_from_slopes on records of odd / long length, many sub-apertures, frame-major buffers (slopes logged as
        (nFrames, nSubaps, 2) and handed over as a transposed view), float32 storage, integer sub-aperture size, static offsets;
        called twice on the same array"""
        nprng = numpy.random.default_rng(rng.getrandbits(32))
        nfr = rng.choice([3, 5, 7, 33, 101, 1000, 4097] if it % 10 else [20011])
        nsub = rng.choice([1, 2, 3, 7, 36, 97] if nfr < 5000 else [12])
        d = rng.choice([logu(rng, .05, 2.), 1, 2, numpy.float32(0.5)])
        f32 = rng.random() < 0.25
        modname, mod = MODS[it % 3]
        v = ac.slope_variance_from_r0(r0, lam, float(d))
        x = nprng.standard_normal((2, nsub, nfr))
        x -= x.mean(-1, keepdims=True)
        x /= x.std(-1, keepdims=True)                 # population variance 1 (to rounding) in every sub-aperture
        offs = rng.choice(["none", "common", "per-subap"])
        if offs == "common":
            x += 3.7
        elif offs == "per-subap":
            x += nprng.uniform(-5, 5, (2, nsub, 1))
        sl = math.sqrt(v) * x
        lay = rng.choice(["C", "frame-major", "F", "strided", "readonly"])
        if f32:
            sl = sl.astype("float32")
        if lay == "frame-major":
            slv = numpy.moveaxis(numpy.ascontiguousarray(numpy.moveaxis(sl, -1, 0)), 0, -1)     # buffer (nFrames, 2, nSubaps), viewed as asked
        else:
            slv = relayout(sl, lay)
        chk.count("slopes-variant:nframes=%s" % ("odd<100" if nfr < 100 else ">=100"))
        chk.count("slopes-variant:layout=" + lay)
        chk.count("slopes-variant:" + ("float32" if f32 else "float64"))
        key = "inverse:r0_from_slopes∘slope_variance_from_r0:%s" % ("float32" if f32 else "record-shape")
        tol = F32 if f32 else 1e-7
        keep = slv.copy()
        for n_call in (1, 2):
            ok, got = lib(key, mod.r0_from_slopes, slv, lam, d)
            if not ok:
                break
            err = abs(float(got) - r0) / r0
            if f32:
                worst["f32"] = max(worst["f32"], err) if err == err else worst["f32"]
            if not err <= tol:
                k2 = key if n_call == 1 else "reuse:r0_from_slopes:second-call-differs"
                bad(k2, "%s.r0_from_slopes (call %d on the same array) on %s %s slopes of shape %s with %s static offsets and exact "
                    "per-sub-aperture variance slope_variance_from_r0(r0) gives %r ≠ r0 = %r%s" % (modname, n_call, sl.dtype, lay, sl.shape, offs,
                    float(got), r0, "; the caller's slopes were modified" if not numpy.array_equal(slv, keep) else ""),
                    r0=r0, wavelength=lam, subapDiam=float(d), nframes=nfr, nsub=nsub, layout=lay, dtype=str(sl.dtype), offsets=offs)
                break

    def mask_variants(it):
        """pupil masks as they come: large (more than 255 / 65535 open pixels), non-square, stored as bool / int8 / uint8 / int16 /
        float32 / a strided view; whole-number or NumPy-scalar pixel scale and exposure; called twice with the same mask.  The
        count must equal the count for the same mask as float64, and be flux x time x area."""
        nprng = numpy.random.default_rng(rng.getrandbits(32))
        ny, nx = rng.choice([(20, 20), (17, 40), (64, 64), (300, 7), (1, 300)] if it % 15 else [(300, 300)])
        yy, xx = numpy.mgrid[:ny, :nx]
        m01 = (((yy - ny / 2 + .5) / (ny / 2)) ** 2 + ((xx - nx / 2 + .5) / (nx / 2)) ** 2 <= 1.0) if rng.random() < 0.7 else numpy.ones((ny, nx), bool)
        m01 = m01.copy()
        m01[0, 0] = True
        dtm = rng.choice(["bool", "int8", "uint8", "int16", "uint16", "int32", "int64", "float32", "float64"])
        lay = rng.choice(["C", "F", "strided", "readonly", "strided-first"])
        mask = relayout(m01.astype(dtm), lay)
        nopen = int(m01.sum())
        px = rng.choice([logu(rng, 1e-3, 1.), 1, 2, numpy.float32(0.125), numpy.float64(0.25)])
        t = rng.choice([logu(rng, 1e-4, 100), 1, 30, numpy.float32(0.5), numpy.int64(2)])
        band, m = rng.choice(BANDS), rng.choice([rng.uniform(-2, 25), rng.randint(-2, 25), numpy.float64(rng.uniform(-2, 25)),
                                                 numpy.float32(rng.randint(0, 40) / 2.0)])
        modname, A = AST[it % 3]
        chk.count("mask-variant:dtype=" + dtm)
        chk.count("mask-variant:open-pixels" + (">65535" if nopen > 65535 else ">255" if nopen > 255 else "<=255"))
        ref = m01.astype(float)
        f32 = dtm == "float32" or any(isinstance(z, numpy.float32) for z in (px, t, m))     # then the count is a single-precision number
        for fn, call in (("photons_per_band", lambda mk: A.photons_per_band(m, mk, px, t, band)),
                         ("photons_per_mag", lambda mk: A.photons_per_mag(m, mk, px, 100., t))):
            want = float((astmod.photons_per_band(float(m), ref, float(px), float(t), band) if fn == "photons_per_band"
                          else astmod.photons_per_mag(float(m), ref, float(px), 100., float(t))))
            for n_call in (1, 2):
                ok, got = lib("mask:%s" % fn, call, mask)
                if not ok:
                    break
                if not agree(got, want, f32):
                    bad("mask:%s" % fn if n_call == 1 else "reuse:%s:second-call-differs" % fn,
                        "%s.%s (call %d) with a %dx%d %s %s mask of %d open pixels (m=%r, px=%r, t=%r, band %s) = %r, but %r for the same mask "
                        "as float64" % (modname, fn, n_call, ny, nx, dtm, lay, nopen, m, px, t, band, got, want),
                        fn=fn, ny=ny, nx=nx, dtype=dtm, layout=lay, open_pixels=nopen, m=float(m), px=float(px), t=float(t), band=band)
                    break
            if fn == "photons_per_band":
                comp = float(astmod.magnitude_to_flux(float(m), band)) * float(t) * (nopen * float(px) ** 2)
                if not rel(want, comp):
                    bad("composite:photons_per_band", "photons_per_band(m=%r, %d open pixels of %r m, t=%r, %r) = %r is not magnitude_to_flux x t x "
                        "area = %r" % (float(m), nopen, float(px), float(t), band, want, comp), band=band, m=float(m), px=float(px), t=float(t), open_pixels=nopen)

    def audit5(it, lam, r0):
        if it == 0 or (chk.tier != "quick" and it % 100 == 0):
            bands_everywhere()
        if it == 1 or (chk.tier != "quick" and it % 250 == 1):
            long_profiles(lam, chk.tier != "quick" and it % 500 == 1)
        extreme_magnitudes(it)
        stack_variants(it, lam)
        converter_variants(it, lam, it == 2 or (chk.tier != "quick" and it % 200 == 2))
        slopes_variants(it, lam, r0)
        mask_variants(it)

    for it in range(n):
        chk.oracle_cases += 1
        cn2, lam, r0, s = logu(rng, 1e-16, 1e-11), logu(rng, 3e-7, 1e-5), logu(rng, .01, 2.), logu(rng, .1, 5.)
        c = logu(rng, 0.2, 5.0)
        chk.case(("oracle", it), sample={"cn2": cn2, "lamda": lam, "r0": r0, "seeing": s, "c": c} if it < 2 else None)
        # inverse pairs (module functions and the package-level exports)
        for modname, mod in (("atmos_conversions", ac), ("aotools", aotools)):
            pairs = [("cn2_to_r0", "r0_to_cn2", cn2), ("r0_to_cn2", "cn2_to_r0", r0), ("r0_to_seeing", "seeing_to_r0", r0),
                     ("seeing_to_r0", "r0_to_seeing", s), ("cn2_to_seeing", "seeing_to_cn2", cn2),
                     ("seeing_to_cn2", "cn2_to_seeing", s)]
            for f, g, x in pairs:
                y = getattr(mod, g)(getattr(mod, f)(x, lam), lam)
                if not rel(y, x):
                    bad("inverse:%s∘%s" % (g, f), "%s.%s(%s(x,λ),λ)=%r ≠ x=%r (λ=%r)" % (modname, g, f, y, x, lam),
                        f=f, g=g, x=x, lamda=lam, got=y)
        # composites
        if not rel(ac.cn2_to_seeing(cn2, lam), ac.r0_to_seeing(ac.cn2_to_r0(cn2, lam), lam)):
            bad("composite:cn2_to_seeing", "cn2_to_seeing ≠ r0_to_seeing∘cn2_to_r0 at cn2=%r λ=%r" % (cn2, lam), cn2=cn2, lamda=lam)
        if not rel(ac.seeing_to_cn2(s, lam), ac.r0_to_cn2(ac.seeing_to_r0(s, lam), lam)):
            bad("composite:seeing_to_cn2", "seeing_to_cn2 ≠ r0_to_cn2∘seeing_to_r0 at s=%r λ=%r" % (s, lam), seeing=s, lamda=lam)
        # scalings
        if not rel(ac.cn2_to_r0(cn2, c * lam), c ** 1.2 * ac.cn2_to_r0(cn2, lam)):
            bad("scale:r0~lambda^6/5", "r0 does not scale as λ^(6/5) at cn2=%r λ=%r c=%r" % (cn2, lam, c), cn2=cn2, lamda=lam, c=c)
        if not rel(ac.cn2_to_r0(c * cn2, lam), c ** -0.6 * ac.cn2_to_r0(cn2, lam)):
            bad("scale:r0~cn2^-3/5", "r0 does not scale as Cn2^(-3/5) at cn2=%r λ=%r c=%r" % (cn2, lam, c), cn2=cn2, lamda=lam, c=c)
        if not rel(ac.cn2_to_seeing(cn2, c * lam), c ** -0.2 * ac.cn2_to_seeing(cn2, lam)):
            bad("scale:seeing~lambda^-1/5", "seeing does not scale as λ^(-1/5) at cn2=%r λ=%r c=%r" % (cn2, lam, c), cn2=cn2, lamda=lam, c=c)
        # slope variance <-> r0 through the real estimator: slopes whose variance along the last axis is v
        d = logu(rng, .05, 2.)
        v = ac.slope_variance_from_r0(r0, lam, d)
        nfr = rng.choice([2, 4, 10])
        base = numpy.array([1.0, -1.0] * (nfr // 2))              # population variance exactly 1
        nsub = rng.randint(1, 4)
        slopes = numpy.sqrt(v) * numpy.broadcast_to(base, (2, nsub, nfr)).copy()
        # static mean slopes that differ between sub-apertures (defocus, reference offsets) do not change the temporal
        # variance of any sub-aperture, so they must not change the recovered r0
        offs = rng.choice(["none", "common", "per-subap"])
        chk.count("slopes-offset:" + offs)
        if offs == "common":
            slopes = slopes + 3.7 * numpy.sqrt(v)
        elif offs == "per-subap":
            slopes = slopes + numpy.sqrt(v) * numpy.array([[[rng.uniform(-5, 5)] for _ in range(nsub)] for _ in range(2)])
        got = ac.r0_from_slopes(slopes, lam, d)
        if not abs(got - r0) <= 1e-7 * r0:
            bad("inverse:r0_from_slopes∘slope_variance_from_r0", "r0_from_slopes(slopes of variance slope_variance_from_r0(r0))=%r ≠ r0=%r"
                % (got, r0), r0=r0, wavelength=lam, subapDiam=d, nframes=nfr)
        # photometry (the private module, the sub-package and the package-level names in turn)
        band, m = rng.choice(BANDS), rng.uniform(-2, 25)
        ast_ = (astmod, aotools.astronomy, aotools)[it % 3]
        chk.count("photometry-via:" + ("_astronomy", "aotools.astronomy", "aotools")[it % 3])
        fl = ast_.magnitude_to_flux(m, band)
        if not abs(ast_.flux_to_magnitude(fl, band) - m) <= 1e-9 * max(1, abs(m)):
            bad("inverse:flux_to_magnitude∘magnitude_to_flux", "band %s m=%r round trip gives %r" % (band, m, ast_.flux_to_magnitude(fl, band)),
                band=band, m=m)
        f0 = logu(rng, 1e-3, 1e12)
        if not rel(ast_.magnitude_to_flux(ast_.flux_to_magnitude(f0, band), band), f0):
            bad("inverse:magnitude_to_flux∘flux_to_magnitude", "band %s flux=%r round trip" % (band, f0), band=band, flux=f0)
        if not rel(ast_.magnitude_to_flux(m, band), 100 * ast_.magnitude_to_flux(m + 5, band)):
            bad("five-magnitudes", "5 magnitudes are not a factor 100 in band %s at m=%r" % (band, m), band=band, m=m)
        mask = numpy.array([[rng.randint(0, 1) for _ in range(4)] for _ in range(4)], dtype=float)
        mask[0, 0] = 1
        px, t = logu(rng, 1e-3, 1.), logu(rng, 1e-4, 100)
        for fn, args in (("photons_per_band", lambda mk, p, tt: ast_.photons_per_band(m, mk, p, tt, band)),
                         ("photons_per_mag", lambda mk, p, tt: ast_.photons_per_mag(m, mk, p, 100., tt))):
            b0 = args(mask, px, t)
            if not rel(args(mask, px, c * t), c * b0):
                bad("linear-time:" + fn, "%s not proportional to exposure time" % fn, m=m, band=band, px=px, t=t, c=c)
            if not rel(args(numpy.kron(mask, numpy.ones((1, 2))), px, t), 2 * b0):
                bad("linear-area:" + fn, "%s not proportional to collecting area (mask doubled)" % fn, m=m, band=band, px=px, t=t)
            if not rel(args(mask, 2 * px, t), 4 * b0):
                bad("linear-area-px:" + fn, "%s not proportional to pixel area" % fn, m=m, band=band, px=px, t=t)
        # single layer
        # the property asks for 0.314 "to the rounding of the published constants": the two dimensionless ratios iso·h/r0 and
        # tau·v/r0 must lie within ±0.002 of 0.314 (theorem cθ_approx: the code's constants give 0.31425…) and be the SAME
        # number for both functions (1e-9); no particular closed form of the constant is demanded
        h, vv = logu(rng, 10, 2e4), logu(rng, 1, 60)
        r0l = ac.cn2_to_r0(cn2, lam)
        iso = float(ac.isoplanaticAngle(numpy.array([cn2]), numpy.array([h]), lam))
        tau = float(ac.coherenceTime(numpy.array([cn2]), numpy.array([vv]), lam))
        ci, ct = iso * math.pi / (180 * 3600) * h / r0l, tau * vv / r0l
        single["iso"] = max(single["iso"], abs(ci - 0.314))
        single["tau"] = max(single["tau"], abs(ct - 0.314))
        if not abs(ci - 0.314) <= 0.002:
            bad("single-layer:isoplanatic", "isoplanaticAngle([cn2],[h])·h/r0 = %r, not 0.314±0.002, at cn2=%r h=%r λ=%r" % (ci, cn2, h, lam),
                cn2=cn2, h=h, lamda=lam)
        if not abs(ct - 0.314) <= 0.002:
            bad("single-layer:coherence", "coherenceTime([cn2],[v])·v/r0 = %r, not 0.314±0.002, at cn2=%r v=%r λ=%r" % (ct, cn2, vv, lam),
                cn2=cn2, v=vv, lamda=lam)
        if not rel(ci, ct):
            bad("single-layer:constants-differ", "isoplanaticAngle·h/r0 = %r but coherenceTime·v/r0 = %r (same published constant) at "
                "cn2=%r h=%r v=%r λ=%r" % (ci, ct, cn2, h, vv, lam), cn2=cn2, h=h, v=vv, lamda=lam)
        defaults(cn2, r0, s, m, band, h, vv, mask, px, t)
        arrays(lam)
        integer_typed(lam, cn2, band)
        audit5(it, lam, r0)
        # integration axis = loop over profiles, any rank and axis
        rank = rng.randint(1, 3)
        shape = tuple(rng.randint(1, 4) for _ in range(rank))
        axis = rng.randrange(rank)
        nprng = numpy.random.default_rng(rng.getrandbits(32))
        C = 10 ** nprng.uniform(-16, -12, shape)
        H = 10 ** nprng.uniform(1, 4, shape)
        chk.count("axis:rank%d" % rank)
        # the axis is given as a non-negative or as the equivalent negative index; the heights / wind speeds have the full shape
        # or are ONE vector shared by all profiles (broadcast along the integration axis)
        axis_arg = axis if rng.random() < 0.5 else axis - rank
        hmode = rng.choice(["full", "full", "shared"])
        chk.count("axis:" + ("negative" if axis_arg < 0 else "non-negative"))
        chk.count("axis:h-" + hmode)
        Hfull = H
        if hmode == "shared":
            vec = H[tuple(slice(None) if k == axis else 0 for k in range(rank))]
            Hfull = numpy.broadcast_to(vec.reshape([shape[k] if k == axis else 1 for k in range(rank)]), shape)
            H = vec if (axis == rank - 1 and rng.random() < 0.5) else vec.reshape([shape[k] if k == axis else 1 for k in range(rank)])
        for fn in (ac.isoplanaticAngle, ac.coherenceTime, ac.rytov_variance):
            full = numpy.asarray(fn(C, H, lam, axis=axis_arg))
            Cm, Hm = numpy.moveaxis(C, axis, -1), numpy.moveaxis(Hfull, axis, -1)
            loop = numpy.empty(Cm.shape[:-1])
            for idx in numpy.ndindex(*Cm.shape[:-1]):
                loop[idx] = fn(Cm[idx], Hm[idx], lam)
            if full.shape != loop.shape or not numpy.allclose(full, loop, rtol=RT, atol=0):
                bad("axis:" + fn.__name__, "%s with axis=%d on cn2 shape %s, h shape %s differs from looping over profiles"
                    % (fn.__name__, axis_arg, shape, H.shape), fn=fn.__name__, shape=shape, axis=axis_arg, cn2=C.tolist(), h=H.tolist(),
                    lamda=lam)
            if axis == rank - 1:
                d0 = numpy.asarray(fn(C, H, lam))
                if d0.shape != loop.shape or not numpy.allclose(d0, loop, rtol=RT, atol=0):
                    bad("axis-default:" + fn.__name__, "%s default axis is not the last axis" % fn.__name__, fn=fn.__name__, shape=shape)
    chk.notes.append("round-5 variants: worst relative difference from the float64 / contiguous reference — float32-stored arguments "
                     "%.3g (allowed %g), float64 arguments in other layouts / sizes / entry points %.3g (allowed %g)" % (worst["f32"], F32, worst["f64-variant"], RT))
    chk.notes.append("single layer: worst |iso·h/r0 − 0.314| = %.3g, |tau·v/r0 − 0.314| = %.3g (allowed 0.002; theorem cθ_approx)"
                     % (single["iso"], single["tau"]))


def run(chk):
    quick = chk.tier == "quick"
    chk.rule = ("T1 self-check: Float instantiation of the regenerated Lean definitions vs the Python functions on log-uniform "
                "positive arguments; oracle: round trips / scalings / linearity / single-layer constant / axis semantics on the real "
                "code, rel. tol 1e-9; distinct = distinct argument tuples")
    chk.assumptions = ["Real.rpow/logb/π model Python's ** / log10 / numpy.pi up to IEEE rounding",
                       "NumPy axis semantics are exercised by the oracle only (ranks 1-3, every axis as a non-negative and as a negative index, "
                       "heights / wind speeds of full shape or one vector broadcast over all profiles)",
                       "default arguments (lamda=500e-9, waveband='V') are invisible to the translated model (T1 translates bodies, "
                       "every theorem quantifies over an explicit wavelength): they are exercised by the oracle only — omitted-"
                       "wavelength round trips / composites / single-layer ratios are property clauses, f(x) == f(x, 500e-9) and "
                       "f(m) == f(m, 'V') are correspondence clauses",
                       "single-layer clause: 0.314 ± 0.002 as the property states ('to the rounding of the published constants'); "
                       "the exact closed form 0.0581·(0.423·4π²)^0.6 is a theorem about the model, not an oracle demand",
                       "array arguments of the converters are exercised by the oracle only (ranks 1-2, scalar or array wavelength)",
                       "integer-typed arguments (altitude grids in whole metres up to 25 km, wind in whole m/s up to 60, integer layer weights, "
                       "whole magnitudes / fluxes / arc-seconds / metres, integer and boolean masks; int16..int64, uint16..uint64) are outside "
                       "the model (one scalar type): the oracle demands the value of the float64 call to 1e-9 and the single-layer / axis "
                       "clauses on integer grids",
                       "r0_from_slopes: the theorem covers its scalar kernel; the variance/mean reduction is exercised by the oracle",
                       "round 5 (generator audit): memory layout (Fortran order, strided / negative-stride views with NaN in the gaps, read-only), "
                       "float32 storage (agreement with the float64 call asked to 1e-4 only: NumPy computes in single precision then; observed "
                       "1.35e-6), NumPy scalars and 0-d arrays, ranks 4-5, stacks / profiles / arrays beyond 2^8, 2^16 (thorough 2^18) elements, "
                       "zero-strength layers and a ground layer at h = 0, magnitudes far outside the everyday ranges (λ 1e-8..1 m, r0 1e-4..1e4 m, "
                       "Cn2 1e-25..1e-5, m -30..40), every band through every entry point, large / non-square / narrow-integer masks, odd and "
                       "long slope records in frame-major buffers, and re-use of the caller's arrays (second call, interleaved siblings) are "
                       "exercised by the oracle only",
                       "lists / tuples as profile or slope arguments are NOT generated (`list ** float` raises on the unchanged tree; the "
                       "docstrings ask for arrays); exposure time 0 and an all-opaque mask are not generated (the quantifier says positive)"]
    meta = t1check.regenerate(chk)
    chk.build_and_audit("AoVerif.Props.C17", "AoVerif.Props.C17", REQUIRED)
    if meta is not None:
        try:
            t1check.selfcheck(chk, meta, T1_NAMES, arggen, 6 if quick else 60, rtol=1e-11)
        except common.LeanError as ex:
            chk.broke("translator", "generated Lean does not compile / run", str(ex))
    oracle(chk, 60 if quick else 2000)
