"""C17 — atmospheric and photometric conversions are mutually inverse and scale right."""
import json
import math

import numpy

from .. import common, t1check

MANIFEST = {
    "text": "Lean 4 theorems (inverse pairs, compositions, scaling laws, 5-magnitude factor, linearity in area and exposure, "
            "single-layer constant with |c-0.314|<0.002) over the real numbers about definitions REGENERATED from the Python source on "
            "every run (translator T1), for all positive arguments and every band of the regenerated table; the translator is "
            "validated each run against the Python functions; a direct oracle on the real code supplies failing inputs.",
    "note": "Trusted: Lean kernel + propext/Classical.choice/Quot.sound; Mathlib's Real.rpow/logb/pi as the meaning of **, log10, "
            "numpy.pi; translator T1 (self-checked each run); IEEE rounding and NumPy axis semantics are not modelled (exercised by "
            "the oracle on ranks 1-3, every axis).",
    "technique": "Lean 4 proof over a model regenerated from source (translator) + differential self-check + oracle search",
}
REQUIRED = ["cn2_r0_inv", "r0_cn2_inv", "r0_seeing_inv", "seeing_r0_inv", "cn2_to_seeing_eq_comp",
            "seeing_to_cn2_eq_comp", "cn2_seeing_inv", "seeing_cn2_inv", "r0_scales_lambda", "r0_scales_cn2",
            "seeing_scales_lambda", "slopevar_r0_inv", "r0_slopevar_inv", "table_positive",
            "table_has_twelve_bands", "mag_flux_inv", "flux_mag_inv", "five_mag_factor_100",
            "photons_per_band_linear", "photons_per_mag_linear", "coherence_single_layer",
            "isoplanatic_single_layer", "cθ_approx"]
T1_NAMES = ["cn2_to_r0", "r0_to_cn2", "r0_to_seeing", "seeing_to_r0", "cn2_to_seeing", "seeing_to_cn2",
            "coherenceTime", "isoplanaticAngle", "rytov_variance", "slope_variance_from_r0",
            "r0_from_slopes_kernel", "magnitude_to_flux", "flux_to_magnitude", "photons_per_mag",
            "photons_per_band"]
BANDS = list("UBVRIJHKgriz")
RT = 1e-9


def logu(rng, lo, hi):
    return math.exp(rng.uniform(math.log(lo), math.log(hi)))


def arggen(name, rng):
    n = rng.randint(1, 6)
    pool = {
        "cn2": logu(rng, 1e-16, 1e-11), "lamda": logu(rng, 3e-7, 1e-5), "r0": logu(rng, 0.01, 2.0),
        "seeing": logu(rng, 0.1, 5.0), "wavelength": logu(rng, 3e-7, 1e-5), "subapDiam": logu(rng, 0.05, 2.0),
        "slopeVar": logu(rng, 1e-16, 1e-10), "magnitude": rng.uniform(-2, 25), "mag": rng.uniform(-2, 25),
        "flux": logu(rng, 1e-3, 1e12), "waveband": rng.choice(BANDS), "pixel_scale": logu(rng, 1e-3, 1.0),
        "pxlScale": logu(rng, 1e-3, 1.0), "wvlBand": logu(rng, 10, 500), "exposure_time": logu(rng, 1e-4, 100),
        "expTime": logu(rng, 1e-4, 100),
    }
    if name in ("coherenceTime", "isoplanaticAngle", "rytov_variance"):
        pool["cn2"] = [logu(rng, 1e-16, 1e-12) for _ in range(n)]
        pool["v"] = [logu(rng, 1, 60) for _ in range(n)]
        pool["h"] = [logu(rng, 10, 2e4) for _ in range(n)]
    if name in ("photons_per_mag", "photons_per_band"):
        pool["mask"] = [float(rng.randint(0, 1)) for _ in range(rng.randint(1, 12))]
    return pool


def oracle(chk, n):
    """the property evaluated directly on the REAL code"""
    from aotools.turbulence import atmos_conversions as ac
    from aotools.astronomy import _astronomy as astmod
    import aotools
    import aotools.astronomy
    rng = chk.rng

    def rel(a, b):
        return abs(a - b) <= RT * max(abs(a), abs(b), 1e-300)

    def bad(key, what, **replay):
        chk.fail(key, what, replay)

    single = {"iso": 0.0, "tau": 0.0}
    DEF = 500e-9          # the documented default wavelength ("lamda=500.E-9" in every signature, "default 500 nm")

    def defaults(cn2, r0, s, m, band, h, vv, mask, px, t):
        """calls with the wavelength / band OMITTED.  Inconsistent defaults inside a pair break the property (inverse pair,
        composite = composition, single layer); a default that merely differs from the documented 500 nm / 'V' while all
        functions agree is a model matter (correspondence)"""
        pairs = [("cn2_to_r0", "r0_to_cn2", cn2), ("r0_to_cn2", "cn2_to_r0", r0), ("r0_to_seeing", "seeing_to_r0", r0),
                 ("seeing_to_r0", "r0_to_seeing", s), ("cn2_to_seeing", "seeing_to_cn2", cn2), ("seeing_to_cn2", "cn2_to_seeing", s)]
        for f, g, x in pairs:
            y = getattr(ac, g)(getattr(ac, f)(x))
            if not rel(y, x):
                bad("inverse-default:%s∘%s" % (g, f), "%s(%s(x)) = %r ≠ x = %r with both wavelengths omitted" % (g, f, y, x), f=f, g=g, x=x, got=y)
            if not rel(getattr(ac, f)(x), getattr(ac, f)(x, DEF)):
                chk.broke("correspondence", "%s(x) ≠ %s(x, 500e-9): the default wavelength is no longer the documented 500 nm "
                          "(x=%r: %r vs %r)" % (f, f, x, getattr(ac, f)(x), getattr(ac, f)(x, DEF)))
        if not rel(ac.cn2_to_seeing(cn2), ac.r0_to_seeing(ac.cn2_to_r0(cn2))):
            bad("composite-default:cn2_to_seeing", "cn2_to_seeing(x) ≠ r0_to_seeing(cn2_to_r0(x)) with the wavelengths omitted, x=%r" % cn2, cn2=cn2)
        if not rel(ac.seeing_to_cn2(s), ac.r0_to_cn2(ac.seeing_to_r0(s))):
            bad("composite-default:seeing_to_cn2", "seeing_to_cn2(x) ≠ r0_to_cn2(seeing_to_r0(x)) with the wavelengths omitted, x=%r" % s, seeing=s)
        # single layer with every wavelength omitted
        c1, h1, v1 = numpy.array([cn2]), numpy.array([h]), numpy.array([vv])
        r0d = ac.cn2_to_r0(cn2)
        ci = float(ac.isoplanaticAngle(c1, h1)) * math.pi / (180 * 3600) * h / r0d
        ct = float(ac.coherenceTime(c1, v1)) * vv / r0d
        if not abs(ci - 0.314) <= 0.002:
            bad("single-layer-default:isoplanatic", "isoplanaticAngle([cn2],[h])·h/cn2_to_r0(cn2) = %r, not 0.314±0.002, with the wavelengths "
                "omitted (cn2=%r h=%r)" % (ci, cn2, h), cn2=cn2, h=h)
        if not abs(ct - 0.314) <= 0.002:
            bad("single-layer-default:coherence", "coherenceTime([cn2],[v])·v/cn2_to_r0(cn2) = %r, not 0.314±0.002, with the wavelengths "
                "omitted (cn2=%r v=%r)" % (ct, cn2, vv), cn2=cn2, v=vv)
        for fn, x2 in ((ac.isoplanaticAngle, h1), (ac.coherenceTime, v1), (ac.rytov_variance, h1)):
            if not rel(float(fn(c1, x2)), float(fn(c1, x2, DEF))):
                chk.broke("correspondence", "%s(cn2, x) ≠ %s(cn2, x, 500e-9): the default wavelength is no longer the documented 500 nm"
                          % (fn.__name__, fn.__name__))
        # photometric default band
        back = astmod.flux_to_magnitude(astmod.magnitude_to_flux(m))
        if not abs(back - m) <= 1e-9 * max(1, abs(m)):
            bad("inverse-default:flux_to_magnitude∘magnitude_to_flux", "flux_to_magnitude(magnitude_to_flux(m)) = %r ≠ m = %r with the band "
                "omitted" % (back, m), m=m)
        for fn, a0, a1 in (("magnitude_to_flux", astmod.magnitude_to_flux(m), astmod.magnitude_to_flux(m, "V")),
                           ("flux_to_magnitude", astmod.flux_to_magnitude(1e6), astmod.flux_to_magnitude(1e6, "V")),
                           ("photons_per_band", astmod.photons_per_band(m, mask, px, t), astmod.photons_per_band(m, mask, px, t, "V"))):
            if not rel(a0, a1):
                chk.broke("correspondence", "%s without a band ≠ %s(…, 'V'): the default band is no longer the documented 'V'" % (fn, fn))

    def arrays(lam):
        """the converters on NumPy arrays (any shape; wavelength a scalar or an array of the same shape): inverse pairs hold
        element-wise"""
        nprng = numpy.random.default_rng(rng.getrandbits(32))
        shape = tuple(rng.randint(1, 4) for _ in range(rng.randint(1, 2)))
        L = lam if rng.random() < 0.5 else 10 ** nprng.uniform(-6.5, -5, shape)
        chk.count("array-args:rank%d:%s" % (len(shape), "scalar-λ" if numpy.ndim(L) == 0 else "array-λ"))
        X = {"cn2": 10 ** nprng.uniform(-16, -11, shape), "r0": 10 ** nprng.uniform(-2, 0.3, shape), "seeing": 10 ** nprng.uniform(-1, 0.7, shape)}
        pairs = [("cn2_to_r0", "r0_to_cn2", "cn2"), ("r0_to_cn2", "cn2_to_r0", "r0"), ("r0_to_seeing", "seeing_to_r0", "r0"),
                 ("seeing_to_r0", "r0_to_seeing", "seeing"), ("cn2_to_seeing", "seeing_to_cn2", "cn2"), ("seeing_to_cn2", "cn2_to_seeing", "seeing")]
        for f, g, k in pairs:
            x = X[k]
            try:
                y = numpy.asarray(getattr(ac, g)(getattr(ac, f)(x, L), L))
            except Exception as ex:     # noqa: BLE001
                bad("inverse:array:%s∘%s" % (g, f), "%s(%s(array)) raised %s: %s" % (g, f, type(ex).__name__, ex), f=f, g=g, x=x.tolist())
                continue
            if y.shape != x.shape or not numpy.allclose(y, x, rtol=RT, atol=0):
                bad("inverse:array:%s∘%s" % (g, f), "%s(%s(X,λ),λ) ≠ X element-wise for an array X of shape %s" % (g, f, shape),
                    f=f, g=g, x=x.tolist(), lamda=numpy.asarray(L).tolist())
            # … and agree with the scalar calls
            one = numpy.array([getattr(ac, f)(float(xx), float(ll)) for xx, ll in zip(x.ravel(), numpy.broadcast_to(L, shape).ravel())])
            if not numpy.allclose(numpy.asarray(getattr(ac, f)(x, L)).ravel(), one, rtol=RT, atol=0):
                bad("array:" + f, "%s(array) differs from the scalar calls for shape %s" % (f, shape), f=f, x=x.tolist(),
                    lamda=numpy.asarray(L).tolist())
        mm = nprng.uniform(-2, 25, shape)
        b = rng.choice(BANDS)
        fl = numpy.asarray(astmod.magnitude_to_flux(mm, b))
        if fl.shape != mm.shape or not numpy.allclose(fl * 100 ** (mm / 5), astmod.magnitude_to_flux(0.0, b), rtol=RT, atol=0):
            bad("array:magnitude_to_flux", "magnitude_to_flux(array, %r) is not flux(0)·100^(-m/5) element-wise" % b, m=mm.tolist(), band=b)

    INT_DTYPES = ["int64", "int32", "int16", "uint16", "uint32", "uint64"]

    def same(a, b):
        a, b = numpy.asarray(a, dtype=float), numpy.asarray(b, dtype=float)
        return a.shape == b.shape and bool(numpy.all(numpy.isfinite(a))) and numpy.allclose(a, b, rtol=RT, atol=0)

    def integer_typed(lam, cn2, band):
        """INTEGER-typed arguments: altitude grids in whole metres (numpy.arange(0, 25000, 250), a column read with dtype=int),
        wind speeds in whole m/s, relative layer weights as counts, whole magnitudes / arc-seconds / metres, 0/1 masks.  The type
        an argument is stored in is not part of its value: every function must return what it returns for the same values as
        float64 (to rounding), and the single-layer and axis clauses hold on integer grids.  Heights reach 25 km, wind 60 m/s."""
        nprng = numpy.random.default_rng(rng.getrandbits(32))
        # ---- profile integrals: integer h / v (any integer dtype that holds the values), float cn2
        if rng.random() < 0.4:
            step = rng.choice([100, 250, 500, 1000, 2500])
            Hf = numpy.arange(rng.choice([0, 0, step, rng.randint(1, 500)]), 25000, step)[:rng.choice([4, 10, 40, 250])]
            gk = "grid"
        else:
            Hf = numpy.sort(nprng.integers(0, 25001, rng.randint(1, 8)))
            gk = "irregular"
        if not Hf.any():
            Hf[-1] = rng.randint(1, 25000)              # a profile wholly at h = 0 has no isoplanatic angle (outside the domain)
        n = len(Hf)
        Vf = nprng.integers(1, 61, n)
        C = 10 ** nprng.uniform(-16, -12, n)
        chk.count("int-dtype:heights-" + gk)
        dts = ["int64", "int32", rng.choice(INT_DTYPES[2:])]
        for fn, X, arg in ((ac.isoplanaticAngle, Hf, "h"), (ac.coherenceTime, Vf, "v"), (ac.rytov_variance, Hf, "h")):
            ref = fn(C, X.astype(float), lam)
            for dt in dts:
                chk.count("int-dtype:" + dt)
                try:
                    with numpy.errstate(all="ignore"):
                        got = fn(C, X.astype(dt), lam)
                except Exception as ex:     # noqa: BLE001
                    got = "raised %s: %s" % (type(ex).__name__, ex)
                if isinstance(got, str) or not same(got, ref):
                    bad("int-dtype:%s:%s" % (fn.__name__, arg), "%s(cn2, %s) with %s stored as %s = %r, but %r for the same values as float64 "
                        "(%d layers up to %d)" % (fn.__name__, arg, arg, dt, got if isinstance(got, str) else float(got), float(ref), n, int(X.max())),
                        fn=fn.__name__, cn2=C.tolist(), **{arg: X.tolist()}, dtype=dt, lamda=lam)
                    break
            # relative layer weights as whole numbers (counts): cn2 integer-typed as well
            W = nprng.integers(1, 1000, n)
            dt = rng.choice(dts)
            refw = fn(W.astype(float), X.astype(float), lam)
            try:
                with numpy.errstate(all="ignore"):
                    gotw = fn(W.astype(dt), X.astype(dt), lam)
            except Exception as ex:     # noqa: BLE001
                gotw = "raised %s: %s" % (type(ex).__name__, ex)
            if isinstance(gotw, str) or not same(gotw, refw):
                bad("int-dtype:%s:cn2" % fn.__name__, "%s(weights, %s) with integer-typed (%s) weights and %s = %r, but %r for the same "
                    "values as float64" % (fn.__name__, arg, dt, arg, gotw if isinstance(gotw, str) else float(gotw), float(refw)),
                    fn=fn.__name__, cn2=W.tolist(), **{arg: X.tolist()}, dtype=dt, lamda=lam)
        # ---- single layer on an integer grid
        hi, vi = rng.randint(1, 25000), rng.randint(1, 60)
        dt = rng.choice(dts)
        r0l = ac.cn2_to_r0(cn2, lam)
        with numpy.errstate(all="ignore"):
            ci = float(ac.isoplanaticAngle(numpy.array([cn2]), numpy.array([hi], dtype=dt), lam)) * math.pi / (180 * 3600) * hi / r0l
            ct = float(ac.coherenceTime(numpy.array([cn2]), numpy.array([vi], dtype=dt), lam)) * vi / r0l
        if not abs(ci - 0.314) <= 0.002:
            bad("single-layer:isoplanatic:int-dtype", "isoplanaticAngle([cn2],[h])·h/r0 = %r, not 0.314±0.002, for h = %d stored as %s "
                "(cn2=%r λ=%r)" % (ci, hi, dt, cn2, lam), cn2=cn2, h=hi, dtype=dt, lamda=lam)
        if not abs(ct - 0.314) <= 0.002:
            bad("single-layer:coherence:int-dtype", "coherenceTime([cn2],[v])·v/r0 = %r, not 0.314±0.002, for v = %d stored as %s "
                "(cn2=%r λ=%r)" % (ct, vi, dt, cn2, lam), cn2=cn2, v=vi, dtype=dt, lamda=lam)
        # ---- stacked profiles on ONE integer grid (shared, or repeated to the full shape) = loop over profiles on the float grid
        lead = tuple(rng.randint(1, 3) for _ in range(rng.randint(1, 2)))
        Cs = 10 ** nprng.uniform(-16, -12, lead + (n,))
        dt = rng.choice(dts)
        for fn, X in ((ac.isoplanaticAngle, Hf), (ac.coherenceTime, Vf), (ac.rytov_variance, Hf)):
            Xi = X.astype(dt)
            Xarg = Xi if rng.random() < 0.5 else numpy.broadcast_to(Xi, Cs.shape).copy()
            loop = numpy.empty(lead)
            for idx in numpy.ndindex(*lead):
                loop[idx] = fn(Cs[idx], X.astype(float), lam)
            with numpy.errstate(all="ignore"):
                full = numpy.asarray(fn(Cs, Xarg, lam))
                first = numpy.asarray(fn(numpy.moveaxis(Cs, -1, 0), Xi.reshape((n,) + (1,) * len(lead)), lam, axis=0))
            if not same(full, loop):
                bad("axis:%s:int-dtype" % fn.__name__, "%s on stacked profiles %s with the %s grid of shape %s differs from looping over the "
                    "profiles with the same grid as float64" % (fn.__name__, Cs.shape, dt, Xarg.shape), fn=fn.__name__, cn2=Cs.tolist(),
                    x=X.tolist(), dtype=dt, lamda=lam)
            elif not same(first, loop):
                bad("axis:%s:int-dtype" % fn.__name__, "%s with axis=0 (layers first) on the %s grid differs from looping over the profiles "
                    "with the same grid as float64" % (fn.__name__, dt), fn=fn.__name__, cn2=Cs.tolist(), x=X.tolist(), dtype=dt, lamda=lam, axis=0)
        # ---- the converters on whole numbers (Python int, NumPy integer scalar, integer array): value = value at the float
        k = rng.randint(1, 9)
        arr = nprng.integers(1, 10, rng.randint(1, 4)).astype(rng.choice(["int64", "int32"]))
        for f, g in (("cn2_to_r0", "r0_to_cn2"), ("r0_to_cn2", "cn2_to_r0"), ("r0_to_seeing", "seeing_to_r0"),
                     ("seeing_to_r0", "r0_to_seeing"), ("cn2_to_seeing", "seeing_to_cn2"), ("seeing_to_cn2", "cn2_to_seeing")):
            for x, xf, tag in ((k, float(k), "int"), (numpy.int64(k), float(k), "numpy.int64"), (arr, arr.astype(float), "integer array")):
                try:
                    with numpy.errstate(all="ignore"):
                        y, yf = getattr(ac, f)(x, lam), getattr(ac, f)(xf, lam)
                        back = getattr(ac, g)(y, lam)
                except Exception as ex:     # noqa: BLE001
                    bad("int-dtype:" + f, "%s(%r) (%s) raised %s: %s" % (f, x, tag, type(ex).__name__, ex), f=f, x=numpy.asarray(x).tolist(), lamda=lam)
                    continue
                if not same(y, yf):
                    bad("int-dtype:" + f, "%s(%r) (%s) = %r but %r at the same value as a float (λ=%r)" % (f, x, tag, y, yf, lam),
                        f=f, x=numpy.asarray(x).tolist(), lamda=lam)
                elif not same(back, xf):
                    bad("inverse:int:%s∘%s" % (g, f), "%s(%s(x,λ),λ) = %r ≠ x = %r (%s)" % (g, f, back, x, tag), f=f, g=g,
                        x=numpy.asarray(x).tolist(), lamda=lam)
        d = rng.randint(1, 3)
        if not same(ac.slope_variance_from_r0(k, lam, d), ac.slope_variance_from_r0(float(k), lam, float(d))):
            bad("int-dtype:slope_variance_from_r0", "slope_variance_from_r0(%d, λ, %d) differs from the call with floats" % (k, d), r0=k, lamda=lam, d=d)
        # ---- photometry on whole magnitudes / fluxes / 0-1 integer and boolean masks / whole seconds
        mi, fi, ti = rng.randint(-2, 25), rng.randint(1, 10 ** 9), rng.randint(1, 100)
        marr = nprng.integers(-2, 26, 3)
        maski = nprng.integers(0, 2, (4, 4))
        maski[0, 0] = 1
        px = logu(rng, 1e-3, 1.)
        with numpy.errstate(all="ignore"):
            tests = [("magnitude_to_flux", astmod.magnitude_to_flux(mi, band), astmod.magnitude_to_flux(float(mi), band)),
                     ("magnitude_to_flux", astmod.magnitude_to_flux(marr, band), astmod.magnitude_to_flux(marr.astype(float), band)),
                     ("flux_to_magnitude", astmod.flux_to_magnitude(fi, band), astmod.flux_to_magnitude(float(fi), band)),
                     ("photons_per_band", astmod.photons_per_band(mi, maski, px, ti, band),
                      astmod.photons_per_band(float(mi), maski.astype(float), px, float(ti), band)),
                     ("photons_per_band", astmod.photons_per_band(mi, maski.astype(bool), px, ti, band),
                      astmod.photons_per_band(float(mi), maski.astype(float), px, float(ti), band)),
                     ("photons_per_mag", astmod.photons_per_mag(mi, maski, px, 100, ti),
                      astmod.photons_per_mag(float(mi), maski.astype(float), px, 100., float(ti)))]
        for fn, a, b in tests:
            if not same(a, b):
                bad("int-dtype:" + fn, "%s on whole-number arguments (m=%d, flux=%d, t=%d, integer / boolean mask, band %s) = %r but %r "
                    "for the same values as floats" % (fn, mi, fi, ti, band, a, b), m=mi, flux=fi, t=ti, band=band, px=px, mask=maski.tolist())
        if not abs(astmod.flux_to_magnitude(astmod.magnitude_to_flux(mi, band), band) - mi) <= 1e-9 * max(1, abs(mi)):
            bad("inverse:int:flux_to_magnitude∘magnitude_to_flux", "band %s, whole magnitude %d: round trip gives %r"
                % (band, mi, astmod.flux_to_magnitude(astmod.magnitude_to_flux(mi, band), band)), band=band, m=mi)

    for it in range(n):
        chk.oracle_cases += 1
        cn2, lam, r0, s = logu(rng, 1e-16, 1e-11), logu(rng, 3e-7, 1e-5), logu(rng, .01, 2.), logu(rng, .1, 5.)
        c = logu(rng, 0.2, 5.0)
        chk.case(("oracle", it), sample={"cn2": cn2, "lamda": lam, "r0": r0, "seeing": s, "c": c} if it < 2 else None)
        # inverse pairs (module functions and the package-level exports)
        for modname, mod in (("atmos_conversions", ac), ("aotools", aotools)):
            pairs = [("cn2_to_r0", "r0_to_cn2", cn2), ("r0_to_cn2", "cn2_to_r0", r0), ("r0_to_seeing", "seeing_to_r0", r0),
                     ("seeing_to_r0", "r0_to_seeing", s), ("cn2_to_seeing", "seeing_to_cn2", cn2),
                     ("seeing_to_cn2", "cn2_to_seeing", s)]
            for f, g, x in pairs:
                y = getattr(mod, g)(getattr(mod, f)(x, lam), lam)
                if not rel(y, x):
                    bad("inverse:%s∘%s" % (g, f), "%s.%s(%s(x,λ),λ)=%r ≠ x=%r (λ=%r)" % (modname, g, f, y, x, lam),
                        f=f, g=g, x=x, lamda=lam, got=y)
        # composites
        if not rel(ac.cn2_to_seeing(cn2, lam), ac.r0_to_seeing(ac.cn2_to_r0(cn2, lam), lam)):
            bad("composite:cn2_to_seeing", "cn2_to_seeing ≠ r0_to_seeing∘cn2_to_r0 at cn2=%r λ=%r" % (cn2, lam), cn2=cn2, lamda=lam)
        if not rel(ac.seeing_to_cn2(s, lam), ac.r0_to_cn2(ac.seeing_to_r0(s, lam), lam)):
            bad("composite:seeing_to_cn2", "seeing_to_cn2 ≠ r0_to_cn2∘seeing_to_r0 at s=%r λ=%r" % (s, lam), seeing=s, lamda=lam)
        # scalings
        if not rel(ac.cn2_to_r0(cn2, c * lam), c ** 1.2 * ac.cn2_to_r0(cn2, lam)):
            bad("scale:r0~lambda^6/5", "r0 does not scale as λ^(6/5) at cn2=%r λ=%r c=%r" % (cn2, lam, c), cn2=cn2, lamda=lam, c=c)
        if not rel(ac.cn2_to_r0(c * cn2, lam), c ** -0.6 * ac.cn2_to_r0(cn2, lam)):
            bad("scale:r0~cn2^-3/5", "r0 does not scale as Cn2^(-3/5) at cn2=%r λ=%r c=%r" % (cn2, lam, c), cn2=cn2, lamda=lam, c=c)
        if not rel(ac.cn2_to_seeing(cn2, c * lam), c ** -0.2 * ac.cn2_to_seeing(cn2, lam)):
            bad("scale:seeing~lambda^-1/5", "seeing does not scale as λ^(-1/5) at cn2=%r λ=%r c=%r" % (cn2, lam, c), cn2=cn2, lamda=lam, c=c)
        # slope variance <-> r0 through the real estimator: slopes whose variance along the last axis is v
        d = logu(rng, .05, 2.)
        v = ac.slope_variance_from_r0(r0, lam, d)
        nfr = rng.choice([2, 4, 10])
        base = numpy.array([1.0, -1.0] * (nfr // 2))              # population variance exactly 1
        nsub = rng.randint(1, 4)
        slopes = numpy.sqrt(v) * numpy.broadcast_to(base, (2, nsub, nfr)).copy()
        # static mean slopes that differ between sub-apertures (defocus, reference offsets) do not change the temporal
        # variance of any sub-aperture, so they must not change the recovered r0
        offs = rng.choice(["none", "common", "per-subap"])
        chk.count("slopes-offset:" + offs)
        if offs == "common":
            slopes = slopes + 3.7 * numpy.sqrt(v)
        elif offs == "per-subap":
            slopes = slopes + numpy.sqrt(v) * numpy.array([[[rng.uniform(-5, 5)] for _ in range(nsub)] for _ in range(2)])
        got = ac.r0_from_slopes(slopes, lam, d)
        if not abs(got - r0) <= 1e-7 * r0:
            bad("inverse:r0_from_slopes∘slope_variance_from_r0", "r0_from_slopes(slopes of variance slope_variance_from_r0(r0))=%r ≠ r0=%r"
                % (got, r0), r0=r0, wavelength=lam, subapDiam=d, nframes=nfr)
        # photometry (the private module, the sub-package and the package-level names in turn)
        band, m = rng.choice(BANDS), rng.uniform(-2, 25)
        ast_ = (astmod, aotools.astronomy, aotools)[it % 3]
        chk.count("photometry-via:" + ("_astronomy", "aotools.astronomy", "aotools")[it % 3])
        fl = ast_.magnitude_to_flux(m, band)
        if not abs(ast_.flux_to_magnitude(fl, band) - m) <= 1e-9 * max(1, abs(m)):
            bad("inverse:flux_to_magnitude∘magnitude_to_flux", "band %s m=%r round trip gives %r" % (band, m, ast_.flux_to_magnitude(fl, band)),
                band=band, m=m)
        f0 = logu(rng, 1e-3, 1e12)
        if not rel(ast_.magnitude_to_flux(ast_.flux_to_magnitude(f0, band), band), f0):
            bad("inverse:magnitude_to_flux∘flux_to_magnitude", "band %s flux=%r round trip" % (band, f0), band=band, flux=f0)
        if not rel(ast_.magnitude_to_flux(m, band), 100 * ast_.magnitude_to_flux(m + 5, band)):
            bad("five-magnitudes", "5 magnitudes are not a factor 100 in band %s at m=%r" % (band, m), band=band, m=m)
        mask = numpy.array([[rng.randint(0, 1) for _ in range(4)] for _ in range(4)], dtype=float)
        mask[0, 0] = 1
        px, t = logu(rng, 1e-3, 1.), logu(rng, 1e-4, 100)
        for fn, args in (("photons_per_band", lambda mk, p, tt: ast_.photons_per_band(m, mk, p, tt, band)),
                         ("photons_per_mag", lambda mk, p, tt: ast_.photons_per_mag(m, mk, p, 100., tt))):
            b0 = args(mask, px, t)
            if not rel(args(mask, px, c * t), c * b0):
                bad("linear-time:" + fn, "%s not proportional to exposure time" % fn, m=m, band=band, px=px, t=t, c=c)
            if not rel(args(numpy.kron(mask, numpy.ones((1, 2))), px, t), 2 * b0):
                bad("linear-area:" + fn, "%s not proportional to collecting area (mask doubled)" % fn, m=m, band=band, px=px, t=t)
            if not rel(args(mask, 2 * px, t), 4 * b0):
                bad("linear-area-px:" + fn, "%s not proportional to pixel area" % fn, m=m, band=band, px=px, t=t)
        # single layer
        # the property asks for 0.314 "to the rounding of the published constants": the two dimensionless ratios iso·h/r0 and
        # tau·v/r0 must lie within ±0.002 of 0.314 (theorem cθ_approx: the code's constants give 0.31425…) and be the SAME
        # number for both functions (1e-9); no particular closed form of the constant is demanded
        h, vv = logu(rng, 10, 2e4), logu(rng, 1, 60)
        r0l = ac.cn2_to_r0(cn2, lam)
        iso = float(ac.isoplanaticAngle(numpy.array([cn2]), numpy.array([h]), lam))
        tau = float(ac.coherenceTime(numpy.array([cn2]), numpy.array([vv]), lam))
        ci, ct = iso * math.pi / (180 * 3600) * h / r0l, tau * vv / r0l
        single["iso"] = max(single["iso"], abs(ci - 0.314))
        single["tau"] = max(single["tau"], abs(ct - 0.314))
        if not abs(ci - 0.314) <= 0.002:
            bad("single-layer:isoplanatic", "isoplanaticAngle([cn2],[h])·h/r0 = %r, not 0.314±0.002, at cn2=%r h=%r λ=%r" % (ci, cn2, h, lam),
                cn2=cn2, h=h, lamda=lam)
        if not abs(ct - 0.314) <= 0.002:
            bad("single-layer:coherence", "coherenceTime([cn2],[v])·v/r0 = %r, not 0.314±0.002, at cn2=%r v=%r λ=%r" % (ct, cn2, vv, lam),
                cn2=cn2, v=vv, lamda=lam)
        if not rel(ci, ct):
            bad("single-layer:constants-differ", "isoplanaticAngle·h/r0 = %r but coherenceTime·v/r0 = %r (same published constant) at "
                "cn2=%r h=%r v=%r λ=%r" % (ci, ct, cn2, h, vv, lam), cn2=cn2, h=h, v=vv, lamda=lam)
        defaults(cn2, r0, s, m, band, h, vv, mask, px, t)
        arrays(lam)
        integer_typed(lam, cn2, band)
        # integration axis = loop over profiles, any rank and axis
        rank = rng.randint(1, 3)
        shape = tuple(rng.randint(1, 4) for _ in range(rank))
        axis = rng.randrange(rank)
        nprng = numpy.random.default_rng(rng.getrandbits(32))
        C = 10 ** nprng.uniform(-16, -12, shape)
        H = 10 ** nprng.uniform(1, 4, shape)
        chk.count("axis:rank%d" % rank)
        # the axis is given as a non-negative or as the equivalent negative index; the heights / wind speeds have the full shape
        # or are ONE vector shared by all profiles (broadcast along the integration axis)
        axis_arg = axis if rng.random() < 0.5 else axis - rank
        hmode = rng.choice(["full", "full", "shared"])
        chk.count("axis:" + ("negative" if axis_arg < 0 else "non-negative"))
        chk.count("axis:h-" + hmode)
        Hfull = H
        if hmode == "shared":
            vec = H[tuple(slice(None) if k == axis else 0 for k in range(rank))]
            Hfull = numpy.broadcast_to(vec.reshape([shape[k] if k == axis else 1 for k in range(rank)]), shape)
            H = vec if (axis == rank - 1 and rng.random() < 0.5) else vec.reshape([shape[k] if k == axis else 1 for k in range(rank)])
        for fn in (ac.isoplanaticAngle, ac.coherenceTime, ac.rytov_variance):
            full = numpy.asarray(fn(C, H, lam, axis=axis_arg))
            Cm, Hm = numpy.moveaxis(C, axis, -1), numpy.moveaxis(Hfull, axis, -1)
            loop = numpy.empty(Cm.shape[:-1])
            for idx in numpy.ndindex(*Cm.shape[:-1]):
                loop[idx] = fn(Cm[idx], Hm[idx], lam)
            if full.shape != loop.shape or not numpy.allclose(full, loop, rtol=RT, atol=0):
                bad("axis:" + fn.__name__, "%s with axis=%d on cn2 shape %s, h shape %s differs from looping over profiles"
                    % (fn.__name__, axis_arg, shape, H.shape), fn=fn.__name__, shape=shape, axis=axis_arg, cn2=C.tolist(), h=H.tolist(),
                    lamda=lam)
            if axis == rank - 1:
                d0 = numpy.asarray(fn(C, H, lam))
                if d0.shape != loop.shape or not numpy.allclose(d0, loop, rtol=RT, atol=0):
                    bad("axis-default:" + fn.__name__, "%s default axis is not the last axis" % fn.__name__, fn=fn.__name__, shape=shape)
    chk.notes.append("single layer: worst |iso·h/r0 − 0.314| = %.3g, |tau·v/r0 − 0.314| = %.3g (allowed 0.002; theorem cθ_approx)"
                     % (single["iso"], single["tau"]))


def run(chk):
    quick = chk.tier == "quick"
    chk.rule = ("T1 self-check: Float instantiation of the regenerated Lean definitions vs the Python functions on log-uniform "
                "positive arguments; oracle: round trips / scalings / linearity / single-layer constant / axis semantics on the real "
                "code, rel. tol 1e-9; distinct = distinct argument tuples")
    chk.assumptions = ["Real.rpow/logb/π model Python's ** / log10 / numpy.pi up to IEEE rounding",
                       "NumPy axis semantics are exercised by the oracle only (ranks 1-3, every axis as a non-negative and as a negative index, "
                       "heights / wind speeds of full shape or one vector broadcast over all profiles)",
                       "default arguments (lamda=500e-9, waveband='V') are invisible to the translated model (T1 translates bodies, "
                       "every theorem quantifies over an explicit wavelength): they are exercised by the oracle only — omitted-"
                       "wavelength round trips / composites / single-layer ratios are property clauses, f(x) == f(x, 500e-9) and "
                       "f(m) == f(m, 'V') are correspondence clauses",
                       "single-layer clause: 0.314 ± 0.002 as the property states ('to the rounding of the published constants'); "
                       "the exact closed form 0.0581·(0.423·4π²)^0.6 is a theorem about the model, not an oracle demand",
                       "array arguments of the converters are exercised by the oracle only (ranks 1-2, scalar or array wavelength)",
                       "integer-typed arguments (altitude grids in whole metres up to 25 km, wind in whole m/s up to 60, integer layer weights, "
                       "whole magnitudes / fluxes / arc-seconds / metres, integer and boolean masks; int16..int64, uint16..uint64) are outside "
                       "the model (one scalar type): the oracle demands the value of the float64 call to 1e-9 and the single-layer / axis "
                       "clauses on integer grids",
                       "r0_from_slopes: the theorem covers its scalar kernel; the variance/mean reduction is exercised by the oracle"]
    meta = t1check.regenerate(chk)
    chk.build_and_audit("AoVerif.Props.C17", "AoVerif.Props.C17", REQUIRED)
    if meta is not None:
        try:
            t1check.selfcheck(chk, meta, T1_NAMES, arggen, 6 if quick else 60, rtol=1e-11)
        except common.LeanError as ex:
            chk.broke("translator", "generated Lean does not compile / run", str(ex))
    oracle(chk, 60 if quick else 2000)
