"""C09 — scaled Fourier transforms are exact inverse pairs obeying Parseval."""
import numpy

from .. import common

MANIFEST = {
    "text": "Lean 4 theorems for EVERY length n>=1 (odd and even) over any field with a primitive n-th root of unity (C with "
            "e^{-2 pi i/n} is an instance): ft is the centred DFT with origin at sample n/2, ift(ft x)=x and ft(ift X)=X when "
            "delta_f=1/(n delta), linearity, shift theorem, bilinear Plancherel and Parseval over C, ift2(ft2 x)=x, ft2(ift2 X)=X, "
            "2-D Parseval; real-input variants for even n: irft(rft x)=x, rft(irft H)=H, irft2(rft2 x)=x, rft2(irft2 H)=H, Parseval on "
            "the n/2+1 (resp. n x (n/2+1)) bins with weight 1 at the explicit positions of DC and Nyquist after the shift. The model "
            "(Model/Fourier.lean) is hand-written and tied to aotools.fouriertransform and to the package-level names by running the "
            "same Lean definitions at binary64 against the real functions on all lengths 1..33, batch shapes, real/complex data; "
            "oracles evaluate inverse pair / Parseval / linearity / shift / centred-origin / real-variant clauses on the real code.",
    "note": "Trusted: Lean kernel + standard axioms; numpy.fft.fft/ifft/fft2 = the naive DFT sums and fft2 = nested 1-D transforms "
            "(checked numerically each run to 1e-9); rfft/irfft = bins 0..n/2 of the DFT / inverse DFT of the Hermitian completion "
            "(the model keeps the imaginary parts of the DC and Nyquist bins that numpy's C2R drops: equal on half-spectra with real "
            "DC/Nyquist, the domain of irft, where the model's output is proved real); binary64 rounding not modelled. Real-input "
            "variants are proved for even n (1-D and n x n); odd n is an open finding (API cannot know the length).",
    "technique": "Lean 4 proof (roots of unity, induction-free algebra over Finset sums) + differential correspondence with the real code",
}
REQUIRED = ["ft_centred", "ift_ft", "ft_ift", "ft_linear", "ift_linear", "shift_theorem", "plancherel", "ift2_ft2",
            "parseval", "fft_root_primitive", "irft_rft",
            # round 2: the real-input variants and the remaining 2-D clauses
            "rft_dc", "rft_nyquist", "parseval_half", "irft2_rft2", "parseval_half2", "ft2_ift2", "parseval2",
            "irft_real", "rft_irft", "rft2_irft2"]


def dc_pos(n):
    """position of the DC bin in rft's output (Props.C09.dcPos)"""
    return (n // 2 + 1) // 2


def nyq_pos(n):
    """position of the Nyquist bin in rft's output for even n (Props.C09.nyqPos)"""
    return (n // 2 + 1) // 2 - 1


def half_weights(n):
    """Props.C09.halfWeight: 1 at the two self-conjugate bins, 2 elsewhere"""
    w = numpy.full(n // 2 + 1, 2.0)
    w[dc_pos(n)] = 1.0
    w[nyq_pos(n)] = 1.0
    return w
TOL = 1e-9


def cplx_line(op, n, d, arr):
    flat = numpy.asarray(arr, dtype=complex).ravel()
    return "C09 %s %d %s %s" % (op, n, common.f2h(d), " ".join(common.f2h(v) for z in flat for v in (z.real, z.imag)))


def parse_c(ans, shape):
    return numpy.array([common.h2f(h) for h in ans.split()]).view(complex).reshape(shape)


def rand_field(nprng, shape, kind):
    if kind == "real":
        return nprng.integers(-8, 9, size=shape).astype(float)
    if kind == "dyadic":
        return (nprng.integers(-64, 65, size=shape) + 1j * nprng.integers(-64, 65, size=shape)) / 8.0
    return nprng.normal(size=shape) + 1j * nprng.normal(size=shape)


def correspondence(chk, F, pkg, quick):
    nprng = numpy.random.default_rng(chk.rng.getrandbits(32))
    lines, expect, desc = [], [], []
    ns1 = list(range(1, 34)) + ([] if quick else [47, 64, 65, 100, 128, 129])
    ns2 = [1, 2, 3, 4, 5, 6, 7, 8, 9, 12] + ([] if quick else [10, 11, 13, 15, 16, 17, 20, 21])
    for n in ns1:
        for op, fn, pk in (("ft", F.ft, pkg.ft), ("ift", F.ift, pkg.ift)):
            kind = chk.rng.choice(["real", "dyadic", "gauss"])
            batch = chk.rng.choice([(), (), (3,), (2, 3)])
            d = chk.rng.choice([1.0, 0.5, 0.125, 2.0, 0.3])
            x = rand_field(nprng, batch + (n,), kind)
            impl = fn(x, d)
            impl_pkg = pk(x, d)
            chk.count("corr:%s:%s:batch%d" % (op, "odd" if n % 2 else "even", len(batch)))
            for idx in numpy.ndindex(*batch):
                lines.append(cplx_line(op, n, d, x[idx]))
                expect.append((impl[idx], impl_pkg[idx], numpy.abs(x[idx]).max() * (n if op == "ft" else 1) * max(d, 1) + 1e-300))
                desc.append((op, n, d, kind, batch))
    for n in ns2:
        for op, fn, pk in (("ft2", F.ft2, pkg.ft2), ("ift2", F.ift2, pkg.ift2)):
            kind = chk.rng.choice(["real", "dyadic", "gauss"])
            batch = chk.rng.choice([(), (), (2,)])
            d = chk.rng.choice([1.0, 0.5, 0.25, 2.0])
            x = rand_field(nprng, batch + (n, n), kind)
            impl, impl_pkg = fn(x, d), pk(x, d)
            chk.count("corr:%s:%s:batch%d" % (op, "odd" if n % 2 else "even", len(batch)))
            for idx in numpy.ndindex(*batch):
                lines.append(cplx_line(op, n, d, x[idx]))
                expect.append((impl[idx], impl_pkg[idx], numpy.abs(x[idx]).max() * (n * n if op == "ft2" else 1) * max(d * d, 1) + 1e-300))
                desc.append((op, n, d, kind, batch))
    # real-input variants, even lengths (the model mirrors the code's shifts of the half-spectrum)
    for n in [2, 4, 6, 8, 10, 16, 32]:
        x = rand_field(nprng, (n,), "real")
        d = chk.rng.choice([1.0, 0.5, 0.25])
        lines.append(cplx_line("rft", n, d, x))
        e = F.rft(x, d)
        expect.append((e, pkg.rft(x, d), numpy.abs(x).max() * n * max(d, 1) + 1e-300))
        desc.append(("rft", n, d, "real", ()))
        H = F.rft(rand_field(nprng, (n,), "real"), 1.0)      # a genuine half-spectrum (the domain of irft)
        m = len(H)
        lines.append(cplx_line("irft", m, d, H))
        e = F.irft(H, d).astype(complex)
        expect.append((e, pkg.irft(H, d).astype(complex), numpy.abs(H).max() * max(d, 1) * 2 + 1e-300))
        desc.append(("irft", m, d, "half-spectrum", ()))
    # 2-D real-input variants: rft2 on real n×n (even n ≤ 8), irft2 on genuine half-spectra — square (the domain of the
    # theorem irft2_rft2) and non-square N×m ones (the model takes N = data.shape[-2] for BOTH scale factors, as the code does)
    for n in [2, 4, 6, 8]:
        x = rand_field(nprng, (n, n), "real")
        d = chk.rng.choice([1.0, 0.5, 0.25, 2.0])
        lines.append(cplx_line("rft2", n, d, x))
        e = F.rft2(x, d)
        expect.append((e, pkg.rft2(x, d), numpy.abs(x).max() * n * n * max(d * d, 1) + 1e-300))
        desc.append(("rft2", n, d, "real", ()))
        chk.count("corr:rft2:even:batch0")
    for (N, L) in [(2, 2), (4, 4), (6, 6), (8, 8), (3, 4), (4, 6), (5, 2), (6, 4), (2, 8), (7, 6)]:
        d = chk.rng.choice([1.0, 0.5, 0.25])
        H = F.rft2(rand_field(nprng, (N, L), "real"), 1.0)   # a genuine N × (L/2+1) half-spectrum
        lines.append(cplx_line("irft2", N, d, H))
        e = F.irft2(H, d).astype(complex)
        expect.append((e, pkg.irft2(H, d).astype(complex), numpy.abs(e).max() + 1e-300))
        desc.append(("irft2", N, d, "half-spectrum %dx%d" % H.shape, ()))
        chk.count("corr:irft2:%s" % ("square" if N == L else "nonsquare"))
    # phasescreen.ift2 (2-D, no batch, even and odd): a different function with its own model
    from aotools.turbulence import phasescreen
    for n in [2, 3, 4, 5, 6, 8]:
        x = rand_field(nprng, (n, n), "dyadic")
        lines.append(cplx_line("ift2ps", n, 0.5, x))
        e = phasescreen.ift2(x, 0.5)
        expect.append((e, e, numpy.abs(x).max() + 1e-300))
        desc.append(("ift2ps", n, 0.5, "dyadic", ()))
    ans = common.run_driver(lines, "C09")
    nbad = 0
    for a, (e, epkg, scale), ds in zip(ans, expect, desc):
        chk.corr_cases += 1
        chk.case(("corr",) + ds, sample={"op": ds[0], "n": ds[1], "delta": ds[2], "data": ds[3], "batch": list(ds[4])})
        if a == "bad-op":
            chk.broke("correspondence", "driver rejected %s n=%d" % (ds[0], ds[1]))
            continue
        m = parse_c(a, e.shape)
        for who, ee in (("fouriertransform." + ds[0], e), ("aotools." + ds[0], epkg)):
            if ee.shape != m.shape or numpy.abs(m - ee).max() > TOL * scale:
                nbad += 1
                if nbad <= 4:
                    chk.broke("correspondence", "model %s differs from %s at n=%d delta=%r batch=%s (max err %.3g, scale %.3g)"
                              % (ds[0], who, ds[1], ds[2], ds[4], float(numpy.abs(m - ee).max()) if ee.shape == m.shape else -1, scale))


def oracle(chk, F, pkg, quick):
    nprng = numpy.random.default_rng(chk.rng.getrandbits(32))
    ns = list(range(1, 34)) + [64, 65] + ([] if quick else [100, 127, 128, 255, 256, 257])
    entries = (("fouriertransform", F), ("aotools", pkg))

    def bad(key, what, **rep):
        chk.fail(key, what, rep)

    for n in ns:
        par = "odd" if n % 2 else "even"
        c = n // 2
        for ename, M in entries:
            for batch in ((), (3,), (2, 2)):
                chk.oracle_cases += 1
                d = chk.rng.choice([1.0, 0.5, 0.1, 3.0])
                df = 1.0 / (n * d)
                x = rand_field(nprng, batch + (n,), chk.rng.choice(["real", "gauss"]))
                y = rand_field(nprng, batch + (n,), "gauss")
                sc = numpy.abs(x).max() + 1e-300
                bk = "batch" if batch else "single"
                chk.case(("oracle1", n, ename, batch), sample={"n": n, "entry": ename, "batch": list(batch), "delta": d} if n in (5, 8) else None)
                X = M.ft(x, d)
                back = M.ift(X, df)
                if back.shape != x.shape or numpy.abs(back - x).max() > TOL * sc:
                    bad("inverse:ift∘ft:%s:%s:%s" % (ename, par, bk), "%s.ift(ft(x,δ),1/(nδ)) ≠ x for n=%d batch=%s δ=%r (err %.3g)"
                        % (ename, n, batch, d, float(numpy.abs(back - x).max()) if back.shape == x.shape else -1), n=n, batch=batch, delta=d, x=x.tolist())
                fwd = M.ft(M.ift(x, df), d)
                if fwd.shape != x.shape or numpy.abs(fwd - x).max() > TOL * sc:
                    bad("inverse:ft∘ift:%s:%s:%s" % (ename, par, bk), "%s.ft(ift(X,1/(nδ)),δ) ≠ X for n=%d batch=%s" % (ename, n, batch),
                        n=n, batch=batch, delta=d, x=x.tolist())
                # Parseval
                lhs, rhs = (numpy.abs(x) ** 2).sum(-1) * d, (numpy.abs(X) ** 2).sum(-1) * df
                if numpy.abs(lhs - rhs).max() > TOL * (numpy.abs(lhs).max() + 1e-300):
                    bad("parseval:ft:%s:%s" % (ename, par), "Σ|x|²δ ≠ Σ|X|²δ_f for n=%d (%s)" % (n, ename), n=n, delta=d, x=x.tolist())
                # linearity
                a, b = 1.5 - 0.5j, -0.25 + 2j
                if numpy.abs(M.ft(a * x + b * y, d) - (a * X + b * M.ft(y, d))).max() > TOL * n * 4 * max(sc, numpy.abs(y).max()) * max(d, 1):
                    bad("linear:ft:%s" % ename, "ft not linear at n=%d" % n, n=n, delta=d)
                # centred origin: X_k = δ Σ_j x_j e^{-2πi (j-c)(k-c)/n}
                j = numpy.arange(n)
                ker = numpy.exp(-2j * numpy.pi * numpy.outer(j - c, j - c) / n)
                ref = d * numpy.einsum("...j,jk->...k", x, ker)
                if numpy.abs(X - ref).max() > TOL * n * sc * max(d, 1):
                    bad("centred:ft:%s:%s" % (ename, par), "%s.ft does not put the origin at the centre sample n//2 for n=%d (err %.3g)"
                        % (ename, n, float(numpy.abs(X - ref).max())), n=n, delta=d, x=x.tolist())
                refi = df * numpy.einsum("...k,kj->...j", x, numpy.conj(ker))
                if numpy.abs(M.ift(x, df) - refi).max() > TOL * n * sc * max(df, 1):
                    bad("centred:ift:%s:%s" % (ename, par), "%s.ift does not put the origin at the centre sample n//2 for n=%d" % (ename, n),
                        n=n, delta_f=df, x=x.tolist())
                # shift theorem
                s = chk.rng.randrange(0, n)
                Xs = M.ft(numpy.roll(x, s, axis=-1), d)
                if numpy.abs(Xs - numpy.exp(-2j * numpy.pi * s * (j - c) / n) * X).max() > TOL * n * sc * max(d, 1):
                    bad("shift:ft:%s:%s" % (ename, par), "shift by %d samples is not the matching linear phase, n=%d" % (s, n), n=n, s=s, x=x.tolist())
                # stack = frames
                if batch:
                    for idx in numpy.ndindex(*batch):
                        if numpy.abs(X[idx] - M.ft(x[idx], d)).max() > TOL * n * sc * max(d, 1):
                            bad("batch:ft:%s" % ename, "ft of a stack differs from ft of the frame, n=%d batch=%s" % (n, batch), n=n, batch=batch)
                            break
        # centred Gaussian -> (real, even) spectrum close to the analytic Gaussian (bounded discretisation error)
        if n >= 9:
            d = 0.25
            t = (numpy.arange(n) - c) * d
            sig = n * d / 8.0
            g = numpy.exp(-t ** 2 / (2 * sig ** 2))
            f = (numpy.arange(n) - c) / (n * d)
            ana = sig * numpy.sqrt(2 * numpy.pi) * numpy.exp(-2 * (numpy.pi * sig * f) ** 2)
            for ename, M in entries:
                G = M.ft(g, d)
                if numpy.abs(G - ana).max() > 2e-3 * ana.max():
                    bad("gaussian:ft:%s:%s" % (ename, par), "centred Gaussian does not map to the analytic Gaussian for n=%d (err %.3g, imag %.3g)"
                        % (n, float(numpy.abs(G - ana).max()), float(numpy.abs(G.imag).max())), n=n)
    # amplitude classes: the transforms are linear, so every clause holds with the same RELATIVE accuracy for a field of amplitude
    # 1e-24 or 1e+20 and for tiny / huge sample spacings (nothing in them may compare a value with an absolute threshold)
    for amp in (1e-17, 1e-24, 1e-150, 1e20, 1e150):
        for ename, M in entries:
            for dims, fwd_, inv_ in ((1, M.ft, M.ift), (2, M.ft2, M.ift2)):
                n = chk.rng.choice([4, 7, 8, 16] if dims == 1 else [3, 4, 8])
                batch = chk.rng.choice([(), (3,)])
                d = chk.rng.choice([1.0, 1e-6, 1e6, 0.37])
                df = 1.0 / (n * d)
                x = amp * rand_field(nprng, batch + (n,) * dims, "gauss")
                sc = float(numpy.abs(x).max())
                chk.oracle_cases += 1
                chk.count("oracle:amplitude-class:%g" % amp)
                chk.case(("oracle-amplitude", amp, ename, dims, n, batch, d))
                rep = dict(n=n, dims=dims, batch=list(batch), delta=d, amplitude=amp, entry=ename)
                name = "ft" if dims == 1 else "ft2"
                with numpy.errstate(all="ignore"):
                    X = fwd_(x, d)
                    back = inv_(X, df)
                    back2 = fwd_(inv_(x, df), d)
                    hom = inv_((0.3 - 1.7j) * x, df)
                    base = inv_(x, df)
                if back.shape != x.shape or not numpy.abs(back - x).max() <= TOL * sc:
                    bad("inverse:i%s∘%s:%s:amplitude" % (name, name, ename), "%s.i%s(%s(x)) ≠ x for a field of amplitude %g (n=%d, δ=%g): relative "
                        "error %.3g" % (ename, name, name, amp, n, d, float(numpy.abs(back - x).max()) / sc if back.shape == x.shape else -1), **rep)
                if back2.shape != x.shape or not numpy.abs(back2 - x).max() <= TOL * sc:
                    bad("inverse:%s∘i%s:%s:amplitude" % (name, name, ename), "%s.%s(i%s(X)) ≠ X for a spectrum of amplitude %g (n=%d, δ_f=%g): "
                        "relative error %.3g" % (ename, name, name, amp, n, df, float(numpy.abs(back2 - x).max()) / sc if back2.shape == x.shape else -1), **rep)
                if not numpy.abs(hom - (0.3 - 1.7j) * base).max() <= TOL * 4 * float(numpy.abs(base).max() + 1e-300):
                    bad("linear:i%s:%s:amplitude" % (name, ename), "%s.i%s(c·X) ≠ c·i%s(X) for a spectrum of amplitude %g (n=%d)" % (ename, name, name, amp, n), **rep)
                ax = tuple(range(-dims, 0))
                lhs, rhs = (numpy.abs(x / sc) ** 2).sum(ax) * d ** dims, (numpy.abs(X / sc) ** 2).sum(ax) * df ** dims
                if not numpy.abs(lhs - rhs).max() <= TOL * float(numpy.abs(lhs).max()):
                    bad("parseval:%s:%s:amplitude" % (name, ename), "Parseval fails for a field of amplitude %g (n=%d, δ=%g)" % (amp, n, d), **rep)
    # large stacks: the same clauses per frame when the whole stack is big (4 frames of 256², 3 of 300²) — a code path chosen by total size
    for batch, n in (((4,), 256), ((3,), 300)) if quick else (((4,), 256), ((3,), 300), ((2, 3), 210), ((5,), 256)):
        for ename, M in entries[:1] if quick else entries:
            d = 0.5
            df = 1.0 / (n * d)
            x = rand_field(nprng, batch + (n, n), "gauss")
            chk.oracle_cases += 1
            chk.count("oracle:large-stack")
            chk.case(("oracle-large-stack", batch, n, ename))
            X = M.ft2(x, d)
            idx = tuple(chk.rng.randrange(b) for b in batch)
            one = M.ft2(x[idx].copy(), d)
            sc = float(numpy.abs(one).max())
            rep = dict(n=n, batch=list(batch), delta=d, entry=ename, frame=list(idx))
            if X.shape != x.shape or not numpy.abs(X[idx] - one).max() <= TOL * sc:
                bad("batch:ft2:%s:large-stack" % ename, "%s.ft2 of a %s stack of %dx%d frames: frame %s differs from ft2 of that frame alone by %.3g "
                    "(scale %.3g)" % (ename, batch, n, n, idx, float(numpy.abs(X[idx] - one).max()) if X.shape == x.shape else -1, sc), **rep)
                continue
            lhs, rhs = (numpy.abs(x) ** 2).sum((-1, -2)) * d * d, (numpy.abs(X) ** 2).sum((-1, -2)) * df * df
            if not numpy.abs(lhs - rhs).max() <= TOL * float(numpy.abs(lhs).max()):
                bad("parseval:ft2:%s:large-stack" % ename, "per-frame Parseval fails for a %s stack of %dx%d frames" % (batch, n, n), **rep)
            Y = M.ift2(x, df)
            onei = M.ift2(x[idx].copy(), df)
            if Y.shape != x.shape or not numpy.abs(Y[idx] - onei).max() <= TOL * float(numpy.abs(onei).max()):
                bad("batch:ift2:%s:large-stack" % ename, "%s.ift2 of a %s stack of %dx%d frames: frame %s differs from ift2 of that frame alone"
                    % (ename, batch, n, n, idx), **rep)
    # 2-D
    for n in [1, 2, 3, 4, 5, 6, 7, 8, 9, 16, 17] + ([] if quick else [31, 32, 33, 64]):
        par = "odd" if n % 2 else "even"
        for ename, M in entries:
            for batch in ((), (3,), (2, 2)):
                chk.oracle_cases += 1
                d = chk.rng.choice([1.0, 0.5, 0.1])
                df = 1.0 / (n * d)
                x = rand_field(nprng, batch + (n, n), chk.rng.choice(["real", "gauss"]))
                sc = numpy.abs(x).max() + 1e-300
                bk = "batch" if batch else "single"
                chk.case(("oracle2", n, ename, batch))
                try:
                    back = M.ift2(M.ft2(x, d), df)
                    err = float(numpy.abs(back - x).max()) if back.shape == x.shape else float("inf")
                except Exception as ex:
                    err, back = float("inf"), ex
                if not err <= TOL * sc:
                    bad("inverse:ift2∘ft2:%s:%s:%s" % (ename, par, bk), "%s.ift2(ft2(x,δ),1/(nδ)) ≠ x for n=%d batch=%s (err %s)"
                        % (ename, n, batch, err), n=n, batch=batch, delta=d)
                    continue
                try:
                    fwd = M.ft2(M.ift2(x, df), d)
                    err = float(numpy.abs(fwd - x).max()) if fwd.shape == x.shape else float("inf")
                except Exception:
                    err = float("inf")
                if not err <= TOL * sc:
                    bad("inverse:ft2∘ift2:%s:%s:%s" % (ename, par, bk), "%s.ft2(ift2(X)) ≠ X for n=%d batch=%s" % (ename, n, batch), n=n, batch=batch)
                X = M.ft2(x, d)
                lhs, rhs = (numpy.abs(x) ** 2).sum((-1, -2)) * d * d, (numpy.abs(X) ** 2).sum((-1, -2)) * df * df
                if numpy.abs(lhs - rhs).max() > TOL * (numpy.abs(lhs).max() + 1e-300):
                    bad("parseval:ft2:%s:%s" % (ename, par), "2-D Parseval fails for n=%d (%s)" % (n, ename), n=n)
                c = n // 2
                j = numpy.arange(n)
                ker = numpy.exp(-2j * numpy.pi * numpy.outer(j - c, j - c) / n)
                ref = d * d * numpy.einsum("...ab,ak,bl->...kl", x, ker, ker)
                if numpy.abs(X - ref).max() > TOL * n * n * sc * max(d * d, 1):
                    bad("centred:ft2:%s:%s" % (ename, par), "%s.ft2 origin is not the centre sample for n=%d" % (ename, n), n=n)
    # other input classes: single precision (tolerance of the data type, not of binary64), non-contiguous views, and non-square
    # 2-D arrays (the inverse pair holds with delta_f = 1/(N_last*delta); Parseval with ONE scalar delta_f is only meaningful for
    # square arrays, which is the domain used for it above)
    for ename, M in entries:
        for n in (4, 5, 8, 9, 16):
            chk.oracle_cases += 1
            chk.case(("oracle-classes", n, ename))
            d, df = 0.5, 1.0 / (n * 0.5)
            x32 = rand_field(nprng, (n,), "gauss").astype("complex64")
            r32 = rand_field(nprng, (n,), "gauss").real.astype("float32")
            for lab, x in (("complex64", x32), ("float32", r32)):
                back = M.ift(M.ft(x, d), df)
                if back.shape != x.shape or numpy.abs(back - x).max() > 200 * numpy.finfo("float32").eps * (numpy.abs(x).max() + 1e-30):
                    bad("inverse:ift∘ft:%s:%s" % (ename, lab), "%s.ift(ft(x)) ≠ x for %s data, n=%d (err %.3g)"
                        % (ename, lab, n, float(numpy.abs(back - x).max())), n=n, dtype=lab)
            big = rand_field(nprng, (3, 2 * n), "gauss")
            xv = big[:, ::2]                                   # a strided (non-contiguous) view
            if numpy.abs(M.ft(xv, d) - M.ft(numpy.ascontiguousarray(xv), d)).max() > TOL * n * (numpy.abs(xv).max() + 1e-300):
                bad("layout:ft:%s" % ename, "ft of a strided view differs from ft of its contiguous copy, n=%d" % n, n=n)
            xt = rand_field(nprng, (n, n), "gauss").T          # Fortran-ordered
            if numpy.abs(M.ft2(xt, d) - M.ft2(numpy.ascontiguousarray(xt), d)).max() > TOL * n * n * (numpy.abs(xt).max() + 1e-300):
                bad("layout:ft2:%s" % ename, "ft2 of a transposed view differs from ft2 of its contiguous copy, n=%d" % n, n=n)
        for (m_, n_) in ((4, 6), (6, 4), (3, 8), (5, 7)):
            chk.oracle_cases += 1
            chk.case(("oracle-nonsquare", m_, n_, ename))
            d = 0.5
            x = rand_field(nprng, (m_, n_), "gauss")
            back = M.ift2(M.ft2(x, d), 1.0 / (n_ * d))
            if back.shape != x.shape or numpy.abs(back - x).max() > TOL * (numpy.abs(x).max() + 1e-300):
                bad("inverse:ift2∘ft2:%s:nonsquare" % ename, "%s.ift2(ft2(x,δ),1/(N_last δ)) ≠ x for a %dx%d array" % (ename, m_, n_), shape=[m_, n_])
        # batched real variants
        for shape in ((3, 8), (2, 3, 6)):
            chk.oracle_cases += 1
            chk.case(("oracle-real-batch", shape, ename))
            x = nprng.normal(size=shape)
            n = shape[-1]
            back = M.irft(M.rft(x, 0.5), 1.0 / (n * 0.5))
            if back.shape != x.shape or numpy.abs(back - x).max() > TOL * numpy.abs(x).max():
                bad("real:irft∘rft:batch", "%s.irft(rft(x)) ≠ x for a stack of shape %s" % (ename, shape), shape=list(shape))
            for idx in numpy.ndindex(*shape[:-1]):
                if numpy.abs(M.rft(x, 0.5)[idx] - M.rft(x[idx], 0.5)).max() > TOL * n * numpy.abs(x).max():
                    bad("real:rft:batch", "rft of a stack differs from rft of the frame, shape %s" % (shape,), shape=list(shape))
                    break
        chk.oracle_cases += 1
        x = nprng.normal(size=(2, 6, 6))
        try:
            back = M.irft2(M.rft2(x, 0.5), 1.0 / (6 * 0.5))
            ok = back.shape == x.shape and numpy.abs(back - x).max() <= TOL * numpy.abs(x).max()
        except Exception:
            ok = False
        if not ok:
            bad("real:irft2∘rft2:batch", "%s.irft2(rft2(x)) ≠ x for a (2,6,6) stack" % ename, shape=[2, 6, 6])
    # real-input variants
    for n in list(range(2, 20)) + [32, 33]:
        par = "odd" if n % 2 else "even"
        for ename, M in entries:
            chk.oracle_cases += 1
            d = 0.5
            df = 1.0 / (n * d)
            x = nprng.normal(size=n)
            chk.case(("oracleR", n, ename))
            try:
                H = M.rft(x, d)
                back = M.irft(H, df)
                ok = back.shape == x.shape and numpy.abs(back - x).max() <= TOL * numpy.abs(x).max()
            except Exception:
                ok = False
            if not ok:
                bad("real:irft∘rft:%s" % par, "%s.irft(rft(x,δ),1/(nδ)) ≠ x for real x of length n=%d" % (ename, n), n=n, x=x.tolist())
            else:
                w = numpy.full(H.shape[-1], 2.0)
                full = M.ft(x, d)
                # half-spectrum Parseval: the bins that have no mirror partner (|X|² appears once in the full spectrum) weigh 1
                p_full = (numpy.abs(full) ** 2).sum() * df
                mags = numpy.sort(numpy.abs(H) ** 2)
                # weights: DC and (even n) Nyquist once, the others twice — identify by matching the full spectrum
                tot = None
                for i0 in range(len(H)):
                    for i1 in range(i0 + 1, len(H)):
                        ww = w.copy(); ww[i0] = 1; ww[i1] = 1
                        t = (ww * numpy.abs(H) ** 2).sum() * df
                        if abs(t - p_full) <= 1e-9 * p_full:
                            tot = t
                if n % 2 == 0 and tot is None:
                    bad("real:parseval:%s" % par, "half-spectrum Parseval fails for n=%d (%s)" % (n, ename), n=n)
                if n % 2 == 0:
                    # the same clause exactly as theorem parseval_half states it: weights by the explicit positions of DC and Nyquist
                    p_x = (x ** 2).sum() * d
                    t = (half_weights(n) * numpy.abs(H) ** 2).sum() * df
                    if abs(t - p_x) > TOL * p_x:
                        bad("real:parseval-layout:%s" % par, "Σx²δ ≠ δ_f Σ w_k|H_k|² with w=1 at positions %d (DC), %d (Nyquist) of %s.rft "
                            "for n=%d (%.12g vs %.12g)" % (dc_pos(n), nyq_pos(n), ename, n, p_x, t), n=n, x=x.tolist())
                    # rft_dc / rft_nyquist: the bins at those positions are Σx·δ and Σ(±1)^j x·δ (up to the sign of the shift)
                    if abs(H[dc_pos(n)] - x.sum() * d) > TOL * n * numpy.abs(x).max() or \
                            abs(abs(H[nyq_pos(n)]) - abs((x * (-1.0) ** numpy.arange(n)).sum() * d)) > TOL * n * numpy.abs(x).max():
                        bad("real:layout:%s" % par, "%s.rft does not put DC / Nyquist at positions %d / %d for n=%d"
                            % (ename, dc_pos(n), nyq_pos(n), n), n=n, x=x.tolist())
                    # the other composition on a genuine half-spectrum (theorem rft_irft)
                    H2 = M.rft(M.irft(H, df), d)
                    if H2.shape != H.shape or numpy.abs(H2 - H).max() > TOL * (numpy.abs(H).max() + 1e-300):
                        bad("real:rft∘irft:%s" % par, "%s.rft(irft(H,1/(nδ)),δ) ≠ H for a half-spectrum of a real signal, n=%d" % (ename, n), n=n)
        if n % 2 == 0 and n <= 16:
            for ename, M in entries:
                chk.oracle_cases += 1
                x = nprng.normal(size=(n, n))
                try:
                    back = M.irft2(M.rft2(x, 0.5), 1.0 / (n * 0.5))
                    ok = back.shape == x.shape and numpy.abs(back - x).max() <= TOL * numpy.abs(x).max()
                except Exception:
                    ok = False
                if not ok:
                    bad("real:irft2∘rft2:%s" % par, "%s.irft2(rft2(x)) ≠ x for real n×n x, n=%d" % (ename, n), n=n)
                    continue
                # theorem parseval_half2: weights only along the halved last axis
                d, df = 0.5, 1.0 / (n * 0.5)
                H = M.rft2(x, d)
                p_x = (x ** 2).sum() * d * d
                t = (half_weights(n)[None, :] * numpy.abs(H) ** 2).sum() * df * df
                if H.shape != (n, n // 2 + 1) or abs(t - p_x) > TOL * p_x:
                    bad("real:parseval2-layout:%s" % par, "Σx²δ² ≠ δ_f² Σ w_k|H_ak|² on the %s bins of %s.rft2 for n=%d (%.12g vs %.12g)"
                        % (H.shape, ename, n, p_x, t), n=n)
                # theorem rft2_irft2
                H2 = M.rft2(M.irft2(H, df), d)
                if H2.shape != H.shape or numpy.abs(H2 - H).max() > TOL * (numpy.abs(H).max() + 1e-300):
                    bad("real:rft2∘irft2:%s" % par, "%s.rft2(irft2(H)) ≠ H for the half-spectrum of a real n×n array, n=%d" % (ename, n), n=n)


# ------------------------------------------------------------------------------------------------------------------------------
# Round 5 (generator audit): input classes and call histories the sections above never produce.  Every function of the module is
# run on the SAME values presented in other ways (argument dtypes, memory layouts, spacing given as Python int / NumPy scalar /
# 0-d array, keyword call), on sizes that cross plausible size thresholds (1-D up to 2^18, single 2-D frames up to 2^18 elements,
# primes, long thin stacks), and in call histories (same arguments again, other spacings on the same shape, the caller's input and
# an earlier result re-used after a later call).  Expected values come from references that use neither the library nor numpy's
# shift helpers: the centred-DFT formula evaluated with numpy.roll around numpy.fft (bit-identical to the unchanged code, so the
# tolerance is rounding level), the explicit kernel for n ≤ 1024, analytic impulses and Gaussians.
NAMES = ("ft", "ift", "ft2", "ift2", "rft", "irft", "rft2", "irft2")
DIMS = {"ft": 1, "ift": 1, "ft2": 2, "ift2": 2, "rft": 1, "irft": 1, "rft2": 2, "irft2": 2}
KWARG = {"ft": "delta", "ft2": "delta", "rft": "delta", "rft2": "delta", "ift": "delta_f", "ift2": "delta_f", "irft": "delta_f", "irft2": "delta_f"}
TIGHT = 1e-12        # relative to max|expected|.  Observed on the unchanged tree over seeds 0..11 + thorough: see OBS_* in the notes
                     # of the evidence file (worst 6.0e-16 on a value, i.e. margin > 1000x)
F32TOL = 200 * float(numpy.finfo("float32").eps)   # single-precision inputs are transformed in single precision (worst observed 2.7e-7·scale… see notes)
GAUSS2 = 1e-2       # discretisation error of the sampled 2-D Gaussian (σ = nδ/8), deterministic in n: 4.4e-4 at n=9, ≤ 1.7e-4 for n ≥ 16
WEAK = 1e-5          # relative accuracy demanded of a weak (1e-8 relative) imaginary part; worst observed 4e-8


def ref4(name, x, s):
    """centred DFT conventions of the property, written with numpy.roll (origin at sample n//2 of both grids), in binary64"""
    x = numpy.asarray(x).astype(complex)
    s = float(s)
    n = x.shape[-1]
    c = n // 2
    if name == "ft":
        return numpy.roll(numpy.fft.fft(numpy.roll(x, -c, -1), axis=-1), c, -1) * s
    if name == "ift":
        return numpy.roll(numpy.fft.ifft(numpy.roll(x, -c, -1), axis=-1), c, -1) * n * s
    cc = (x.shape[-2] // 2, c)
    y = numpy.roll(x, (-cc[0], -cc[1]), (-2, -1))
    if name == "ft2":
        return numpy.roll(numpy.fft.fft2(y, axes=(-2, -1)), cc, (-2, -1)) * s ** 2
    return numpy.roll(numpy.fft.ifft2(y, axes=(-2, -1)), cc, (-2, -1)) * (n * s) ** 2       # ift2: N = length of the LAST axis


def half_index(n):
    """rft's half-spectrum (even n) in terms of the full centred spectrum: position i holds bin (i − m//2) mod m, m = n/2+1, and
    non-negative bin q of the DFT sits at sample (n//2 + q) mod n of ft's output (the Nyquist bin n/2 at sample 0)"""
    m = n // 2 + 1
    return (n // 2 + ((numpy.arange(m) - m // 2) % m)) % n


def kernel_ref(x, d, dims):
    """the property's formula itself, X_k = δ Σ_j x_j e^{-2πi (j-c)(k-c)/n}, by matrix products (independent of numpy.fft)"""
    def ker(n):
        j = numpy.arange(n) - n // 2
        return numpy.exp(-2j * numpy.pi * ((numpy.outer(j, j) % n) / n))
    if dims == 1:
        return d * (x @ ker(x.shape[-1]))
    return d * d * (ker(x.shape[-2]).T @ x @ ker(x.shape[-1]))


def make_case(sub, name, shape, s, kind="gauss"):
    """(input, expected) for `name` on a field of the given full shape, both binary64 and C-contiguous.  For the inverse real
    variants `shape` is the shape of the REAL signal, the input is its reference half-spectrum for spacing 1/(n s), and the
    expected output is the signal itself (the inverse-pair clause), so nothing here depends on the library."""
    g = numpy.random.default_rng(sub)
    dims = DIMS[name]

    def field(real):
        if kind == "int":
            return g.integers(0, 2, size=shape).astype(float)       # 0/1: representable in every integer dtype and in bool
        if kind == "int8":
            return g.integers(0, 101, size=shape).astype(float)     # fits int8 … uint64; times a spacing ≥ 3 it does not fit (u)int8
        return g.normal(size=shape) if real else g.normal(size=shape) + 1j * g.normal(size=shape)
    if name in ("ft", "ift", "ft2", "ift2"):
        x = field(kind in ("int", "int8", "real"))
        return x, ref4(name, x, s)
    x = field(True)
    n = shape[-1]
    idx = half_index(n)
    if name in ("rft", "rft2"):
        return x, ref4("ft" if dims == 1 else "ft2", x, s)[..., idx]
    d = 1.0 / (n * s)
    return numpy.ascontiguousarray(ref4("ft" if dims == 1 else "ft2", x, d)[..., idx]), x


class Audit:
    def __init__(self, chk, F, pkg, quick):
        self.chk, self.quick = chk, quick
        self.obs = {}
        # the package-level name is run as well unless it IS the module's function object (then its behaviour is the same by identity)
        self.entries = {}
        for nm in NAMES:
            self.entries[nm] = [("fouriertransform", getattr(F, nm))]
            if getattr(pkg, nm, None) is not getattr(F, nm):
                self.entries[nm].append(("aotools", getattr(pkg, nm)))
                chk.count("audit:package-name-is-a-different-object")

    def see(self, fam, err, tol):
        r = err / tol
        if not r <= self.obs.get(fam, 0.0):
            self.obs[fam] = r

    def call(self, key, what, rep, fn, *a, **k):
        """run the library; an exception on an in-domain input is a failing input with its own key"""
        try:
            with numpy.errstate(all="ignore"):
                return fn(*a, **k)
        except Exception as ex:
            self.chk.fail("exception:" + key, "%s raised %s: %s" % (what, type(ex).__name__, ex), rep)
            return None

    def value(self, fam, key, what, rep, out, exp, tol):
        """|out − exp| ≤ tol·max|exp| (shape included); True if it holds"""
        if out is None:
            return False
        out = numpy.asarray(out)
        sc = float(numpy.abs(exp).max()) + 1e-300
        err = float(numpy.abs(out - exp).max()) / sc if out.shape == exp.shape else float("inf")
        if not err <= tol:
            self.chk.fail(key, "%s: relative error %.3g > %.3g (shape %s, expected %s)" % (what, err, tol, out.shape, exp.shape), rep)
            return False
        self.see(fam, err, tol)
        return True


def presentations(inp, nprng):
    """the same values as `inp` (binary64 / complex128, C-contiguous) in other memory layouts"""
    out = []
    if inp.ndim >= 2:
        out.append(("fortran", numpy.asfortranarray(inp)))
        big = numpy.zeros((2 * inp.shape[0],) + inp.shape[1:], dtype=inp.dtype)
        big[::2] = inp
        big[1::2] = 7.0
        out.append(("strided-first-axis", big[::2]))
        out.append(("negative-stride-first-axis", inp[::-1].copy()[::-1]))
        out.append(("transposed-copy", numpy.ascontiguousarray(numpy.swapaxes(inp, -1, -2)).swapaxes(-1, -2)))
    big = numpy.zeros(inp.shape[:-1] + (3 * inp.shape[-1],), dtype=inp.dtype)
    big[..., 1::3] = inp
    big[..., 0::3] = -3.0
    out.append(("strided-last-axis", big[..., 1::3]))
    out.append(("negative-stride-last-axis", inp[..., ::-1].copy()[..., ::-1]))
    ro = inp.copy()
    ro.setflags(write=False)
    out.append(("read-only", ro))
    out.append(("big-endian", inp.astype(inp.dtype.newbyteorder(">"))))
    out.append(("sliced-from-larger", numpy.pad(inp, [(1, 2)] * inp.ndim, constant_values=5.0)[tuple(slice(1, 1 + k) for k in inp.shape)]))
    return out


def audit_presentations(A, nprng):
    chk, quick = A.chk, A.quick
    pool1 = [(8,), (9,), (1,), (2,), (16,), (3, 1), (3, 6), (5, 7), (1, 8), (1, 1, 5), (2, 3, 7), (3, 5, 4), (2, 3, 2, 6), (7, 10), (4, 4), (5, 5)]
    pool2 = [(6, 6), (7, 7), (1, 1), (2, 2), (3, 1, 1), (3, 4, 4), (5, 3, 3), (1, 6, 6), (2, 3, 5, 5), (3, 5, 2, 2), (7, 4, 4), (3, 3, 3), (4, 6), (6, 5),
             (5, 8), (3, 4, 7), (3, 8, 5)]
    pool1r = [sh for sh in pool1 if sh[-1] % 2 == 0]
    pool2r = [sh for sh in pool2 if sh[-1] % 2 == 0 and sh[-1] == sh[-2]]
    per = 4 if quick else 14
    for name in NAMES:
        dims = DIMS[name]
        real_variant = name in ("rft", "irft", "rft2", "irft2")
        pool = (pool1r if dims == 1 else pool2r) if real_variant else (pool1 if dims == 1 else pool2)
        if name == "ift2":
            pool = [sh for sh in pool if sh[-1] == sh[-2]]        # ift2 of a non-square array is only specified through the inverse pair
        shapes = [pool[i] for i in sorted(chk.rng.sample(range(len(pool)), min(per, len(pool))))]
        for ename, fn in A.entries[name]:
            for shape in shapes:
                s = chk.rng.choice([0.5, 0.25, 2.0, 0.125, 4.0])          # exactly representable in every floating type used below
                sub = chk.rng.getrandbits(32)
                inp, exp = make_case(sub, name, shape, s)
                rep = dict(function=name, entry=ename, shape=list(shape), spacing=s, data_seed=sub,
                           data="numpy.random.default_rng(data_seed) via c09.make_case(data_seed, function, shape, spacing)")
                if inp.size <= 64:
                    rep["input"] = [[float(z.real), float(z.imag)] for z in inp.ravel()]
                tag = "%s:%s" % (name, ename)
                what = "%s.%s on a %s %s array, spacing %r" % (ename, name, shape if name not in ("irft", "irft2") else inp.shape, inp.dtype, s)
                chk.oracle_cases += 1
                chk.count("audit:presentations:%s" % name)
                chk.case(("audit-presentations", name, ename, shape, s))
                before = inp.copy()
                out0 = A.call("base:" + tag, what, rep, fn, inp, s)
                if not A.value("value", "reference:" + tag, what + " differs from the centred transform", rep, out0, exp, TIGHT):
                    continue
                keep = out0.copy()
                if not numpy.array_equal(inp, before):
                    chk.fail("input-mutated:" + tag, what + " changed the caller's array", rep)
                    inp[...] = before
                if numpy.shares_memory(out0, inp):
                    chk.fail("alias:" + tag, what + " returns memory shared with its input", rep)
                if not real_variant and not numpy.iscomplexobj(out0):
                    chk.fail("dtype:%s:real-result" % tag, what + " returned a real array (dtype %s)" % out0.dtype, rep)
                # history: another input of the same shape, then the first one again; the earlier RESULT must not have changed
                other, _ = make_case(sub ^ 0x5bd1e995, name, shape, s)
                A.call("base:" + tag, what, rep, fn, other, s)
                if not numpy.array_equal(out0, keep):
                    chk.fail("history:result-overwritten:" + tag, what + ": the array returned by the first call changed when the function was "
                             "called again on another array of the same shape", rep)
                again = A.call("base:" + tag, what, rep, fn, inp, s)
                if again is None or again.shape != keep.shape or not numpy.array_equal(again, keep):
                    chk.fail("history:repeat:" + tag, what + ": the same call repeated after a call on other data gives a different result", rep)
                # keyword call
                kw = A.call("keyword:" + tag, what + " called as %s(data=…, %s=…)" % (name, KWARG[name]), rep, fn, **{"data": inp, KWARG[name]: s})
                if kw is not None and not (kw.shape == keep.shape and numpy.array_equal(kw, keep)):
                    chk.fail("keyword:" + tag, what + ": keyword call differs from the positional call", rep)
                # memory layouts
                for lab, view in presentations(inp, nprng):
                    vb = view.copy()
                    r = dict(rep, layout=lab)
                    o = A.call("layout:%s:%s" % (lab, tag), what + " [" + lab + "]", r, fn, view, s)
                    A.value("layout", "layout:%s:%s" % (lab, tag), what + " given as a %s view differs from the contiguous array" % lab, r, o, exp, TIGHT)
                    if view.flags.writeable and not numpy.array_equal(view, vb):
                        chk.fail("input-mutated:" + tag, what + " changed the caller's array (%s view)" % lab, r)
                    chk.count("audit:layout:" + lab)
                bro = numpy.broadcast_to(inp, (3,) + inp.shape)
                r = dict(rep, layout="broadcast (3,)+shape, stride 0")
                o = A.call("layout:broadcast:" + tag, what + " [broadcast stack]", r, fn, bro, s)
                A.value("layout", "layout:broadcast:" + tag, what + " given as a stride-0 stack of 3 equal frames differs from the frame's transform",
                        r, o, numpy.broadcast_to(exp, (3,) + exp.shape), TIGHT)
                # the spacing as other scalar types (same value)
                scal = [("numpy.float64", numpy.float64(s)), ("numpy.float32", numpy.float32(s)), ("0-d array", numpy.array(s)),
                        ("0-d float32 array", numpy.array(s, dtype="float32")), ("numpy.longdouble", numpy.longdouble(s))]
                if s == int(s):
                    scal += [("int", int(s)), ("numpy.int64", numpy.int64(s)), ("numpy.int32", numpy.int32(s)), ("0-d int array", numpy.array(int(s)))]
                    # a spacing held as a SMALL NumPy integer scalar: ft2/ift2/rft2/irft2 squared it in that integer type (finding
                    # spacing-type:numpy.uint8, fixed by 9574e64: ift2(ones((7,7)), numpy.uint8(4)) was scaled by 28² mod 256 = 16)
                    if 0 < s < 256:
                        scal.append(("numpy.uint8", numpy.uint8(s)))
                    if abs(s) < 2 ** 15:
                        scal.append(("numpy.int16", numpy.int16(s)))
                for lab, sv in scal:
                    r = dict(rep, spacing_type=lab)
                    o = A.call("spacing-type:%s:%s" % (lab, tag), what + " [spacing as %s]" % lab, r, fn, inp, sv)
                    A.value("spacing-type", "spacing-type:%s:%s" % (lab, tag), what + " with the spacing given as %s differs" % lab, r, o, exp, TIGHT)
                    chk.count("audit:spacing-type:" + lab)
                # single precision (transformed in single precision by numpy ≥ 2: tolerance of that type)
                lo = inp.astype("complex64" if numpy.iscomplexobj(inp) else "float32")
                r = dict(rep, dtype=str(lo.dtype))
                o = A.call("dtype:%s:%s" % (lo.dtype, tag), what + " [%s]" % lo.dtype, r, fn, lo, s)
                A.value("single", "dtype:%s:%s" % (lo.dtype, tag), what + " on %s data differs" % lo.dtype, r, o, exp, F32TOL)
                if not numpy.iscomplexobj(inp):
                    cx = inp.astype(complex)                        # a real field stored as complex128
                    if name not in ("rft", "rft2"):
                        o = A.call("dtype:complex-zero-imag:" + tag, what, rep, fn, cx, s)
                        A.value("value", "dtype:complex-zero-imag:" + tag, what + " on a real field stored as complex128 differs", rep, o, exp, TIGHT)
            # integer and boolean fields (forward and inverse complex transforms, forward real ones); the spacing also as a Python int
            if name in ("irft", "irft2"):
                continue
            for ename, fn in A.entries[name]:
                shape = chk.rng.choice(shapes)
                for dt in ("bool", "uint8", "int8", "int16", "uint16", "int32", "uint32", "int64", "uint64"):
                    for sv in (chk.rng.choice([3, 7, 12, 40]), chk.rng.choice([0.5, 0.3, 3.0])):
                        sub = chk.rng.getrandbits(32)
                        inp, exp = make_case(sub, name, shape, float(sv), kind="int" if dt == "bool" else "int8")
                        xi = inp.astype(dt)
                        rep = dict(function=name, entry=ename, shape=list(shape), spacing=repr(sv), dtype=dt, data_seed=sub,
                                   input=[float(v) for v in inp.ravel()[:64]])
                        tag = "%s:%s" % (name, ename)
                        what = "%s.%s on a %s %s array, spacing %r" % (ename, name, shape, dt, sv)
                        chk.oracle_cases += 1
                        chk.count("audit:dtype:" + dt)
                        chk.case(("audit-int", name, ename, shape, dt, sv))
                        before = xi.copy()
                        o = A.call("dtype:%s:%s" % (dt, tag), what, rep, fn, xi, sv)
                        A.value("int", "dtype:%s:%s" % (dt, tag), what + " differs from the transform of the same values in binary64", rep, o, exp, TIGHT)
                        if not numpy.array_equal(xi, before) or xi.dtype != before.dtype:
                            chk.fail("input-mutated:" + tag, what + " changed the caller's array", rep)


def audit_sizes(A, nprng):
    """sizes beyond the 1..65 / 1..17 of the sections above, up to 2^18 elements in one transform and in one stack"""
    chk, quick = A.chk, A.quick
    r = chk.rng
    one = [r.choice([100, 127, 128, 255]), r.choice([256, 257, 1000]), r.choice([1009, 1024, 1023]), r.choice([4096, 4099, 5000]),
           r.choice([65536, 65537, 65535]), r.choice([1 << 18, (1 << 18) + 1, 300000])]
    stacks1 = [r.choice([(3, 1 << 17), (5, 65536)]), r.choice([(512, 512), (513, 511)]), r.choice([(4099, 64), (3, 1367, 65), (70001, 4)]), (3, 1024), (2, 3, 257)]
    two = [r.choice([31, 32, 33]), r.choice([64, 65, 100]), r.choice([127, 128, 129]), r.choice([255, 256, 257]), r.choice([511, 512, 513]),
           r.choice([521, 600])]
    stacks2 = [r.choice([(3, 128, 128), (5, 127, 127)]), r.choice([(2, 2, 257, 257), (1, 512, 512), (7, 200, 200)])]
    nonsq = [r.choice([(300, 1000), (1000, 300)]), r.choice([(3, 33, 64), (3, 64, 33)]), (5, 8, 5), (2, 3, 5, 8), r.choice([(1, 4096 * 64), (4096 * 64, 1)])]
    if not quick:
        one = [100, 127, 128, 255, 256, 257, 1000, 1009, 1023, 1024, 4096, 4099, 5000, 65535, 65536, 65537, 1 << 18, (1 << 18) + 1, 300000, 1 << 20]
        stacks1 = [(3, 1 << 17), (5, 65536), (512, 512), (513, 511), (4099, 64), (3, 1367, 65), (70001, 4), (3, 1024), (2, 3, 257), (1 << 18, 2), (65537, 3)]
        two = [31, 32, 33, 64, 65, 100, 127, 128, 129, 255, 256, 257, 511, 512, 513, 521, 600, 1024]
        stacks2 = [(3, 128, 128), (5, 127, 127), (2, 2, 257, 257), (1, 512, 512), (7, 200, 200), (3, 512, 512)]
        nonsq = [(300, 1000), (1000, 300), (3, 33, 64), (3, 64, 33), (5, 8, 5), (2, 3, 5, 8), (1, 4096 * 64), (4096 * 64, 1), (3, 512, 600)]
    jobs = [(nm, (n,)) for n in one for nm in ("ft", "ift")] + [(nm, sh) for sh in stacks1 for nm in ("ft", "ift")] \
        + [(nm, (n, n)) for n in two for nm in ("ft2", "ift2")] + [(nm, sh) for sh in stacks2 for nm in ("ft2", "ift2")] \
        + [("ft2", sh) for sh in nonsq] \
        + [(nm, (n + n % 2,)) for n in one for nm in ("rft", "irft")] + [(nm, sh[:-1] + (sh[-1] + sh[-1] % 2,)) for sh in stacks1 for nm in ("rft", "irft")] \
        + [(nm, (n + n % 2,) * 2) for n in two for nm in ("rft2", "irft2")] \
        + [(nm, sh[:-2] + (sh[-1] + sh[-1] % 2,) * 2) for sh in stacks2 for nm in ("rft2", "irft2")]
    for name, shape in jobs:
        dims = DIMS[name]
        n = shape[-1]
        for ename, fn in A.entries[name]:
            d = r.choice([0.5, 0.1, 3.0, 0.37])      # never 1: a lost or doubled spacing factor must show at every size
            s = d if name in ("ft", "ft2", "rft", "rft2") else 1.0 / (n * d)
            sub = r.getrandbits(32)
            inp, exp = make_case(sub, name, shape, s, kind=r.choice(["gauss", "real"]))
            rep = dict(function=name, entry=ename, shape=list(shape), spacing=s, data_seed=sub,
                       data="c09.make_case(data_seed, function, shape, spacing)")
            tag = "%s:%s" % (name, ename)
            what = "%s.%s on a %s %s array, spacing %r" % (ename, name, inp.shape, inp.dtype, s)
            chk.oracle_cases += 1
            chk.count("audit:size:%s:%s" % (name, "stack" if len(shape) > dims else "single"))
            chk.case(("audit-size", name, ename, shape, s))
            before = inp.copy()
            out = A.call("size:" + tag, what, rep, fn, inp, s)
            if not A.value("value-large", "size:reference:" + tag, what + " differs from the centred transform", rep, out, exp, TIGHT):
                continue
            if not numpy.array_equal(inp, before):
                chk.fail("input-mutated:" + tag, what + " changed the caller's array", rep)
                inp[...] = before
            lo = inp.astype("complex64" if numpy.iscomplexobj(inp) else "float32")        # the same size in single precision
            o = A.call("size:%s:%s" % (lo.dtype, tag), what + " [%s]" % lo.dtype, rep, fn, lo, s)
            A.value("single-large", "size:%s:%s" % (lo.dtype, tag), what + " on %s data differs" % lo.dtype, dict(rep, dtype=str(lo.dtype)), o, exp, F32TOL)
            if name not in ("ft", "ft2"):
                continue
            # clauses evaluated directly at this size: inverse pair through the library's own inverse, Parseval, the explicit kernel
            # (n ≤ 1024), an off-centre impulse (analytic linear phase), square frames only for the clauses that need ONE δ_f
            inv = dict(A.entries["ift" if dims == 1 else "ift2"]).get(ename) or A.entries["ift" if dims == 1 else "ift2"][0][1]
            df = 1.0 / (n * s)
            back = A.call("size:inverse:" + tag, what, rep, inv, out, df)
            A.value("inverse-large", "size:inverse:" + tag, "%s.i%s(%s(x,δ),1/(nδ)) ≠ x for shape %s" % (ename, name, name, shape), rep, back, inp.astype(complex), TIGHT)
            square = dims == 1 or shape[-1] == shape[-2]
            ax = tuple(range(-dims, 0))
            if square:
                lhs, rhs = (numpy.abs(inp) ** 2).sum(ax) * s ** dims, (numpy.abs(out) ** 2).sum(ax) * df ** dims
                A.value("parseval-large", "size:parseval:" + tag, "Parseval fails per frame for shape %s" % (shape,), rep, rhs, lhs, TIGHT)
            if max(shape[-dims:]) <= 1024 and inp.size <= (70000 if quick else 1 << 18):
                A.value("kernel-large", "size:centred:" + tag, what + " differs from δ^d Σ x e^{-2πi (j-c)(k-c)/n}", rep, out, kernel_ref(inp, s, dims), 1e-10)
            pos = tuple(r.randrange(k) for k in shape)
            imp = numpy.zeros(shape, dtype=complex)
            imp[pos] = 2.0 - 1.0j
            o = A.call("size:impulse:" + tag, what, rep, fn, imp, s)
            ph = numpy.exp(-2j * numpy.pi * (((pos[-1] - n // 2) * (numpy.arange(n) - n // 2)) % n) / n)
            if dims == 2:
                m_ = shape[-2]
                ph = numpy.exp(-2j * numpy.pi * (((pos[-2] - m_ // 2) * (numpy.arange(m_) - m_ // 2)) % m_) / m_)[:, None] * ph[None, :]
            ana = numpy.zeros(shape, dtype=complex)
            ana[pos[:-dims]] = (2.0 - 1.0j) * s ** dims * ph
            A.value("impulse-large", "size:impulse:" + tag, "an impulse at sample %s of a %s array does not map to the linear phase about the centre "
                    "sample (and zero in the other frames)" % (pos, shape), dict(rep, impulse=list(pos)), o, ana, 1e-10)


def audit_spacings(A, nprng):
    """degree of homogeneity in the spacing over a call HISTORY on one shape (a result remembered per shape would show), extreme
    spacings, and a weak imaginary part on a field of order one"""
    chk, quick = A.chk, A.quick
    r = chk.rng
    for name in NAMES:
        dims = DIMS[name]
        real_variant = name in ("rft", "irft", "rft2", "irft2")
        for ename, fn in A.entries[name]:
            for rnd in range(2 if quick else 8):
                n = r.choice([4, 6, 8, 16]) if real_variant else r.choice([3, 4, 7, 8, 16])
                shape = r.choice([(), (3,), (2, 3)]) + (n,) * dims
                sub = r.getrandbits(32)
                inp, unit = make_case(sub, name, shape, 1.0)
                # (for irft/irft2 `inp` is the reference half-spectrum built for δ_f = 1, so irft(inp, s) = s^dims · x)
                far = [1e-100, 1e100] if dims == 1 else [1e-70, 1e70]
                r.shuffle(far)
                seq = [r.choice([0.5, 3.0, 0.1]), 1.0] + far + [r.choice([2.5, 1e-6, 1e6]), 1.0, r.choice([1e-300, 1e300] if dims == 1 else [1e-150, 1e150])]
                tag = "%s:%s" % (name, ename)
                chk.oracle_cases += 1
                chk.count("audit:spacing-history:%s" % name)
                chk.case(("audit-spacing-history", name, ename, shape, tuple(seq)))
                for i, s in enumerate(seq):
                    rep = dict(function=name, entry=ename, shape=list(shape), data_seed=sub, spacings_in_call_order=seq[:i + 1])
                    what = "%s.%s(x, %r) after calls with spacings %s on the same %s array" % (ename, name, s, seq[:i], shape)
                    o = A.call("spacing:" + tag, what, rep, fn, inp, s)
                    if o is None:
                        continue
                    # compare in units of the spacing factor so that 1e±300 neither overflows nor loses the comparison
                    fac = float(s) ** dims
                    with numpy.errstate(all="ignore"):
                        A.value("spacing", "spacing:" + tag, what + " is not spacing^%d times the transform at unit spacing" % dims, rep,
                                numpy.asarray(o) / fac, unit, TIGHT)
    # weak imaginary part on a field of order one: x = a + iεb, ε = 1e-8; the part of the result that is due to b must be there
    eps = 1e-8
    for name in ("ft", "ift", "ft2", "ift2"):
        dims = DIMS[name]
        for ename, fn in A.entries[name]:
            for rnd in range(2 if quick else 8):
                n = r.choice([4, 5, 8, 9, 16])
                shape = r.choice([(), (3,)]) + (n,) * dims
                s = r.choice([1.0, 0.5, 0.25])
                sub = r.getrandbits(32)
                g = numpy.random.default_rng(sub)
                a, b = g.normal(size=shape), g.normal(size=shape)
                x = a + 1j * eps * b
                rep = dict(function=name, entry=ename, shape=list(shape), spacing=s, data_seed=sub, epsilon=eps,
                           data="g=default_rng(data_seed); a=g.normal(size=shape); b=g.normal(size=shape); x=a+1j*epsilon*b")
                tag = "%s:%s" % (name, ename)
                chk.oracle_cases += 1
                chk.count("audit:weak-imaginary:%s" % name)
                chk.case(("audit-weak-imag", name, ename, shape, s))
                o = A.call("weak-imaginary:" + tag, "%s.%s on a+iεb" % (ename, name), rep, fn, x, s)
                if o is None:
                    continue
                part = (numpy.asarray(o) - ref4(name, a, s)) / eps
                A.value("weak-imaginary", "weak-imaginary:" + tag, "%s.%s(a+iεb) − T(a) ≠ iε·T(b) for ε=1e-8 on a %s array (the weak imaginary "
                        "part of the input is lost or distorted)" % (ename, name, shape), rep, part, ref4(name, 1j * b, s), WEAK)
                if not numpy.iscomplexobj(o):
                    chk.fail("dtype:%s:real-result" % tag, "%s.%s returned a real array (dtype %s) for a complex input" % (ename, name, numpy.asarray(o).dtype), rep)
                # the other side: an order-one complex field whose TRANSFORM is a + iεb (an almost Hermitian spectrum, the transform of an
                # almost real field): the weak imaginary part of the result must be there, and the result stays a complex array
                other = {"ft": "ift", "ift": "ft", "ft2": "ift2", "ift2": "ft2"}[name]
                xin = ref4(other, x, 1.0 / (n * s))
                rep2 = dict(rep, data=rep["data"] + "; input = centred %s of x at spacing 1/(n*spacing)" % other)
                o = A.call("weak-imaginary-result:" + tag, "%s.%s on the %s of a+iεb" % (ename, name, other), rep2, fn, xin, s)
                if o is None:
                    continue
                A.value("weak-imaginary", "weak-imaginary-result:" + tag, "%s.%s of a field whose transform is a+iεb (ε=1e-8, %s array): the weak "
                        "imaginary part of the result is lost or distorted" % (ename, name, shape), rep2, (numpy.asarray(o) - a) / eps, 1j * b, WEAK)
                if not numpy.iscomplexobj(o):
                    chk.fail("dtype:%s:real-result" % tag, "%s.%s returned a real array (dtype %s) for a complex input" % (ename, name, numpy.asarray(o).dtype), rep2)


def audit_gauss2(A, nprng):
    """2-D: centred Gaussian → analytic Gaussian, shift by (k,l) samples → the matching linear phase (the 1-D clauses of the section
    above, through ft2 and its package-level name, incl. a stack)"""
    chk = A.chk
    for n in ([16, 17, 32, 33] if A.quick else [9, 12, 16, 17, 25, 32, 33, 64, 65]):
        c = n // 2
        d = 0.25
        t = (numpy.arange(n) - c) * d
        f = (numpy.arange(n) - c) / (n * d)
        sig = n * d / 8.0
        g1 = numpy.exp(-t ** 2 / (2 * sig ** 2))
        a1 = sig * numpy.sqrt(2 * numpy.pi) * numpy.exp(-2 * (numpy.pi * sig * f) ** 2)
        g2, a2 = numpy.outer(g1, g1), numpy.outer(a1, a1)
        for ename, fn in A.entries["ft2"]:
            chk.oracle_cases += 1
            chk.case(("audit-gauss2", n, ename))
            rep = dict(function="ft2", entry=ename, n=n, delta=d, sigma=sig)
            G = A.call("gaussian:ft2:" + ename, "ft2 of a centred Gaussian", rep, fn, numpy.stack([g2, 2 * g2, g2]), d)
            A.value("gauss2", "gaussian:ft2:%s:%s" % (ename, "odd" if n % 2 else "even"), "a stack of centred %dx%d Gaussians does not map to the "
                    "analytic Gaussians" % (n, n), rep, G, numpy.stack([a2, 2 * a2, a2]).astype(complex), GAUSS2)
            k, l = chk.rng.randrange(n), chk.rng.randrange(n)
            x = nprng.normal(size=(n, n)) + 1j * nprng.normal(size=(n, n))
            X = A.call("shift:ft2:" + ename, "ft2", rep, fn, x, d)
            Xs = A.call("shift:ft2:" + ename, "ft2", rep, fn, numpy.roll(x, (k, l), (0, 1)), d)
            if X is not None and Xs is not None:
                ph = numpy.exp(-2j * numpy.pi * k * (numpy.arange(n) - c) / n)[:, None] * numpy.exp(-2j * numpy.pi * l * (numpy.arange(n) - c) / n)[None, :]
                A.value("shift2", "shift:ft2:%s:%s" % (ename, "odd" if n % 2 else "even"), "a shift by (%d,%d) samples of a %dx%d field is not the "
                        "matching linear phase" % (k, l, n, n), dict(rep, shift=[k, l]), Xs, ph * X, 1e-10)


def oracle_audit(chk, F, pkg, quick):
    nprng = numpy.random.default_rng(chk.rng.getrandbits(32))
    A = Audit(chk, F, pkg, quick)
    audit_presentations(A, nprng)
    audit_sizes(A, nprng)
    audit_spacings(A, nprng)
    audit_gauss2(A, nprng)
    chk.notes.append("round-5 audit, worst observed error / tolerance per family: " + ", ".join("%s=%.2g" % kv for kv in sorted(A.obs.items())))


def kernel_contract(chk):
    """numpy.fft is the naive DFT and fft2 = nested 1-D transforms (the model's assumption about the external kernel)"""
    nprng = numpy.random.default_rng(7)
    for n in (1, 2, 3, 5, 8, 9):
        x = nprng.normal(size=(n, n)) + 1j * nprng.normal(size=(n, n))
        j = numpy.arange(n)
        W = numpy.exp(-2j * numpy.pi * numpy.outer(j, j) / n)
        if numpy.abs(numpy.fft.fft(x[0]) - x[0] @ W).max() > 1e-9 * n * 4 or \
                numpy.abs(numpy.fft.fft2(x) - W @ x @ W).max() > 1e-9 * n * n * 4 or \
                numpy.abs(numpy.fft.ifft(numpy.fft.fft(x[0])) - x[0]).max() > 1e-9 * 4:
            chk.broke("correspondence", "numpy.fft does not meet the DFT contract at n=%d" % n)


def run(chk):
    quick = chk.tier == "quick"
    chk.rule = ("correspondence: Lean model at binary64 vs fouriertransform.* and aotools.* for all n in 1..33 (thorough: to 129), "
                "batch shapes (),(3,),(2,3), integer/dyadic/gaussian data, several δ, tol 1e-9·scale; rft/irft even n ≤ 32, rft2 even n ≤ 8, "
                "irft2 on genuine square and non-square half-spectra; oracle: the clauses of the property "
                "on the real code; distinct = distinct (op, n, δ, data kind, batch, entry point); round-5 audit: all eight functions on "
                "the same values as other dtypes (bool, (u)int8…64, single precision, big-endian), layouts (Fortran, strided, negative "
                "stride, read-only, stride-0 stack), spacing types (int, NumPy scalars, 0-d arrays), keyword calls, sizes to 2^18 per "
                "transform / per stack, spacing histories on one shape, caller's input and earlier results re-used, weak imaginary "
                "parts, 2-D Gaussian / shift; references: numpy.roll around numpy.fft at 1e-12, explicit kernel and analytic impulses at 1e-10")
    chk.assumptions = ["numpy.fft kernels = naive DFT sums (contract checked numerically each run)",
                       "closeness of the sampled Gaussian's transform to the analytic Gaussian is numeric only (bound 2e-3·peak for σ = nδ/8)",
                       "real-input variants: proved for even n only (1-D and n×n); odd n is an open finding. numpy's rfft/irfft are "
                       "modelled as bins 0..n/2 of the DFT / the inverse DFT of the Hermitian completion; the model keeps the imaginary "
                       "parts of the DC/Nyquist bins that numpy drops, so model = code only on half-spectra with real DC/Nyquist "
                       "(correspondence runs on genuine half-spectra; irft_real proves the model's output real exactly there)",
                       "non-square inputs of rft2 and batch dimensions of the real variants are not modelled (irft2 is: N×m, "
                       "N = shape[-2] on both scale factors)"]
    import types
    import aotools
    from aotools import fouriertransform as F
    chk.build_and_audit("AoVerif.Props.C09", "AoVerif.Props.C09", REQUIRED)
    # the eight transforms must be reachable under both names the property speaks of; a missing export is a failing input of its own
    # (and must not crash the sections below: the package-level namespace handed to them falls back to the module's function)
    gone = [nm for nm in NAMES if not callable(getattr(F, nm, None))]
    for nm in gone:
        chk.fail("export:fouriertransform.%s:missing" % nm, "aotools.fouriertransform.%s does not exist (or is not callable)" % nm, {"name": nm})
    if gone:
        return
    for nm in NAMES:
        if not callable(getattr(aotools, nm, None)):
            chk.fail("export:aotools.%s:missing" % nm, "the package does not export %s (aotools.%s is %r)" % (nm, nm, getattr(aotools, nm, None)), {"name": nm})
    aotools = types.SimpleNamespace(**{nm: getattr(aotools, nm) if callable(getattr(aotools, nm, None)) else getattr(F, nm) for nm in NAMES})
    kernel_contract(chk)
    try:
        correspondence(chk, F, aotools, quick)
    except common.LeanError as ex:
        chk.broke("correspondence", "driver failed", str(ex))
    oracle(chk, F, aotools, quick)
    oracle_audit(chk, F, aotools, quick)
