"""C09 — scaled Fourier transforms are exact inverse pairs obeying Parseval."""
import numpy

from .. import common

MANIFEST = {
    "text": "Lean 4 theorems for EVERY length n>=1 (odd and even) over any field with a primitive n-th root of unity (C with "
            "e^{-2 pi i/n} is an instance): ft is the centred DFT with origin at sample n/2, ift(ft x)=x and ft(ift X)=X when "
            "delta_f=1/(n delta), linearity, shift theorem, bilinear Plancherel and Parseval over C, ift2(ft2 x)=x, ft2(ift2 X)=X, "
            "2-D Parseval; real-input variants for even n: irft(rft x)=x, rft(irft H)=H, irft2(rft2 x)=x, rft2(irft2 H)=H, Parseval on "
            "the n/2+1 (resp. n x (n/2+1)) bins with weight 1 at the explicit positions of DC and Nyquist after the shift. The model "
            "(Model/Fourier.lean) is hand-written and tied to aotools.fouriertransform and to the package-level names by running the "
            "same Lean definitions at binary64 against the real functions on all lengths 1..33, batch shapes, real/complex data; "
            "oracles evaluate inverse pair / Parseval / linearity / shift / centred-origin / real-variant clauses on the real code.",
    "note": "Trusted: Lean kernel + standard axioms; numpy.fft.fft/ifft/fft2 = the naive DFT sums and fft2 = nested 1-D transforms "
            "(checked numerically each run to 1e-9); rfft/irfft = bins 0..n/2 of the DFT / inverse DFT of the Hermitian completion "
            "(the model keeps the imaginary parts of the DC and Nyquist bins that numpy's C2R drops: equal on half-spectra with real "
            "DC/Nyquist, the domain of irft, where the model's output is proved real); binary64 rounding not modelled. Real-input "
            "variants are proved for even n (1-D and n x n); odd n is an open finding (API cannot know the length).",
    "technique": "Lean 4 proof (roots of unity, induction-free algebra over Finset sums) + differential correspondence with the real code",
}
REQUIRED = ["ft_centred", "ift_ft", "ft_ift", "ft_linear", "ift_linear", "shift_theorem", "plancherel", "ift2_ft2",
            "parseval", "fft_root_primitive", "irft_rft",
            # round 2: the real-input variants and the remaining 2-D clauses
            "rft_dc", "rft_nyquist", "parseval_half", "irft2_rft2", "parseval_half2", "ft2_ift2", "parseval2",
            "irft_real", "rft_irft", "rft2_irft2"]


def dc_pos(n):
    """position of the DC bin in rft's output (Props.C09.dcPos)"""
    return (n // 2 + 1) // 2


def nyq_pos(n):
    """position of the Nyquist bin in rft's output for even n (Props.C09.nyqPos)"""
    return (n // 2 + 1) // 2 - 1


def half_weights(n):
    """Props.C09.halfWeight: 1 at the two self-conjugate bins, 2 elsewhere"""
    w = numpy.full(n // 2 + 1, 2.0)
    w[dc_pos(n)] = 1.0
    w[nyq_pos(n)] = 1.0
    return w
TOL = 1e-9


def cplx_line(op, n, d, arr):
    flat = numpy.asarray(arr, dtype=complex).ravel()
    return "C09 %s %d %s %s" % (op, n, common.f2h(d), " ".join(common.f2h(v) for z in flat for v in (z.real, z.imag)))


def parse_c(ans, shape):
    return numpy.array([common.h2f(h) for h in ans.split()]).view(complex).reshape(shape)


def rand_field(nprng, shape, kind):
    if kind == "real":
        return nprng.integers(-8, 9, size=shape).astype(float)
    if kind == "dyadic":
        return (nprng.integers(-64, 65, size=shape) + 1j * nprng.integers(-64, 65, size=shape)) / 8.0
    return nprng.normal(size=shape) + 1j * nprng.normal(size=shape)


def correspondence(chk, F, pkg, quick):
    nprng = numpy.random.default_rng(chk.rng.getrandbits(32))
    lines, expect, desc = [], [], []
    ns1 = list(range(1, 34)) + ([] if quick else [47, 64, 65, 100, 128, 129])
    ns2 = [1, 2, 3, 4, 5, 6, 7, 8, 9, 12] + ([] if quick else [10, 11, 13, 15, 16, 17, 20, 21])
    for n in ns1:
        for op, fn, pk in (("ft", F.ft, pkg.ft), ("ift", F.ift, pkg.ift)):
            kind = chk.rng.choice(["real", "dyadic", "gauss"])
            batch = chk.rng.choice([(), (), (3,), (2, 3)])
            d = chk.rng.choice([1.0, 0.5, 0.125, 2.0, 0.3])
            x = rand_field(nprng, batch + (n,), kind)
            impl = fn(x, d)
            impl_pkg = pk(x, d)
            chk.count("corr:%s:%s:batch%d" % (op, "odd" if n % 2 else "even", len(batch)))
            for idx in numpy.ndindex(*batch):
                lines.append(cplx_line(op, n, d, x[idx]))
                expect.append((impl[idx], impl_pkg[idx], numpy.abs(x[idx]).max() * (n if op == "ft" else 1) * max(d, 1) + 1e-300))
                desc.append((op, n, d, kind, batch))
    for n in ns2:
        for op, fn, pk in (("ft2", F.ft2, pkg.ft2), ("ift2", F.ift2, pkg.ift2)):
            kind = chk.rng.choice(["real", "dyadic", "gauss"])
            batch = chk.rng.choice([(), (), (2,)])
            d = chk.rng.choice([1.0, 0.5, 0.25, 2.0])
            x = rand_field(nprng, batch + (n, n), kind)
            impl, impl_pkg = fn(x, d), pk(x, d)
            chk.count("corr:%s:%s:batch%d" % (op, "odd" if n % 2 else "even", len(batch)))
            for idx in numpy.ndindex(*batch):
                lines.append(cplx_line(op, n, d, x[idx]))
                expect.append((impl[idx], impl_pkg[idx], numpy.abs(x[idx]).max() * (n * n if op == "ft2" else 1) * max(d * d, 1) + 1e-300))
                desc.append((op, n, d, kind, batch))
    # real-input variants, even lengths (the model mirrors the code's shifts of the half-spectrum)
    for n in [2, 4, 6, 8, 10, 16, 32]:
        x = rand_field(nprng, (n,), "real")
        d = chk.rng.choice([1.0, 0.5, 0.25])
        lines.append(cplx_line("rft", n, d, x))
        e = F.rft(x, d)
        expect.append((e, pkg.rft(x, d), numpy.abs(x).max() * n * max(d, 1) + 1e-300))
        desc.append(("rft", n, d, "real", ()))
        H = F.rft(rand_field(nprng, (n,), "real"), 1.0)      # a genuine half-spectrum (the domain of irft)
        m = len(H)
        lines.append(cplx_line("irft", m, d, H))
        e = F.irft(H, d).astype(complex)
        expect.append((e, pkg.irft(H, d).astype(complex), numpy.abs(H).max() * max(d, 1) * 2 + 1e-300))
        desc.append(("irft", m, d, "half-spectrum", ()))
    # 2-D real-input variants: rft2 on real n×n (even n ≤ 8), irft2 on genuine half-spectra — square (the domain of the
    # theorem irft2_rft2) and non-square N×m ones (the model takes N = data.shape[-2] for BOTH scale factors, as the code does)
    for n in [2, 4, 6, 8]:
        x = rand_field(nprng, (n, n), "real")
        d = chk.rng.choice([1.0, 0.5, 0.25, 2.0])
        lines.append(cplx_line("rft2", n, d, x))
        e = F.rft2(x, d)
        expect.append((e, pkg.rft2(x, d), numpy.abs(x).max() * n * n * max(d * d, 1) + 1e-300))
        desc.append(("rft2", n, d, "real", ()))
        chk.count("corr:rft2:even:batch0")
    for (N, L) in [(2, 2), (4, 4), (6, 6), (8, 8), (3, 4), (4, 6), (5, 2), (6, 4), (2, 8), (7, 6)]:
        d = chk.rng.choice([1.0, 0.5, 0.25])
        H = F.rft2(rand_field(nprng, (N, L), "real"), 1.0)   # a genuine N × (L/2+1) half-spectrum
        lines.append(cplx_line("irft2", N, d, H))
        e = F.irft2(H, d).astype(complex)
        expect.append((e, pkg.irft2(H, d).astype(complex), numpy.abs(e).max() + 1e-300))
        desc.append(("irft2", N, d, "half-spectrum %dx%d" % H.shape, ()))
        chk.count("corr:irft2:%s" % ("square" if N == L else "nonsquare"))
    # phasescreen.ift2 (2-D, no batch, even and odd): a different function with its own model
    from aotools.turbulence import phasescreen
    for n in [2, 3, 4, 5, 6, 8]:
        x = rand_field(nprng, (n, n), "dyadic")
        lines.append(cplx_line("ift2ps", n, 0.5, x))
        e = phasescreen.ift2(x, 0.5)
        expect.append((e, e, numpy.abs(x).max() + 1e-300))
        desc.append(("ift2ps", n, 0.5, "dyadic", ()))
    ans = common.run_driver(lines, "C09")
    nbad = 0
    for a, (e, epkg, scale), ds in zip(ans, expect, desc):
        chk.corr_cases += 1
        chk.case(("corr",) + ds, sample={"op": ds[0], "n": ds[1], "delta": ds[2], "data": ds[3], "batch": list(ds[4])})
        if a == "bad-op":
            chk.broke("correspondence", "driver rejected %s n=%d" % (ds[0], ds[1]))
            continue
        m = parse_c(a, e.shape)
        for who, ee in (("fouriertransform." + ds[0], e), ("aotools." + ds[0], epkg)):
            if ee.shape != m.shape or numpy.abs(m - ee).max() > TOL * scale:
                nbad += 1
                if nbad <= 4:
                    chk.broke("correspondence", "model %s differs from %s at n=%d delta=%r batch=%s (max err %.3g, scale %.3g)"
                              % (ds[0], who, ds[1], ds[2], ds[4], float(numpy.abs(m - ee).max()) if ee.shape == m.shape else -1, scale))


def oracle(chk, F, pkg, quick):
    nprng = numpy.random.default_rng(chk.rng.getrandbits(32))
    ns = list(range(1, 34)) + [64, 65] + ([] if quick else [100, 127, 128, 255, 256, 257])
    entries = (("fouriertransform", F), ("aotools", pkg))

    def bad(key, what, **rep):
        chk.fail(key, what, rep)

    for n in ns:
        par = "odd" if n % 2 else "even"
        c = n // 2
        for ename, M in entries:
            for batch in ((), (3,), (2, 2)):
                chk.oracle_cases += 1
                d = chk.rng.choice([1.0, 0.5, 0.1, 3.0])
                df = 1.0 / (n * d)
                x = rand_field(nprng, batch + (n,), chk.rng.choice(["real", "gauss"]))
                y = rand_field(nprng, batch + (n,), "gauss")
                sc = numpy.abs(x).max() + 1e-300
                bk = "batch" if batch else "single"
                chk.case(("oracle1", n, ename, batch), sample={"n": n, "entry": ename, "batch": list(batch), "delta": d} if n in (5, 8) else None)
                X = M.ft(x, d)
                back = M.ift(X, df)
                if back.shape != x.shape or numpy.abs(back - x).max() > TOL * sc:
                    bad("inverse:ift∘ft:%s:%s:%s" % (ename, par, bk), "%s.ift(ft(x,δ),1/(nδ)) ≠ x for n=%d batch=%s δ=%r (err %.3g)"
                        % (ename, n, batch, d, float(numpy.abs(back - x).max()) if back.shape == x.shape else -1), n=n, batch=batch, delta=d, x=x.tolist())
                fwd = M.ft(M.ift(x, df), d)
                if fwd.shape != x.shape or numpy.abs(fwd - x).max() > TOL * sc:
                    bad("inverse:ft∘ift:%s:%s:%s" % (ename, par, bk), "%s.ft(ift(X,1/(nδ)),δ) ≠ X for n=%d batch=%s" % (ename, n, batch),
                        n=n, batch=batch, delta=d, x=x.tolist())
                # Parseval
                lhs, rhs = (numpy.abs(x) ** 2).sum(-1) * d, (numpy.abs(X) ** 2).sum(-1) * df
                if numpy.abs(lhs - rhs).max() > TOL * (numpy.abs(lhs).max() + 1e-300):
                    bad("parseval:ft:%s:%s" % (ename, par), "Σ|x|²δ ≠ Σ|X|²δ_f for n=%d (%s)" % (n, ename), n=n, delta=d, x=x.tolist())
                # linearity
                a, b = 1.5 - 0.5j, -0.25 + 2j
                if numpy.abs(M.ft(a * x + b * y, d) - (a * X + b * M.ft(y, d))).max() > TOL * n * 4 * max(sc, numpy.abs(y).max()) * max(d, 1):
                    bad("linear:ft:%s" % ename, "ft not linear at n=%d" % n, n=n, delta=d)
                # centred origin: X_k = δ Σ_j x_j e^{-2πi (j-c)(k-c)/n}
                j = numpy.arange(n)
                ker = numpy.exp(-2j * numpy.pi * numpy.outer(j - c, j - c) / n)
                ref = d * numpy.einsum("...j,jk->...k", x, ker)
                if numpy.abs(X - ref).max() > TOL * n * sc * max(d, 1):
                    bad("centred:ft:%s:%s" % (ename, par), "%s.ft does not put the origin at the centre sample n//2 for n=%d (err %.3g)"
                        % (ename, n, float(numpy.abs(X - ref).max())), n=n, delta=d, x=x.tolist())
                refi = df * numpy.einsum("...k,kj->...j", x, numpy.conj(ker))
                if numpy.abs(M.ift(x, df) - refi).max() > TOL * n * sc * max(df, 1):
                    bad("centred:ift:%s:%s" % (ename, par), "%s.ift does not put the origin at the centre sample n//2 for n=%d" % (ename, n),
                        n=n, delta_f=df, x=x.tolist())
                # shift theorem
                s = chk.rng.randrange(0, n)
                Xs = M.ft(numpy.roll(x, s, axis=-1), d)
                if numpy.abs(Xs - numpy.exp(-2j * numpy.pi * s * (j - c) / n) * X).max() > TOL * n * sc * max(d, 1):
                    bad("shift:ft:%s:%s" % (ename, par), "shift by %d samples is not the matching linear phase, n=%d" % (s, n), n=n, s=s, x=x.tolist())
                # stack = frames
                if batch:
                    for idx in numpy.ndindex(*batch):
                        if numpy.abs(X[idx] - M.ft(x[idx], d)).max() > TOL * n * sc * max(d, 1):
                            bad("batch:ft:%s" % ename, "ft of a stack differs from ft of the frame, n=%d batch=%s" % (n, batch), n=n, batch=batch)
                            break
        # centred Gaussian -> (real, even) spectrum close to the analytic Gaussian (bounded discretisation error)
        if n >= 9:
            d = 0.25
            t = (numpy.arange(n) - c) * d
            sig = n * d / 8.0
            g = numpy.exp(-t ** 2 / (2 * sig ** 2))
            f = (numpy.arange(n) - c) / (n * d)
            ana = sig * numpy.sqrt(2 * numpy.pi) * numpy.exp(-2 * (numpy.pi * sig * f) ** 2)
            for ename, M in entries:
                G = M.ft(g, d)
                if numpy.abs(G - ana).max() > 2e-3 * ana.max():
                    bad("gaussian:ft:%s:%s" % (ename, par), "centred Gaussian does not map to the analytic Gaussian for n=%d (err %.3g, imag %.3g)"
                        % (n, float(numpy.abs(G - ana).max()), float(numpy.abs(G.imag).max())), n=n)
    # amplitude classes: the transforms are linear, so every clause holds with the same RELATIVE accuracy for a field of amplitude
    # 1e-24 or 1e+20 and for tiny / huge sample spacings (nothing in them may compare a value with an absolute threshold)
    for amp in (1e-17, 1e-24, 1e-150, 1e20, 1e150):
        for ename, M in entries:
            for dims, fwd_, inv_ in ((1, M.ft, M.ift), (2, M.ft2, M.ift2)):
                n = chk.rng.choice([4, 7, 8, 16] if dims == 1 else [3, 4, 8])
                batch = chk.rng.choice([(), (3,)])
                d = chk.rng.choice([1.0, 1e-6, 1e6, 0.37])
                df = 1.0 / (n * d)
                x = amp * rand_field(nprng, batch + (n,) * dims, "gauss")
                sc = float(numpy.abs(x).max())
                chk.oracle_cases += 1
                chk.count("oracle:amplitude-class:%g" % amp)
                chk.case(("oracle-amplitude", amp, ename, dims, n, batch, d))
                rep = dict(n=n, dims=dims, batch=list(batch), delta=d, amplitude=amp, entry=ename)
                name = "ft" if dims == 1 else "ft2"
                with numpy.errstate(all="ignore"):
                    X = fwd_(x, d)
                    back = inv_(X, df)
                    back2 = fwd_(inv_(x, df), d)
                    hom = inv_((0.3 - 1.7j) * x, df)
                    base = inv_(x, df)
                if back.shape != x.shape or not numpy.abs(back - x).max() <= TOL * sc:
                    bad("inverse:i%s∘%s:%s:amplitude" % (name, name, ename), "%s.i%s(%s(x)) ≠ x for a field of amplitude %g (n=%d, δ=%g): relative "
                        "error %.3g" % (ename, name, name, amp, n, d, float(numpy.abs(back - x).max()) / sc if back.shape == x.shape else -1), **rep)
                if back2.shape != x.shape or not numpy.abs(back2 - x).max() <= TOL * sc:
                    bad("inverse:%s∘i%s:%s:amplitude" % (name, name, ename), "%s.%s(i%s(X)) ≠ X for a spectrum of amplitude %g (n=%d, δ_f=%g): "
                        "relative error %.3g" % (ename, name, name, amp, n, df, float(numpy.abs(back2 - x).max()) / sc if back2.shape == x.shape else -1), **rep)
                if not numpy.abs(hom - (0.3 - 1.7j) * base).max() <= TOL * 4 * float(numpy.abs(base).max() + 1e-300):
                    bad("linear:i%s:%s:amplitude" % (name, ename), "%s.i%s(c·X) ≠ c·i%s(X) for a spectrum of amplitude %g (n=%d)" % (ename, name, name, amp, n), **rep)
                ax = tuple(range(-dims, 0))
                lhs, rhs = (numpy.abs(x / sc) ** 2).sum(ax) * d ** dims, (numpy.abs(X / sc) ** 2).sum(ax) * df ** dims
                if not numpy.abs(lhs - rhs).max() <= TOL * float(numpy.abs(lhs).max()):
                    bad("parseval:%s:%s:amplitude" % (name, ename), "Parseval fails for a field of amplitude %g (n=%d, δ=%g)" % (amp, n, d), **rep)
    # large stacks: the same clauses per frame when the whole stack is big (4 frames of 256², 3 of 300²) — a code path chosen by total size
    for batch, n in (((4,), 256), ((3,), 300)) if quick else (((4,), 256), ((3,), 300), ((2, 3), 210), ((5,), 256)):
        for ename, M in entries[:1] if quick else entries:
            d = 0.5
            df = 1.0 / (n * d)
            x = rand_field(nprng, batch + (n, n), "gauss")
            chk.oracle_cases += 1
            chk.count("oracle:large-stack")
            chk.case(("oracle-large-stack", batch, n, ename))
            X = M.ft2(x, d)
            idx = tuple(chk.rng.randrange(b) for b in batch)
            one = M.ft2(x[idx].copy(), d)
            sc = float(numpy.abs(one).max())
            rep = dict(n=n, batch=list(batch), delta=d, entry=ename, frame=list(idx))
            if X.shape != x.shape or not numpy.abs(X[idx] - one).max() <= TOL * sc:
                bad("batch:ft2:%s:large-stack" % ename, "%s.ft2 of a %s stack of %dx%d frames: frame %s differs from ft2 of that frame alone by %.3g "
                    "(scale %.3g)" % (ename, batch, n, n, idx, float(numpy.abs(X[idx] - one).max()) if X.shape == x.shape else -1, sc), **rep)
                continue
            lhs, rhs = (numpy.abs(x) ** 2).sum((-1, -2)) * d * d, (numpy.abs(X) ** 2).sum((-1, -2)) * df * df
            if not numpy.abs(lhs - rhs).max() <= TOL * float(numpy.abs(lhs).max()):
                bad("parseval:ft2:%s:large-stack" % ename, "per-frame Parseval fails for a %s stack of %dx%d frames" % (batch, n, n), **rep)
            Y = M.ift2(x, df)
            onei = M.ift2(x[idx].copy(), df)
            if Y.shape != x.shape or not numpy.abs(Y[idx] - onei).max() <= TOL * float(numpy.abs(onei).max()):
                bad("batch:ift2:%s:large-stack" % ename, "%s.ift2 of a %s stack of %dx%d frames: frame %s differs from ift2 of that frame alone"
                    % (ename, batch, n, n, idx), **rep)
    # 2-D
    for n in [1, 2, 3, 4, 5, 6, 7, 8, 9, 16, 17] + ([] if quick else [31, 32, 33, 64]):
        par = "odd" if n % 2 else "even"
        for ename, M in entries:
            for batch in ((), (3,), (2, 2)):
                chk.oracle_cases += 1
                d = chk.rng.choice([1.0, 0.5, 0.1])
                df = 1.0 / (n * d)
                x = rand_field(nprng, batch + (n, n), chk.rng.choice(["real", "gauss"]))
                sc = numpy.abs(x).max() + 1e-300
                bk = "batch" if batch else "single"
                chk.case(("oracle2", n, ename, batch))
                try:
                    back = M.ift2(M.ft2(x, d), df)
                    err = float(numpy.abs(back - x).max()) if back.shape == x.shape else float("inf")
                except Exception as ex:
                    err, back = float("inf"), ex
                if not err <= TOL * sc:
                    bad("inverse:ift2∘ft2:%s:%s:%s" % (ename, par, bk), "%s.ift2(ft2(x,δ),1/(nδ)) ≠ x for n=%d batch=%s (err %s)"
                        % (ename, n, batch, err), n=n, batch=batch, delta=d)
                    continue
                try:
                    fwd = M.ft2(M.ift2(x, df), d)
                    err = float(numpy.abs(fwd - x).max()) if fwd.shape == x.shape else float("inf")
                except Exception:
                    err = float("inf")
                if not err <= TOL * sc:
                    bad("inverse:ft2∘ift2:%s:%s:%s" % (ename, par, bk), "%s.ft2(ift2(X)) ≠ X for n=%d batch=%s" % (ename, n, batch), n=n, batch=batch)
                X = M.ft2(x, d)
                lhs, rhs = (numpy.abs(x) ** 2).sum((-1, -2)) * d * d, (numpy.abs(X) ** 2).sum((-1, -2)) * df * df
                if numpy.abs(lhs - rhs).max() > TOL * (numpy.abs(lhs).max() + 1e-300):
                    bad("parseval:ft2:%s:%s" % (ename, par), "2-D Parseval fails for n=%d (%s)" % (n, ename), n=n)
                c = n // 2
                j = numpy.arange(n)
                ker = numpy.exp(-2j * numpy.pi * numpy.outer(j - c, j - c) / n)
                ref = d * d * numpy.einsum("...ab,ak,bl->...kl", x, ker, ker)
                if numpy.abs(X - ref).max() > TOL * n * n * sc * max(d * d, 1):
                    bad("centred:ft2:%s:%s" % (ename, par), "%s.ft2 origin is not the centre sample for n=%d" % (ename, n), n=n)
    # other input classes: single precision (tolerance of the data type, not of binary64), non-contiguous views, and non-square
    # 2-D arrays (the inverse pair holds with delta_f = 1/(N_last*delta); Parseval with ONE scalar delta_f is only meaningful for
    # square arrays, which is the domain used for it above)
    for ename, M in entries:
        for n in (4, 5, 8, 9, 16):
            chk.oracle_cases += 1
            chk.case(("oracle-classes", n, ename))
            d, df = 0.5, 1.0 / (n * 0.5)
            x32 = rand_field(nprng, (n,), "gauss").astype("complex64")
            r32 = rand_field(nprng, (n,), "gauss").real.astype("float32")
            for lab, x in (("complex64", x32), ("float32", r32)):
                back = M.ift(M.ft(x, d), df)
                if back.shape != x.shape or numpy.abs(back - x).max() > 200 * numpy.finfo("float32").eps * (numpy.abs(x).max() + 1e-30):
                    bad("inverse:ift∘ft:%s:%s" % (ename, lab), "%s.ift(ft(x)) ≠ x for %s data, n=%d (err %.3g)"
                        % (ename, lab, n, float(numpy.abs(back - x).max())), n=n, dtype=lab)
            big = rand_field(nprng, (3, 2 * n), "gauss")
            xv = big[:, ::2]                                   # a strided (non-contiguous) view
            if numpy.abs(M.ft(xv, d) - M.ft(numpy.ascontiguousarray(xv), d)).max() > TOL * n * (numpy.abs(xv).max() + 1e-300):
                bad("layout:ft:%s" % ename, "ft of a strided view differs from ft of its contiguous copy, n=%d" % n, n=n)
            xt = rand_field(nprng, (n, n), "gauss").T          # Fortran-ordered
            if numpy.abs(M.ft2(xt, d) - M.ft2(numpy.ascontiguousarray(xt), d)).max() > TOL * n * n * (numpy.abs(xt).max() + 1e-300):
                bad("layout:ft2:%s" % ename, "ft2 of a transposed view differs from ft2 of its contiguous copy, n=%d" % n, n=n)
        for (m_, n_) in ((4, 6), (6, 4), (3, 8), (5, 7)):
            chk.oracle_cases += 1
            chk.case(("oracle-nonsquare", m_, n_, ename))
            d = 0.5
            x = rand_field(nprng, (m_, n_), "gauss")
            back = M.ift2(M.ft2(x, d), 1.0 / (n_ * d))
            if back.shape != x.shape or numpy.abs(back - x).max() > TOL * (numpy.abs(x).max() + 1e-300):
                bad("inverse:ift2∘ft2:%s:nonsquare" % ename, "%s.ift2(ft2(x,δ),1/(N_last δ)) ≠ x for a %dx%d array" % (ename, m_, n_), shape=[m_, n_])
        # batched real variants
        for shape in ((3, 8), (2, 3, 6)):
            chk.oracle_cases += 1
            chk.case(("oracle-real-batch", shape, ename))
            x = nprng.normal(size=shape)
            n = shape[-1]
            back = M.irft(M.rft(x, 0.5), 1.0 / (n * 0.5))
            if back.shape != x.shape or numpy.abs(back - x).max() > TOL * numpy.abs(x).max():
                bad("real:irft∘rft:batch", "%s.irft(rft(x)) ≠ x for a stack of shape %s" % (ename, shape), shape=list(shape))
            for idx in numpy.ndindex(*shape[:-1]):
                if numpy.abs(M.rft(x, 0.5)[idx] - M.rft(x[idx], 0.5)).max() > TOL * n * numpy.abs(x).max():
                    bad("real:rft:batch", "rft of a stack differs from rft of the frame, shape %s" % (shape,), shape=list(shape))
                    break
        chk.oracle_cases += 1
        x = nprng.normal(size=(2, 6, 6))
        try:
            back = M.irft2(M.rft2(x, 0.5), 1.0 / (6 * 0.5))
            ok = back.shape == x.shape and numpy.abs(back - x).max() <= TOL * numpy.abs(x).max()
        except Exception:
            ok = False
        if not ok:
            bad("real:irft2∘rft2:batch", "%s.irft2(rft2(x)) ≠ x for a (2,6,6) stack" % ename, shape=[2, 6, 6])
    # real-input variants
    for n in list(range(2, 20)) + [32, 33]:
        par = "odd" if n % 2 else "even"
        for ename, M in entries:
            chk.oracle_cases += 1
            d = 0.5
            df = 1.0 / (n * d)
            x = nprng.normal(size=n)
            chk.case(("oracleR", n, ename))
            try:
                H = M.rft(x, d)
                back = M.irft(H, df)
                ok = back.shape == x.shape and numpy.abs(back - x).max() <= TOL * numpy.abs(x).max()
            except Exception:
                ok = False
            if not ok:
                bad("real:irft∘rft:%s" % par, "%s.irft(rft(x,δ),1/(nδ)) ≠ x for real x of length n=%d" % (ename, n), n=n, x=x.tolist())
            else:
                w = numpy.full(H.shape[-1], 2.0)
                full = M.ft(x, d)
                # half-spectrum Parseval: the bins that have no mirror partner (|X|² appears once in the full spectrum) weigh 1
                p_full = (numpy.abs(full) ** 2).sum() * df
                mags = numpy.sort(numpy.abs(H) ** 2)
                # weights: DC and (even n) Nyquist once, the others twice — identify by matching the full spectrum
                tot = None
                for i0 in range(len(H)):
                    for i1 in range(i0 + 1, len(H)):
                        ww = w.copy(); ww[i0] = 1; ww[i1] = 1
                        t = (ww * numpy.abs(H) ** 2).sum() * df
                        if abs(t - p_full) <= 1e-9 * p_full:
                            tot = t
                if n % 2 == 0 and tot is None:
                    bad("real:parseval:%s" % par, "half-spectrum Parseval fails for n=%d (%s)" % (n, ename), n=n)
                if n % 2 == 0:
                    # the same clause exactly as theorem parseval_half states it: weights by the explicit positions of DC and Nyquist
                    p_x = (x ** 2).sum() * d
                    t = (half_weights(n) * numpy.abs(H) ** 2).sum() * df
                    if abs(t - p_x) > TOL * p_x:
                        bad("real:parseval-layout:%s" % par, "Σx²δ ≠ δ_f Σ w_k|H_k|² with w=1 at positions %d (DC), %d (Nyquist) of %s.rft "
                            "for n=%d (%.12g vs %.12g)" % (dc_pos(n), nyq_pos(n), ename, n, p_x, t), n=n, x=x.tolist())
                    # rft_dc / rft_nyquist: the bins at those positions are Σx·δ and Σ(±1)^j x·δ (up to the sign of the shift)
                    if abs(H[dc_pos(n)] - x.sum() * d) > TOL * n * numpy.abs(x).max() or \
                            abs(abs(H[nyq_pos(n)]) - abs((x * (-1.0) ** numpy.arange(n)).sum() * d)) > TOL * n * numpy.abs(x).max():
                        bad("real:layout:%s" % par, "%s.rft does not put DC / Nyquist at positions %d / %d for n=%d"
                            % (ename, dc_pos(n), nyq_pos(n), n), n=n, x=x.tolist())
                    # the other composition on a genuine half-spectrum (theorem rft_irft)
                    H2 = M.rft(M.irft(H, df), d)
                    if H2.shape != H.shape or numpy.abs(H2 - H).max() > TOL * (numpy.abs(H).max() + 1e-300):
                        bad("real:rft∘irft:%s" % par, "%s.rft(irft(H,1/(nδ)),δ) ≠ H for a half-spectrum of a real signal, n=%d" % (ename, n), n=n)
        if n % 2 == 0 and n <= 16:
            for ename, M in entries:
                chk.oracle_cases += 1
                x = nprng.normal(size=(n, n))
                try:
                    back = M.irft2(M.rft2(x, 0.5), 1.0 / (n * 0.5))
                    ok = back.shape == x.shape and numpy.abs(back - x).max() <= TOL * numpy.abs(x).max()
                except Exception:
                    ok = False
                if not ok:
                    bad("real:irft2∘rft2:%s" % par, "%s.irft2(rft2(x)) ≠ x for real n×n x, n=%d" % (ename, n), n=n)
                    continue
                # theorem parseval_half2: weights only along the halved last axis
                d, df = 0.5, 1.0 / (n * 0.5)
                H = M.rft2(x, d)
                p_x = (x ** 2).sum() * d * d
                t = (half_weights(n)[None, :] * numpy.abs(H) ** 2).sum() * df * df
                if H.shape != (n, n // 2 + 1) or abs(t - p_x) > TOL * p_x:
                    bad("real:parseval2-layout:%s" % par, "Σx²δ² ≠ δ_f² Σ w_k|H_ak|² on the %s bins of %s.rft2 for n=%d (%.12g vs %.12g)"
                        % (H.shape, ename, n, p_x, t), n=n)
                # theorem rft2_irft2
                H2 = M.rft2(M.irft2(H, df), d)
                if H2.shape != H.shape or numpy.abs(H2 - H).max() > TOL * (numpy.abs(H).max() + 1e-300):
                    bad("real:rft2∘irft2:%s" % par, "%s.rft2(irft2(H)) ≠ H for the half-spectrum of a real n×n array, n=%d" % (ename, n), n=n)


def kernel_contract(chk):
    """numpy.fft is the naive DFT and fft2 = nested 1-D transforms (the model's assumption about the external kernel)"""
    nprng = numpy.random.default_rng(7)
    for n in (1, 2, 3, 5, 8, 9):
        x = nprng.normal(size=(n, n)) + 1j * nprng.normal(size=(n, n))
        j = numpy.arange(n)
        W = numpy.exp(-2j * numpy.pi * numpy.outer(j, j) / n)
        if numpy.abs(numpy.fft.fft(x[0]) - x[0] @ W).max() > 1e-9 * n * 4 or \
                numpy.abs(numpy.fft.fft2(x) - W @ x @ W).max() > 1e-9 * n * n * 4 or \
                numpy.abs(numpy.fft.ifft(numpy.fft.fft(x[0])) - x[0]).max() > 1e-9 * 4:
            chk.broke("correspondence", "numpy.fft does not meet the DFT contract at n=%d" % n)


def run(chk):
    quick = chk.tier == "quick"
    chk.rule = ("correspondence: Lean model at binary64 vs fouriertransform.* and aotools.* for all n in 1..33 (thorough: to 129), "
                "batch shapes (),(3,),(2,3), integer/dyadic/gaussian data, several δ, tol 1e-9·scale; rft/irft even n ≤ 32, rft2 even n ≤ 8, "
                "irft2 on genuine square and non-square half-spectra; oracle: the clauses of the property "
                "on the real code; distinct = distinct (op, n, δ, data kind, batch, entry point)")
    chk.assumptions = ["numpy.fft kernels = naive DFT sums (contract checked numerically each run)",
                       "closeness of the sampled Gaussian's transform to the analytic Gaussian is numeric only (bound 2e-3·peak for σ = nδ/8)",
                       "real-input variants: proved for even n only (1-D and n×n); odd n is an open finding. numpy's rfft/irfft are "
                       "modelled as bins 0..n/2 of the DFT / the inverse DFT of the Hermitian completion; the model keeps the imaginary "
                       "parts of the DC/Nyquist bins that numpy drops, so model = code only on half-spectra with real DC/Nyquist "
                       "(correspondence runs on genuine half-spectra; irft_real proves the model's output real exactly there)",
                       "non-square inputs of rft2 and batch dimensions of the real variants are not modelled (irft2 is: N×m, "
                       "N = shape[-2] on both scale factors)"]
    import aotools
    from aotools import fouriertransform as F
    chk.build_and_audit("AoVerif.Props.C09", "AoVerif.Props.C09", REQUIRED)
    kernel_contract(chk)
    try:
        correspondence(chk, F, aotools, quick)
    except common.LeanError as ex:
        chk.broke("correspondence", "driver failed", str(ex))
    oracle(chk, F, aotools, quick)
