#!/bin/sh
# Final recorded pass of the seeded-change experiment: every change under /tmp/seed/*/out (round 1: A, B) and
# /tmp/seed2/*/out (round 2: stored as C, D) is confirmed in a scratch worktree and then applied to /repo itself, the
# target property's check is run from /verif, and the change is undone straight afterwards (harness/seedrun.py).
# Usage: harness/seedall.sh [ids…]   (default: all)
cd "$(dirname "$0")/.." || exit 2
export PYTHONPATH=/repo:$(pwd)
ids="$*"
[ -z "$ids" ] && ids="C01 C02 C03 C04 C05 C06 C07 C08 C09 C10 C11 C12 C13 C14 C15 C16 C17 C18 C19 C20"
for id in $ids; do
  for spec in "seed A A" "seed B B" "seed2 A C" "seed2 B D"; do
    set -- $spec
    d=/tmp/$1/$id/out
    [ -f $d/patch_$2.diff ] && [ -f $d/demo_$2.py ] && [ -f $d/meta_$2.json ] || continue
    timeout 7200 /venv/bin/python -m harness.seedrun $id $2 $d --label $3 2>&1 | tail -1
  done
done
