"""Assemble DESIGN.md from notes/design_parts/*.md, notes/asbuilt/Cxx.md, known_findings.json and seeded/*/meta.json
(the tables are generated so that they cannot drift from what the checks and the seeded experiment actually recorded)."""
import glob
import json
import os
import subprocess

VERIF = os.path.dirname(os.path.dirname(os.path.abspath(__file__)))


def rd(p):
    return open(os.path.join(VERIF, p)).read().rstrip() + "\n"


def status_table():
    props = [json.loads(l) for l in open(os.path.join(VERIF, "properties.jsonl"))]
    rows = ["| id | title | theorems (audited) | quick wall | correspondence / oracle cases (quick) | open findings |",
            "|---|---|---|---|---|---|"]
    kf = json.load(open(os.path.join(VERIF, "known_findings.json")))["findings"]
    for p in props:
        pid = p["id"]
        try:
            ev = json.load(open(os.path.join(VERIF, "evidence", pid + ".json")))
            c = ev["coverage"]
            nthm = len(c.get("theorems", {}))
            cell = "%d / %d" % (c.get("correspondence_cases", 0), c.get("oracle_cases", 0))
            wall = "%.0f s" % ev["wall_s"]
        except Exception:
            nthm, cell, wall = 0, "-", "-"
        opens = [e["key"] for e in kf if e["property"] == pid and e["status"] == "open"]
        rows.append("| %s | %s | %d | %s | %s | %s |" % (pid, p["title"], nthm, wall, cell, ", ".join("`%s`" % k for k in opens) or "—"))
    return "\n".join(rows) + "\n"


def findings_table():
    kf = json.load(open(os.path.join(VERIF, "known_findings.json")))["findings"]
    rows = ["| property | status | commit in /repo | key (what the oracle reports) | what failed |", "|---|---|---|---|---|"]
    for e in sorted(kf, key=lambda e: (e["property"], e["status"] != "fixed", e.get("key", ""))):
        what = e.get("what", "").replace("|", "/").replace("\n", " ")
        if len(what) > 330:
            what = what[:327] + "…"
        rows.append("| %s | %s | %s | `%s` | %s |" % (e["property"], e["status"], e.get("commit") or "—", e.get("key", ""), what))
    return "\n".join(rows) + "\n"


def seeded_table():
    rows = ["| seeded change | what it breaks / what it needs to manifest | test-suite with change | target check | verdict | wall |",
            "|---|---|---|---|---|---|"]
    n = caught = concrete = 0
    for d in sorted(glob.glob(os.path.join(VERIF, "seeded", "*", "meta.json"))):
        m = json.load(open(d))
        name = os.path.basename(os.path.dirname(d))
        res = m.get("check_results", {})
        pid = name.split("-")[0]
        verdict, wall, tier = "not run", "", ""
        if m.get("not_kept"):
            rows.append("| %s | **%s** | — | ./check %s | not kept: %s | |" % (name, str(m.get("title"))[:160].replace("|", "/"), pid, str(m["not_kept"])[:260].replace("|", "/")))
            continue
        for k, v in res.items():
            if k.startswith(pid + ":"):
                tier = k.split(":")[1]
                wall = "%.0f s" % v["wall_s"]
                if v["exit"] == 1:
                    verdict = "caught (%s)%s" % (tier, "" if m.get("caught_with_concrete_input") else ", no-failing-input-found")
                    break
                verdict = "MISSED (%s)" % tier
        n += 1
        caught += bool(m.get("caught_by_target_check"))
        concrete += bool(m.get("caught_with_concrete_input"))
        desc = (m.get("title") or m.get("what_breaks") or "")
        needs = m.get("needs_to_manifest") or ""
        txt = ("**%s** — needs: %s" % (str(desc)[:160], str(needs)[:200])).replace("|", "/").replace("\n", " ")
        rows.append("| %s | %s | %s | ./check %s | %s | %s |" % (name, txt, "passes" if m.get("what_i_ran", {}).get("test_suite_passes_with_change") else "?",
                                                                  pid, verdict, wall))
    return "\n".join(rows) + "\n\n%d seeded changes; %d caught by the target property's check, %d of them with a concrete failing input as replay.\n" % (n, caught, concrete)


def harmless_table():
    rows = ["| harmless change | kind | largest output difference seen by its author | test-suite / demo with change | ./check verdict |",
            "|---|---|---|---|---|"]
    n = ok = 0
    for d in sorted(glob.glob(os.path.join(VERIF, "harmless", "*", "meta.json"))):
        m = json.load(open(d))
        name = os.path.basename(os.path.dirname(d))
        res = m.get("check_results", {})
        v = "; ".join("%s exit %d%s" % (k, r["exit"], "" if r["exit"] == 0 else
                                       (" (no-failing-input-found)" if any("no-failing-input-found" in l for l in r["lines"]) else " (names an input)"))
                      for k, r in res.items()) or "not run"
        n += 1
        ok += bool(res) and all(r["exit"] == 0 for r in res.values())
        ran = m.get("what_i_ran", {})
        rows.append("| %s — %s | %s | %s | %s / demo %s→%s | %s |" % (
            name, str(m.get("title", ""))[:110].replace("|", "/"), m.get("kind", "?"), m.get("max_output_difference", "?"),
            "passes" if ran.get("test_suite_passes_with_change") else "?", ran.get("demo_unchanged_exit"), ran.get("demo_changed_exit"), v))
    return "\n".join(rows) + "\n\n%d harmless changes; %d pass the target property's quick check (exit 0, no VIOLATION line).\n" % (n, ok)


def main():
    out = [rd("notes/design_parts/s1_3.md"), rd("notes/design_parts/s2_asbuilt.md"),
           "\n---------------------------------------------------------------------------------------------\n\n## 0. Status at a glance (generated from evidence/ and known_findings.json)\n\n",
           status_table(),
           "\n---------------------------------------------------------------------------------------------\n\n## 4. Per-property design, as built\n\n"
           "Each paragraph: model, what is proved (for all inputs unless labelled a table), how the model is tied to the source on every run,\n"
           "what the direct oracle evaluates on the real code, trusted base / unproven clauses, defects and their outcome, and how many of\n"
           "the builder's own breaking edits were caught.  The original design text for each property is in the git history of this file.\n\n"]
    for f in sorted(glob.glob(os.path.join(VERIF, "notes", "asbuilt", "C*.md"))):
        out.append("### " + os.path.basename(f)[:-3] + "\n\n" + open(f).read().rstrip() + "\n\n")
    out.append("---------------------------------------------------------------------------------------------\n\n" + rd("notes/design_parts/s5.md"))
    out.append("\n---------------------------------------------------------------------------------------------\n\n"
               "## 6. Defects of the pinned tree: what was found, what was repaired, what stays open\n\n"
               "Every entry was reproduced by the built check with a concrete replay on the real code before anything was done about it.\n"
               "Repairs are single minimal unguarded `fix:` commits in /repo (the repository's own test-suite went from 83 passing / 10\n"
               "failing at the pinned commit to 93 passing); `fixed` entries suppress nothing.  Open entries print `KNOWN-FINDING` only while the\n"
               "recorded input still fails in the recorded way.  (Generated from `known_findings.json`.)\n\n" + findings_table())
    out.append("\n" + rd("notes/design_parts/s6_notes.md") if os.path.exists(os.path.join(VERIF, "notes/design_parts/s6_notes.md")) else "")
    out.append("\n---------------------------------------------------------------------------------------------\n\n" + rd("notes/design_parts/s7.md"))
    out.append("\n#### Harmless changes: final pass (generated from `harmless/*/meta.json`)\n\n" + harmless_table())
    out.append("\n---------------------------------------------------------------------------------------------\n\n"
               "## 8. Seeded property-breaking changes: catch matrix and what was strengthened\n\n" + rd("notes/design_parts/s8_intro.md")
               + "\n" + seeded_table())
    out.append("\n---------------------------------------------------------------------------------------------\n\n" + rd("notes/design_parts/s9.md"))
    open(os.path.join(VERIF, "DESIGN.md"), "w").write("".join(out))


if __name__ == "__main__":
    main()
