"""
Translator T2 (DESIGN §2.3, Appendix A): every public function / method of /repo/aotools -> a term of the effect and
aliasing IR of lean/AoVerif/Model/Effects.lean.  Regenerated from /repo's working tree on every run.

Output: lean/AoVerif/Gen/Effects.lean   (`progs`, split into `pureProgs` and `knownImpureProgs` by findings/C20.json)
        harness/_gen/effects.json        (per function: params, variable table, IR rendering, source location)

What the IR records, per function:
  assign x srcs   `x = e` where e may share memory with srcs: names, slices/subscripts, .T/.real/.imag/.flat, view-returning
                  NumPy calls (VIEW_FUNCS/VIEW_METHODS), conditional expressions, tuples/lists (containers alias their items),
                  `self.attr` is a variable of its own; calls to other aotools functions are INLINED (depth <= 3)
  write x         augmented assignment to x, store through a subscript/attribute chain rooted at x, out=x, in-place methods
                  (INPLACE_METHODS), in-place NumPy procedures (INPLACE_FUNCS)
  globalWrite     use of the process-global NumPy / stdlib random generators, `global` statements that are assigned,
                  stores through module-level names
Everything the translator cannot classify is translated conservatively to a write of every parameter it can reach.
"""
import ast
import json
import os

REPO = os.environ.get("AOVERIF_REPO", "/repo")
HERE = os.path.dirname(os.path.abspath(__file__))
VERIF = os.path.dirname(HERE)

def list_modules(repo, top="aotools"):
    """every module of the package (a new file is translated automatically); package __init__ files and the generated
    version helper hold no library functions"""
    out = []
    for root, _, files in os.walk(os.path.join(repo, top)):
        for f in sorted(files):
            if f.endswith(".py") and f not in ("__init__.py", "_version.py"):
                out.append(os.path.relpath(os.path.join(root, f), repo))
    return sorted(out)


MODULES = list_modules(REPO)

# calls whose result may share memory with their first argument / receiver
VIEW_FUNCS = {"asarray", "asanyarray", "ascontiguousarray", "asfortranarray", "atleast_1d", "atleast_2d", "atleast_3d",
              "reshape", "ravel", "squeeze", "transpose", "swapaxes", "moveaxis", "rollaxis", "expand_dims",
              "broadcast_to", "broadcast_arrays", "real", "imag", "diagonal", "diag", "array_split", "split", "hsplit",
              "vsplit", "dsplit", "flipud", "fliplr", "flip", "rot90", "triu_indices_from", "nan_to_num",
              "require", "view", "squeeze", "tuple", "list", "iter", "reversed", "zip", "enumerate",
              "as_strided", "sliding_window_view", "frombuffer", "asmatrix", "asarray_chkfinite", "real_if_close",
              "memoryview", "nditer", "ndenumerate", "flatiter", "nested_iters", "broadcast", "asfarray"}
# operator-module procedures that modify their first argument in place
OPERATOR_INPLACE = {"iadd", "isub", "imul", "itruediv", "ifloordiv", "ipow", "imod", "iand", "ior", "ixor", "imatmul",
                    "ilshift", "irshift", "iconcat", "setitem", "delitem", "setattr", "delattr",
                    "__iadd__", "__isub__", "__imul__", "__itruediv__", "__setitem__", "__delitem__"}
# SciPy-style licence to destroy a positional argument: keyword -> position
OVERWRITE_KW = {"overwrite_a": 0, "overwrite_b": 1, "overwrite_x": 0, "overwrite_input": 0, "overwrite_ab": 0,
                "overwrite_data": 0, "overwrite_v": 0, "overwrite_c": 2}
VIEW_METHODS = {"reshape", "ravel", "squeeze", "transpose", "swapaxes", "view", "diagonal", "flatten_view",
                "__getitem__", "get", "items", "values"}
# methods that return fresh objects (everything else called on an object is treated as possibly aliasing it)
FRESH_METHODS = {"copy", "astype", "sum", "mean", "std", "var", "max", "min", "argmax", "argmin", "flatten", "tolist",
                 "dot", "conj", "conjugate", "cumsum", "cumprod", "prod", "round", "clip", "nonzero", "any", "all",
                 "normal", "random", "standard_normal", "uniform", "integers", "format", "join", "index", "count",
                 "keys", "argsort", "searchsorted", "trace", "repeat", "take", "compress", "choose", "ptp", "item",
                 "tobytes", "byteswap", "newbyteorder", "map", "imap", "apply", "apply_async", "close", "startswith",
                 "lower", "upper", "strip", "split"}
INPLACE_METHODS = {"sort", "fill", "resize", "put", "itemset", "setflags", "partition", "setfield", "shuffle",
                   "append", "extend", "insert", "pop", "remove", "clear", "update", "reverse", "setdefault",
                   "__setitem__", "__iadd__", "__isub__", "__imul__", "__itruediv__", "__ifloordiv__", "__ipow__",
                   "__imod__", "__iand__", "__ior__", "__ixor__", "__delitem__", "byteswap"}
INPLACE_FUNCS = {"copyto", "put", "place", "putmask", "fill_diagonal", "put_along_axis", "shuffle"}
# NumPy functions whose positional argument number `arity` (0-based) is the OUTPUT array
BINARY_UFUNCS = {"add", "subtract", "multiply", "divide", "true_divide", "floor_divide", "power", "float_power", "maximum",
                 "minimum", "fmax", "fmin", "mod", "fmod", "remainder", "arctan2", "hypot", "logical_and", "logical_or",
                 "logical_xor", "bitwise_and", "bitwise_or", "bitwise_xor", "greater", "greater_equal", "less", "less_equal",
                 "equal", "not_equal", "matmul", "dot", "copysign", "ldexp", "heaviside"}
UNARY_UFUNCS = {"sqrt", "exp", "exp2", "expm1", "log", "log2", "log10", "log1p", "abs", "absolute", "fabs", "negative",
                "positive", "sin", "cos", "tan", "arcsin", "arccos", "arctan", "sinh", "cosh", "tanh", "conj", "conjugate",
                "square", "floor", "ceil", "rint", "trunc", "sign", "reciprocal", "isfinite", "isnan", "isinf", "logical_not",
                "invert", "cbrt", "deg2rad", "rad2deg", "angle", "real_if_close"}
OUT_POSITION = {"clip": 3, "round": 2, "around": 2, "round_": 2, "cumsum": 3, "cumprod": 3, "sum": 3, "prod": 3, "mean": 3,
                "take": 3, "choose": 2, "compress": 3}
# calls that return a view of their first argument when given copy=<anything but literal True>
COPY_KW_VIEWS = {"array", "astype", "asarray", "asanyarray", "require", "nan_to_num"}
LIBRARY_ROOTS = {"numpy", "np", "scipy", "math", "cmath", "numba", "multiprocessing", "time", "functools", "itertools",
                 "warnings", "os", "sys", "fft", "linalg", "special", "interpolate", "optimize", "ndimage", "signal", "copy"}
# calls that change process-wide settings (hidden state for every later call in the process); `with numpy.errstate(...)` and
# `with warnings.catch_warnings():` are scoped and restore what they found: not flagged (filter calls inside the latter neither)
GLOBAL_SETTERS = {"seterr", "seterrcall", "set_printoptions", "setbufsize", "set_string_function", "simplefilter", "filterwarnings",
                  "resetwarnings", "chdir", "putenv", "unsetenv", "setlocale", "setrecursionlimit", "setswitchinterval", "seterrobj"}
GLOBAL_RNG_OK = {"default_rng", "Generator", "RandomState", "SeedSequence", "PCG64", "MT19937", "BitGenerator"}


class Ctx:
    def __init__(self, fname):
        self.fname = fname
        self.vars = {}         # name -> index
        self.params = []
        self.notes = []
        self.globals_declared = set()
        self.local_imports = {}
        self.local_defs = {}   # (prefixed) name -> closure: nested defs and `f = lambda …` of this function
        self.clo_n = 0
        self.clo_depth = 0

    def var(self, name):
        if name not in self.vars:
            self.vars[name] = len(self.vars)
        return self.vars[name]


class Translator:
    def __init__(self, funcs, module_names):
        self.funcs = funcs            # qualified name -> (FunctionDef, module path, class name or None)
        self.by_simple = {}
        for q, (fd, mod, cls) in funcs.items():
            if cls is None:
                self.by_simple.setdefault((mod, fd.name), q)
        self.module_names = module_names   # module path -> set of module-level assigned names

    # ------------------------------------------------------------------ alias sources of an expression
    def base_name(self, e):
        """name at the root of a subscript/attribute chain, with `self.attr` kept as a variable of its own"""
        while True:
            if isinstance(e, ast.Name):
                return e.id
            if isinstance(e, ast.Attribute):
                if isinstance(e.value, ast.Name) and e.value.id == "self":
                    return "self." + e.attr
                e = e.value
            elif isinstance(e, (ast.Subscript, ast.Starred)):
                e = e.value
            elif isinstance(e, ast.Call) and isinstance(e.func, ast.Attribute) and e.func.attr in VIEW_FUNCS and e.args \
                    and self.base_name(e.func.value) in LIBRARY_ROOTS:
                e = e.args[0]                                  # numpy.squeeze(a)[0] = 0 writes a
            elif isinstance(e, ast.Call) and isinstance(e.func, ast.Attribute) and e.func.attr in VIEW_METHODS:
                e = e.func.value
            elif isinstance(e, ast.Call) and isinstance(e.func, ast.Name) and e.func.id in VIEW_FUNCS and e.args \
                    and e.func.id not in ("tuple", "list", "zip", "enumerate", "iter", "reversed"):
                e = e.args[0]
            else:
                return None

    def sources(self, e, cx, pre, pfx, depth):
        """variables whose memory the value of e may share; may append statements (inlined calls) to `pre`"""
        if e is None or isinstance(e, (ast.Constant, ast.JoinedStr)):
            return []
        if isinstance(e, ast.Compare):
            for sub in [e.left] + list(e.comparators):      # evaluated for their effects; the result is a fresh boolean
                self.sources(sub, cx, pre, pfx, depth)
            return []
        if isinstance(e, ast.BoolOp):
            out = []
            for sub in e.values:                             # `a and b` / `a or b` evaluate to one of their operands
                out += self.sources(sub, cx, pre, pfx, depth)
            return out
        if isinstance(e, ast.Lambda):
            # conservatively: the body is assumed to run (its writes to captured variables count at the definition site)
            return self.apply_closure(self.make_closure(e, cx), [], {}, cx, pre, pfx, depth)
        if isinstance(e, ast.Name):
            return [cx.var(pfx + e.id)] if (pfx + e.id) in cx.vars else []
        if isinstance(e, ast.Attribute):
            if isinstance(e.value, ast.Name) and e.value.id == "self":
                n = "self." + e.attr
                return [cx.var(n)] if n in cx.vars else []
            if e.attr in ("T", "real", "imag", "flat", "base", "data", "mT"):
                return self.sources(e.value, cx, pre, pfx, depth)
            if e.attr in ("shape", "size", "ndim", "dtype", "pi", "e", "inf", "nan", "itemsize", "nbytes", "strides"):
                return []
            return self.sources(e.value, cx, pre, pfx, depth)
        if isinstance(e, ast.Subscript):
            return self.sources(e.value, cx, pre, pfx, depth)
        if isinstance(e, (ast.BinOp, ast.UnaryOp)):
            for sub in ast.iter_child_nodes(e):          # evaluate nested calls for their effects only
                if isinstance(sub, ast.expr):
                    self.sources(sub, cx, pre, pfx, depth)
            return []
        if isinstance(e, ast.IfExp):
            self.sources(e.test, cx, pre, pfx, depth)
            return self.sources(e.body, cx, pre, pfx, depth) + self.sources(e.orelse, cx, pre, pfx, depth)
        if isinstance(e, (ast.Tuple, ast.List, ast.Set)):
            out = []
            for x in e.elts:
                out += self.sources(x, cx, pre, pfx, depth)
            return out
        if isinstance(e, ast.Dict):
            out = []
            for x in e.values:
                out += self.sources(x, cx, pre, pfx, depth)
            return out
        if isinstance(e, ast.Starred):
            return self.sources(e.value, cx, pre, pfx, depth)
        if isinstance(e, (ast.ListComp, ast.GeneratorExp, ast.SetComp, ast.DictComp)):
            out = []
            for g in e.generators:
                src = self.sources(g.iter, cx, pre, pfx, depth)
                out += src
                body = []
                self.target_write(g.target, cx, body, pfx, src, depth)      # the loop variable aliases the iterable's items
                pre += body
                for c in g.ifs:
                    self.sources(c, cx, pre, pfx, depth)
            elts = [e.key, e.value] if isinstance(e, ast.DictComp) else [e.elt]
            for x in elts:
                out += self.sources(x, cx, pre, pfx, depth)
            return out
        if isinstance(e, ast.Call):
            return self.call(e, cx, pre, pfx, depth)
        if isinstance(e, ast.NamedExpr):
            s = self.sources(e.value, cx, pre, pfx, depth)
            pre.append(("assign", cx.var(pfx + e.target.id), s))
            return s
        cx.notes.append("unclassified expression %s" % type(e).__name__)
        return list(range(len(cx.params)))

    # ------------------------------------------------------------------ closures (nested defs, lambdas)
    def make_closure(self, node, cx):
        """(parameter names, body statements) of a nested def / lambda, its parameters renamed apart from the variables of the
        enclosing function (the abstract interpreter updates strongly, so a parameter must not clobber a captured name)"""
        cx.clo_n += 1
        tag = "§%d" % cx.clo_n
        a = node.args
        params = [x.arg for x in a.posonlyargs + a.args + a.kwonlyargs] + ([a.vararg.arg] if a.vararg else []) + \
                 ([a.kwarg.arg] if a.kwarg else [])

        class Ren(ast.NodeTransformer):
            def visit_Name(self, n):
                if n.id in params:
                    return ast.copy_location(ast.Name(id=n.id + tag, ctx=n.ctx), n)
                return n
        import copy as _copy
        body = [ast.Return(value=node.body)] if isinstance(node, ast.Lambda) else list(node.body)
        body = [Ren().visit(_copy.deepcopy(s)) for s in body]
        for s in body:
            ast.fix_missing_locations(s)
        return ([q + tag for q in params], [x.arg + tag for x in a.posonlyargs + a.args], body)

    def apply_closure(self, clo, argsrc, kwsrc, cx, pre, pfx, depth, everything=None):
        """the body of the closure run with its parameters bound to the given alias sources (`everything`: bound to all of them)"""
        params, positional, body = clo
        if cx.clo_depth >= 3:
            for p in range(len(cx.params)):
                pre.append(("write", p))
            return []
        bound = {q: [] for q in params}
        if everything is not None:
            bound = {q: list(everything) for q in params}
        else:
            for q, s in zip(positional, argsrc):
                bound[q] = s
            extra = [s_ for ss in argsrc[len(positional):] for s_ in ss]
            for k, s in kwsrc.items():
                hit = [q for q in params if q.split("§")[0] == k]
                if hit:
                    bound[hit[0]] = s
                else:
                    extra += s
            for q in params[len(positional):]:
                bound[q] = bound[q] + extra
        for q in params:
            pre.append(("assign", cx.var(pfx + q), bound[q]))
        cx.clo_depth += 1
        rets = []
        pre.append(self.block(body, cx, pfx, depth, rets))
        cx.clo_depth -= 1
        return [s for r in rets for s in r]

    def closure_of(self, a, cx, pfx):
        if isinstance(a, ast.Lambda):
            return self.make_closure(a, cx)
        if isinstance(a, ast.Name) and (pfx + a.id) in cx.local_defs:
            return cx.local_defs[pfx + a.id]
        return None

    def call(self, e, cx, pre, pfx, depth):
        """closures first: a local def / lambda that is CALLED runs with its arguments; one that is PASSED to another callable
        (map, sorted(key=), numpy.apply_along_axis, vectorize, …) may be run on anything the other arguments give access to"""
        f = e.func
        if isinstance(f, ast.Name) and (pfx + f.id) in cx.local_defs:
            argsrc = [self.sources(a, cx, pre, pfx, depth) for a in e.args]
            kwsrc = {k.arg: self.sources(k.value, cx, pre, pfx, depth) for k in e.keywords}
            return self.apply_closure(cx.local_defs[pfx + f.id], argsrc, kwsrc, cx, pre, pfx, depth)
        passed = [(a, self.closure_of(a, cx, pfx)) for a in list(e.args) + [k.value for k in e.keywords]]
        clos = [c for _, c in passed if c is not None]
        res = self._call(e, cx, pre, pfx, depth)
        if clos:
            others = []
            for a, c in passed:
                if c is None:
                    others += self.sources(a, cx, [], pfx, depth)
            if isinstance(f, ast.Attribute):
                others += self.sources(f.value, cx, [], pfx, depth)
            for c in clos:
                res = res + self.apply_closure(c, [], {}, cx, pre, pfx, depth, everything=others) + others
        return res

    def _call(self, e, cx, pre, pfx, depth):
        f = e.func
        argsrc = [self.sources(a, cx, pre, pfx, depth) for a in e.args]
        kwsrc = {k.arg: self.sources(k.value, cx, pre, pfx, depth) for k in e.keywords}
        # out= keyword: in-place write to its target
        for k in e.keywords:
            if k.arg == "out":
                b = self.base_name(k.value)
                if b is not None:
                    pre.append(("write", cx.var(pfx + b)))
        name = f.attr if isinstance(f, ast.Attribute) else (f.id if isinstance(f, ast.Name) else None)
        opmod = (isinstance(f, ast.Attribute) and self.base_name(f.value) == "operator") or \
                (isinstance(f, ast.Name) and (self.imported.get(cx.module, {}).get(f.id, "") == "operator"
                                              or cx.local_imports.get(f.id, "") == "operator"))
        opname = name
        if isinstance(f, ast.Name):
            opname = cx.local_imports.get("operator:" + f.id) or self.imported.get(cx.module, {}).get("operator:" + f.id) or name
        if ((opmod and opname in OPERATOR_INPLACE) or (isinstance(f, ast.Name) and name in ("setattr", "delattr")
                                                     and (pfx + name) not in cx.vars)) and e.args:
            b = self.base_name(e.args[0])                    # operator.iadd(a, 1), setattr(a, "shape", …)
            if b is not None:
                pre.append(("write", cx.var((self_prefix(pfx, cx) if b.startswith("self.") else pfx) + b)))
        for k in e.keywords:
            if k.arg in OVERWRITE_KW and not (isinstance(k.value, ast.Constant) and k.value.value in (False, None, 0)):
                pos = OVERWRITE_KW[k.arg]
                if len(e.args) > pos:                        # scipy.linalg.inv(a, overwrite_a=True)
                    b = self.base_name(e.args[pos])
                    if b is not None:
                        pre.append(("write", cx.var(pfx + b)))
            if k.arg == "op_flags" and any(isinstance(c, ast.Constant) and c.value in ("readwrite", "writeonly")
                                           for c in ast.walk(k.value)) or \
                    (k.arg == "op_flags" and not all(isinstance(c, (ast.Constant, ast.List, ast.Tuple, ast.Load))
                                                      for c in ast.walk(k.value))):
                for a0 in e.args[:1]:                        # numpy.nditer(a, op_flags=["readwrite"]): the loop body writes a
                    for el in (a0.elts if isinstance(a0, (ast.List, ast.Tuple)) else [a0]):
                        b = self.base_name(el)
                        if b is not None:
                            pre.append(("write", cx.var(pfx + b)))
        for k in e.keywords:
            if k.arg in ("output", "a_out"):
                b = self.base_name(k.value)
                if b is not None:
                    pre.append(("write", cx.var(pfx + b)))
        # positional output arguments of NumPy functions, ufunc.at / ufunc.reduceat-style in-place methods
        libcall = (isinstance(f, ast.Name) and self.imported.get(cx.module, {}).get(f.id, "").split(".")[0] in LIBRARY_ROOTS) or \
                  (isinstance(f, ast.Attribute) and self.base_name(f.value) in LIBRARY_ROOTS)
        if libcall:
            pos = 2 if name in BINARY_UFUNCS else 1 if name in UNARY_UFUNCS else OUT_POSITION.get(name)
            if pos is not None and len(e.args) > pos:
                b = self.base_name(e.args[pos])
                if b is not None:
                    pre.append(("write", cx.var(pfx + b)))
        if isinstance(f, ast.Attribute) and name == "at" and isinstance(f.value, ast.Attribute) and e.args:
            b = self.base_name(e.args[0])                    # numpy.add.at(x, idx, v) modifies x
            if b is not None:
                pre.append(("write", cx.var(pfx + b)))
        if name in GLOBAL_SETTERS and not (name in ("simplefilter", "filterwarnings", "resetwarnings") and getattr(cx, "in_catch", 0)) and \
                ((isinstance(f, ast.Attribute) and (pfx + (self.base_name(f.value) or "")) not in cx.vars) or
                 (isinstance(f, ast.Name) and (pfx + f.id) not in cx.vars)):
            pre.append(("globalWrite", "state"))                 # numpy.seterr(...), warnings.simplefilter(...), os.chdir(...)
        # names imported from a process-global random module; module-level generator objects
        if isinstance(f, ast.Name):
            src_mod = self.imported.get(cx.module, {}).get(f.id, "")
            if (pfx + f.id) not in cx.vars and f.id not in cx.local_imports and \
                    (src_mod in ("numpy.random", "random") and f.id not in GLOBAL_RNG_OK and f.id not in ("Random", "SystemRandom")):
                pre.append(("globalWrite", "rng"))
            if f.id in cx.local_imports and cx.local_imports[f.id] in ("numpy.random", "random") and f.id not in GLOBAL_RNG_OK:
                pre.append(("globalWrite", "rng"))
        if isinstance(f, ast.Attribute):
            b = self.base_name(f.value)
            if b is not None and (pfx + b) not in cx.vars and b not in cx.vars and b in self.module_objects.get(cx.module, ()):
                pre.append(("globalWrite", "rng"))                 # any method call on a module-level generator / mutable object
        # copy=<not literally True> turns array / astype / asarray / require / nan_to_num into views of their argument
        if name in COPY_KW_VIEWS:
            ck = [k for k in e.keywords if k.arg == "copy"]
            nocopy = ck and not (isinstance(ck[0].value, ast.Constant) and ck[0].value.value is True)
            if name in ("asarray", "asanyarray", "require") or nocopy:
                if name == "nan_to_num" and nocopy and e.args:
                    b = self.base_name(e.args[0])
                    if b is not None:
                        pre.append(("write", cx.var(pfx + b)))
                if isinstance(f, ast.Attribute) and not libcall:       # x.astype(..., copy=False)
                    return self.sources(f.value, cx, pre, pfx, depth)
                return [s_ for a in argsrc[:1] for s_ in a]
            if name in ("array", "astype", "nan_to_num"):
                return []
        # process-global random generators
        if isinstance(f, ast.Attribute):
            chain = []
            t = f
            while isinstance(t, ast.Attribute):
                chain.append(t.attr)
                t = t.value
            if isinstance(t, ast.Name):
                chain.append(t.id)
            chain = chain[::-1]
            if len(chain) >= 2 and chain[-2] == "random" and chain[0] in ("numpy", "np", "random") \
                    and chain[-1] not in GLOBAL_RNG_OK:
                pre.append(("globalWrite", "rng"))
            if chain[0] == "random" and len(chain) == 2 and chain[1] not in ("Random", "SystemRandom"):
                pre.append(("globalWrite", "rng"))
        # in-place procedures / methods
        if name in INPLACE_FUNCS and e.args and not (isinstance(f, ast.Attribute) and self.base_name(f.value) not in
                                                      (None, "numpy", "np", "random")):
            b = self.base_name(e.args[0])
            if b is not None:
                pre.append(("write", cx.var(pfx + b)))
        if isinstance(f, ast.Attribute) and name in INPLACE_METHODS:
            b = self.base_name(f.value)
            if b is not None and b not in ("numpy", "np", "scipy", "random", "math"):
                nm = b if b.startswith("self.") else pfx + b
                if nm not in cx.vars and b in self.module_names.get(cx.module, ()):
                    pre.append(("globalWrite", "state"))             # e.g. _CALLS.append(1) on a module-level list
                pre.append(("write", cx.var(nm)))
                return []
        # calls to other translated aotools functions: inline
        target = None
        if isinstance(f, ast.Name):
            target = self.by_simple.get((cx.module, f.id)) or self.by_any.get(f.id)
        elif isinstance(f, ast.Attribute) and isinstance(f.value, ast.Name) and f.value.id == "self" and cx.cls:
            target = self.method_lookup(cx.cls, f.attr)
        elif isinstance(f, ast.Attribute) and isinstance(f.value, (ast.Name, ast.Attribute)) and name in self.by_any \
                and self.base_name(f.value) not in cx.vars and (pfx + (self.base_name(f.value) or "")) not in cx.vars:
            # module-qualified call such as fouriertransform.ft2(...) / circle module
            b = self.base_name(f.value)
            if b not in ("numpy", "np", "scipy", "math", "random", "fft", "linalg", "special", "optimize", "time"):
                target = self.by_any.get(name)
        if target is not None:
            if depth >= 6 or target in cx.stack:
                cx.notes.append("call depth / recursion at %s" % target)
                for p in range(len(cx.params)):
                    pre.append(("write", p))
                pre.append(("globalWrite", "rng"))
                return []
            return self.inline(target, e, argsrc, kwsrc, cx, pre, pfx, depth)
        # view-returning functions / methods
        if isinstance(f, ast.Attribute):
            recv = self.base_name(f.value)
            if recv in ("numpy", "np", "scipy", "math", "fft", "linalg", "special", "interpolate", "optimize", "time",
                        "multiprocessing", "functools", "itertools", "numba", "warnings"):
                if name in VIEW_FUNCS:
                    return [s for a in argsrc for s in a]
                return []
            # method on some object
            if name in FRESH_METHODS:
                return []
            rs = self.sources(f.value, cx, pre, pfx, depth)
            return rs + ([s for a in argsrc for s in a] if name in ("get", "setdefault") else [])
        if isinstance(f, ast.Name):
            if name in VIEW_FUNCS:
                return [s for a in argsrc for s in a]
            if name in ("float", "int", "len", "range", "abs", "round", "max", "min", "sum", "str", "bool", "complex",
                        "print", "isinstance", "type", "sorted", "any", "all", "map", "divmod", "pow", "repr",
                        "ValueError", "Exception", "TypeError", "RuntimeError", "NotImplementedError", "format",
                        "gamma", "kv", "jit", "slice", "dict", "set", "super", "getattr", "hasattr", "id", "open"):
                return []
            if self.imported.get(cx.module, {}).get(name, "").split(".")[0] in LIBRARY_ROOTS or \
                    cx.local_imports.get(name, "").split(".")[0] in LIBRARY_ROOTS:
                return []                                    # library helper imported by name (scipy.special.gamma, …): fresh
            # unknown callable (a local lambda / nested function / something passed in): its result may alias its arguments
            cx.notes.append("unknown function %s: result may alias its arguments" % name)
            return [s_ for a in argsrc for s_ in a]
        cx.notes.append("unclassified call")
        return [s for a in argsrc for s in a]

    def method_lookup(self, cls, meth):
        for c in self.mro.get(cls, [cls]):
            q = "%s.%s" % (c, meth)
            if q in self.funcs:
                return q
        return None

    def inline(self, target, e, argsrc, kwsrc, cx, pre, pfx, depth):
        fd, mod, cls = self.funcs[target]
        cx.inl += 1
        npfx = "%s~%d~" % (target, cx.inl)
        a = fd.args
        names = [p.arg for p in a.args]
        if cls is not None and names and names[0] == "self":
            names = names[1:]
        bound = {}
        for n, s in zip(names, argsrc):
            bound[n] = s
        extra = [s for ss in argsrc[len(names):] for s in ss]
        for k, s in kwsrc.items():
            if k in names:
                bound[k] = s
            else:
                extra += s
        for n in names:
            pre.append(("assign", cx.var(npfx + n), bound.get(n, [])))
        if a.vararg:
            pre.append(("assign", cx.var(npfx + a.vararg.arg), extra))
        if a.kwarg:
            pre.append(("assign", cx.var(npfx + a.kwarg.arg), extra))
        # methods share the instance attributes of the caller
        save = (cx.module, cx.cls)
        cx.module, cx.cls = mod, cls
        cx.stack.append(target)
        rets = []
        body = self.block(fd.body, cx, npfx, depth + 1, rets)
        cx.stack.pop()
        cx.module, cx.cls = save
        pre.append(body)
        out = []
        for r in rets:
            out += r
        return out

    # ------------------------------------------------------------------ statements
    def target_write(self, t, cx, out, pfx, srcs, depth):
        if isinstance(t, ast.Name):
            out.append(("assign", cx.var(pfx + t.id), srcs))
            if t.id in cx.globals_declared:
                out.append(("globalWrite", "state"))
        elif isinstance(t, (ast.Tuple, ast.List)):
            for x in t.elts:
                self.target_write(x, cx, out, pfx, srcs, depth)
        elif isinstance(t, ast.Starred):
            self.target_write(t.value, cx, out, pfx, srcs, depth)
        elif isinstance(t, ast.Attribute) and isinstance(t.value, ast.Name) and t.value.id == "self":
            out.append(("assign", cx.var(self_prefix(pfx, cx) + "self." + t.attr), srcs))
        elif isinstance(t, (ast.Subscript, ast.Attribute)):
            b = self.base_name(t)
            if b is None:
                cx.notes.append("store through unclassified target")
                for p in range(len(cx.params)):
                    out.append(("write", p))
            else:
                nm = (self_prefix(pfx, cx) if b.startswith("self.") else pfx) + b
                if nm not in cx.vars and not b.startswith("self.") and \
                        (b in self.module_names.get(cx.module, ()) or b in self.module_funcs.get(cx.module, ())
                         or b in ("os", "sys", "numpy", "np", "warnings")):
                    out.append(("globalWrite", "state"))             # store through a module-level object / function attribute / os.environ
                v = cx.var(nm)
                out.append(("write", v))
                # NOTE: storing into an ndarray copies values; a Python list/dict would keep a reference to what was
                # stored (not tracked statically; the dynamic sentinel run covers it)
        else:
            cx.notes.append("unclassified assignment target")

    def block(self, stmts, cx, pfx, depth, rets):
        seq = []
        for st in stmts:
            pre = []
            if isinstance(st, ast.Expr):
                if isinstance(st.value, ast.Constant):
                    continue
                self.sources(st.value, cx, pre, pfx, depth)
                seq += pre
            elif isinstance(st, ast.Assign):
                s = self.sources(st.value, cx, pre, pfx, depth)
                seq += pre
                if isinstance(st.value, ast.Lambda) and len(st.targets) == 1 and isinstance(st.targets[0], ast.Name):
                    cx.local_defs[pfx + st.targets[0].id] = self.make_closure(st.value, cx)
                for t in st.targets:
                    self.target_write(t, cx, seq, pfx, s, depth)
            elif isinstance(st, ast.AnnAssign):
                s = self.sources(st.value, cx, pre, pfx, depth)
                seq += pre
                self.target_write(st.target, cx, seq, pfx, s, depth)
            elif isinstance(st, ast.AugAssign):
                s = self.sources(st.value, cx, pre, pfx, depth)
                seq += pre
                b = self.base_name(st.target)
                if b is None:
                    for p in range(len(cx.params)):
                        seq.append(("write", p))
                else:
                    nm = (self_prefix(pfx, cx) if b.startswith("self.") else pfx) + b
                    if nm not in cx.vars and b in self.module_names.get(cx.module, ()):
                        seq.append(("globalWrite", "state"))
                    if isinstance(st.target, ast.Name) and st.target.id in cx.globals_declared:
                        seq.append(("globalWrite", "state"))
                    seq.append(("write", cx.var(nm)))
            elif isinstance(st, ast.Return):
                s = self.sources(st.value, cx, pre, pfx, depth)
                seq += pre
                rets.append(s)
            elif isinstance(st, ast.If):
                self.sources(st.test, cx, pre, pfx, depth)
                seq += pre
                seq.append(("ite", self.block(st.body, cx, pfx, depth, rets), self.block(st.orelse, cx, pfx, depth, rets)))
            elif isinstance(st, (ast.For, ast.AsyncFor)):
                s = self.sources(st.iter, cx, pre, pfx, depth)
                seq += pre
                body = []
                self.target_write(st.target, cx, body, pfx, s, depth)
                body.append(self.block(st.body, cx, pfx, depth, rets))
                seq.append(("loop", ("seq", body)))
                seq.append(self.block(st.orelse, cx, pfx, depth, rets))
            elif isinstance(st, ast.While):
                self.sources(st.test, cx, pre, pfx, depth)
                seq += pre
                seq.append(("loop", self.block(st.body + [ast.Expr(st.test)], cx, pfx, depth, rets)))
                seq.append(self.block(st.orelse, cx, pfx, depth, rets))
            elif isinstance(st, (ast.With, ast.AsyncWith)):
                catch = 0
                for it in st.items:
                    s = self.sources(it.context_expr, cx, pre, pfx, depth)
                    if it.optional_vars is not None:
                        self.target_write(it.optional_vars, cx, pre, pfx, s, depth)
                    ce = it.context_expr
                    if isinstance(ce, ast.Call) and (getattr(ce.func, "attr", None) or getattr(ce.func, "id", None)) == "catch_warnings":
                        catch = 1
                seq += pre
                cx.in_catch = getattr(cx, "in_catch", 0) + catch
                seq.append(self.block(st.body, cx, pfx, depth, rets))
                cx.in_catch -= catch
            elif isinstance(st, ast.Try):
                parts = [self.block(st.body, cx, pfx, depth, rets)]
                for h in st.handlers:
                    parts.append(("ite", self.block(h.body, cx, pfx, depth, rets), ("seq", [])))
                parts.append(self.block(st.orelse, cx, pfx, depth, rets))
                parts.append(self.block(st.finalbody, cx, pfx, depth, rets))
                seq += parts
            elif isinstance(st, ast.Global):
                cx.globals_declared.update(st.names)
            elif isinstance(st, ast.Delete):
                for tg in st.targets:                        # `del J[0]` / `del a.attr` modify the object; `del name` does not
                    if isinstance(tg, (ast.Subscript, ast.Attribute)):
                        self.target_write(tg, cx, seq, pfx, [], depth)
            elif isinstance(st, (ast.Raise, ast.Assert)):
                for sub in ast.iter_child_nodes(st):
                    if isinstance(sub, ast.expr):
                        self.sources(sub, cx, pre, pfx, depth)
                seq += pre
            elif isinstance(st, ast.ImportFrom):
                for al in st.names:
                    cx.local_imports[al.asname or al.name] = st.module or ""
                    if st.module == "operator":
                        cx.local_imports["operator:" + (al.asname or al.name)] = al.name
            elif isinstance(st, (ast.Pass, ast.Break, ast.Continue, ast.Import, ast.Nonlocal)):
                pass
            elif isinstance(st, ast.FunctionDef):
                # a nested function: conservatively its body is assumed to run (its writes to captured variables count);
                # its own parameters are fresh
                clo = self.make_closure(st, cx)
                self.apply_closure(clo, [], {}, cx, seq, pfx, depth)
                cx.local_defs[pfx + st.name] = clo
            elif isinstance(st, ast.ClassDef):
                cx.notes.append("nested class %s ignored" % st.name)
            else:
                cx.notes.append("unclassified statement %s" % type(st).__name__)
                for p in range(len(cx.params)):
                    seq.append(("write", p))
        return ("seq", seq)

    def function(self, q):
        fd, mod, cls = self.funcs[q]
        cx = Ctx(q)
        cx.module, cx.cls, cx.stack, cx.inl = mod, cls, [q], 0
        a = fd.args
        names = [p.arg for p in a.args] + [p.arg for p in a.kwonlyargs]
        if a.vararg:
            names.append(a.vararg.arg)
        if a.kwarg:
            names.append(a.kwarg.arg)
        if cls is not None and names and names[0] == "self":
            names = names[1:]          # the instance is explicit state, not an argument array (DESIGN App. A)
        for n in names:
            cx.var(n)
        cx.params = list(names)
        rets = []
        body = self.block(fd.body, cx, "", 0, rets)
        return cx, body


def self_prefix(pfx, cx):
    return ""      # instance attributes are shared between a method and the methods it calls


def walk(ir):
    kind = ir[0]
    if kind == "seq":
        for x in ir[1]:
            yield from walk(x)
    elif kind == "ite":
        yield from walk(ir[1]); yield from walk(ir[2])
    elif kind == "loop":
        yield from walk(ir[1])
    else:
        yield ir


def prune(ir, k):
    """Drop everything that concerns variables which can never refer to a parameter's memory (flow-insensitive
    closure: parameters are rooted; x is rooted if some `assign x srcs` has a rooted source).  Such variables have
    roots = [] in every abstract state, so removing their statements changes neither the analysis result nor soundness;
    it keeps the generated terms (and the kernel's evaluation depth) small."""
    rooted = set(range(k))
    changed = True
    leaves = list(walk(ir))
    while changed:
        changed = False
        for st in leaves:
            if st[0] == "assign" and st[1] not in rooted and any(s in rooted for s in st[2]):
                rooted.add(st[1]); changed = True

    def go(ir):
        kind = ir[0]
        if kind == "seq":
            items = [go(x) for x in ir[1]]
            return ("seq", [x for x in items if x is not None])
        if kind == "ite":
            return ("ite", go(ir[1]) or ("seq", []), go(ir[2]) or ("seq", []))
        if kind == "loop":
            return ("loop", go(ir[1]) or ("seq", []))
        if kind == "assign":
            return ("assign", ir[1], [s for s in ir[2] if s in rooted]) if ir[1] in rooted else None
        if kind == "write":
            return ir if ir[1] in rooted else None
        return ir
    return go(ir)


def flatten(ir):
    """nested tuples -> (lean term, pretty text)"""
    kind = ir[0]
    if kind == "seq":
        items = [flatten(x) for x in ir[1]]
        items = [x for x in items if x is not None]
        if not items:
            return None
        t = items[-1]
        for x in reversed(items[:-1]):
            t = "(.seq %s %s)" % (x, t)
        return t
    if kind == "assign":
        return "(.assign %d [%s])" % (ir[1], ", ".join(str(s) for s in sorted(set(ir[2]))))
    if kind == "write":
        return "(.write %d)" % ir[1]
    if kind == "globalWrite":
        if RNG_ONLY[0] and len(ir) > 1 and ir[1] == "state":
            return None               # projection used for C06: only the process-global random generators count
        return ".globalWrite"
    if kind == "ite":
        l, r = flatten(ir[1]), flatten(ir[2])
        if l is None and r is None:
            return None
        return "(.ite %s %s)" % (l or ".skip", r or ".skip")
    if kind == "loop":
        b = flatten(ir[1])
        return None if b is None else "(.loop %s)" % b
    raise ValueError(kind)


RNG_MODULES = ("aotools/turbulence/phasescreen.py", "aotools/turbulence/infinitephasescreen.py")
RNG_ONLY = [False]     # flatten() projection switch (see translate(): rngProgs)
RNG_CONSTRUCTORS = {"default_rng", "RandomState", "Generator", "Random", "SystemRandom"}


def collect(repo=REPO, modules=None):
    funcs, module_names, mro = {}, {}, {}
    collect.imported, collect.module_objects, collect.module_funcs = {}, {}, {}
    for mod in (modules if modules is not None else list_modules(repo)):
        path = os.path.join(repo, mod)
        tree = ast.parse(open(path).read(), path)
        mname = mod[:-3].replace("/", ".")
        names, imported, objects, mfuncs = set(), {}, set(), set()
        for st in tree.body:
            if isinstance(st, ast.ImportFrom):
                for al in st.names:
                    imported[al.asname or al.name] = st.module or ""
                    if st.module == "operator":
                        imported["operator:" + (al.asname or al.name)] = al.name
            if isinstance(st, ast.Import):
                for al in st.names:
                    imported[(al.asname or al.name).split(".")[0]] = al.name
            if isinstance(st, ast.FunctionDef):
                mfuncs.add(st.name)
            if isinstance(st, ast.Assign):
                for t in st.targets:
                    if isinstance(t, ast.Name):
                        names.add(t.id)
                        v = st.value
                        # module-level generator objects and mutable containers are hidden state when used from a function
                        if isinstance(v, ast.Call) and ((isinstance(v.func, ast.Attribute) and v.func.attr in RNG_CONSTRUCTORS) or
                                                        (isinstance(v.func, ast.Name) and v.func.id in RNG_CONSTRUCTORS)):
                            objects.add(t.id)
            if isinstance(st, ast.FunctionDef):
                funcs["%s.%s" % (mname, st.name)] = (st, mod, None)
            if isinstance(st, ast.ClassDef):
                cq = "%s.%s" % (mname, st.name)
                mro[cq] = [cq] + ["%s.%s" % (mname, b.id) for b in st.bases if isinstance(b, ast.Name) and b.id != "object"]
                for sub in st.body:
                    if isinstance(sub, ast.FunctionDef):
                        funcs["%s.%s" % (cq, sub.name)] = (sub, mod, cq)
        module_names[mod] = names
        collect.imported[mod], collect.module_objects[mod], collect.module_funcs[mod] = imported, objects, mfuncs
    for c, l in list(mro.items()):      # one more level of inheritance is all the library uses
        for b in list(l[1:]):
            l += [x for x in mro.get(b, [])[1:] if x not in l]
    return funcs, module_names, mro


def public(q, funcs):
    fd, mod, cls = funcs[q]
    if cls is None:
        return not fd.name.startswith("_")
    return not cls.split(".")[-1].startswith("_") and (not fd.name.startswith("_") or fd.name in ("__init__", "__repr__"))


def translate(repo=REPO, modules=None, findings=True):
    funcs, module_names, mro = collect(repo, modules)
    tr = Translator(funcs, module_names)
    tr.mro = mro
    tr.imported, tr.module_objects, tr.module_funcs = collect.imported, collect.module_objects, collect.module_funcs
    tr.by_any = {}
    for q, (fd, mod, cls) in funcs.items():
        if cls is None:
            tr.by_any.setdefault(fd.name, q)
    try:
        known = json.load(open(os.path.join(VERIF, "findings", "C20.json")))["findings"] if findings else []
    except FileNotFoundError:
        known = []
    known_impure = {e["function"] for e in known if e.get("status") == "open" and e.get("function")}
    entries, meta, rng_entries = [], {}, []
    for q in sorted(funcs):
        if not public(q, funcs):
            continue
        cx, body = tr.function(q)
        k, m = len(cx.params), max(len(cx.vars), 1)
        term = flatten(prune(body, k)) or ".skip"
        entries.append((q, k, m, term))
        if funcs[q][1] in RNG_MODULES:
            RNG_ONLY[0] = True
            try:
                rng_entries.append((q, k, m, flatten(prune(body, k)) or ".skip"))
            finally:
                RNG_ONLY[0] = False
        meta[q] = {"params": cx.params, "vars": sorted(cx.vars, key=cx.vars.get), "notes": cx.notes,
                   "module": funcs[q][1], "line": funcs[q][0].lineno, "known_impure": q in known_impure}
    pure = [e for e in entries if e[0] not in known_impure]
    impure = [e for e in entries if e[0] in known_impure]
    idx = {e[0]: i for i, e in enumerate(entries)}
    defs = "".join("def prog_%d : Prog := ⟨%d, %d, %s⟩\n" % (idx[e[0]], e[1], e[2], e[3]) for e in entries)

    def lst(name, items):
        return "def %s : List (String × Prog) :=\n  [%s]\n" % (
            name, ",\n   ".join('("%s", prog_%d)' % (e[0], idx[e[0]]) for e in items))
    src = ("/- GENERATED by harness/translate_effects.py from /repo on every run. DO NOT EDIT. -/\n"
           "import AoVerif.Model.Effects\n\nnamespace AoVerif.Gen\nopen AoVerif.Effects\nopen AoVerif.Effects.Stmt\n\n"
           + defs + "\n" + lst("pureProgs", pure) + "\n" + lst("knownImpureProgs", impure) + "\n"
           + "def progs : List (String × Prog) := pureProgs ++ knownImpureProgs\n\n"
           + "/-- the random-number projection of the screen modules' effect terms: as `progs`, except that writes to module-level state\n"
           + "other than the process-global random generators are dropped (C06 is about the random stream; hidden state is C20's subject) -/\n"
           + "def rngProgs : List (String × Prog) :=\n  [%s]\n\nend AoVerif.Gen\n"
           % ",\n   ".join('("%s", ⟨%d, %d, %s⟩)' % e for e in rng_entries))
    # per-function obligations, each discharged by kernel evaluation; the generated proof script is untrusted input
    # to the kernel like any other proof
    chk = ("/- GENERATED by harness/translate_effects.py. DO NOT EDIT.  One kernel-checked obligation per public function. -/\n"
           "import AoVerif.Gen.Effects\n\nnamespace AoVerif.Gen\nopen AoVerif.Effects\n\n"
           + "".join("theorem chk_%d : pureCheck prog_%d = true := by decide +kernel\n" % (idx[e[0]], idx[e[0]]) for e in pure)
           + "".join("theorem chk_%d : pureCheck prog_%d = false := by decide +kernel\n" % (idx[e[0]], idx[e[0]]) for e in impure)
           + "\ntheorem pureProgs_checked : pureProgs.all (fun e => pureCheck e.2) = true := by\n  simp only [pureProgs, List.all_cons, List.all_nil, Bool.and_true, Bool.and_self"
           + "".join(", chk_%d" % idx[e[0]] for e in pure) + "]\n"
           + "\ntheorem knownImpureProgs_flagged : knownImpureProgs.all (fun e => !pureCheck e.2) = true := by\n  simp only [knownImpureProgs, List.all_cons, List.all_nil, Bool.and_true, Bool.and_self, Bool.not_false"
           + "".join(", chk_%d" % idx[e[0]] for e in impure) + "]\n\nend AoVerif.Gen\n")
    meta["__checks__"] = chk
    return src, meta


def corpus():
    """the regression corpus of impure / pure idioms (harness/t2_corpus): translated like the library, as a separate Lean
    module; functions m<k>_… must be flagged, ok<k>_… accepted (theorems in Props/C20)"""
    src, meta = translate(os.path.join(HERE, "t2_corpus"), modules=["aotools_like/corpus.py"], findings=False)
    meta.pop("__checks__")
    names = sorted(k for k in meta)
    out = src.replace("namespace AoVerif.Gen", "namespace AoVerif.GenCorpus").replace("end AoVerif.Gen", "end AoVerif.GenCorpus")
    out = out.replace("GENERATED by harness/translate_effects.py from /repo on every run",
                      "GENERATED by harness/translate_effects.py from harness/t2_corpus on every run")
    imp = [n for n in names if n.split(".")[-1].startswith("m")]
    pur = [n for n in names if n.split(".")[-1].startswith("ok")]
    tail = ("\nnamespace AoVerif.GenCorpus\n\ndef mustFlag : List String :=\n  [%s]\n\ndef mustAccept : List String :=\n  [%s]\n\nend AoVerif.GenCorpus\n"
            % (", ".join('"%s"' % n for n in imp), ", ".join('"%s"' % n for n in pur)))
    return out + tail, meta


def main():
    from .translate_formulas import write_if_changed
    src, meta = translate()
    write_if_changed(os.path.join(VERIF, "lean/AoVerif/Gen/Effects.lean"), src)
    write_if_changed(os.path.join(VERIF, "lean/AoVerif/Gen/EffectsChecks.lean"), meta.pop("__checks__"))
    csrc, _ = corpus()
    write_if_changed(os.path.join(VERIF, "lean/AoVerif/Gen/EffectsCorpus.lean"), csrc)
    write_if_changed(os.path.join(HERE, "_gen/effects.json"), json.dumps(meta, indent=1, sort_keys=True))


if __name__ == "__main__":
    main()
