"""
Shared machinery of the checks (DESIGN §2.4–2.6): PRNG, float transport, Lean build / audit / driver,
evidence, known findings, verdict.
"""
import fcntl
import hashlib
import json
import os
import random
import re
import struct
import subprocess
import sys
import time

HERE = os.path.dirname(os.path.abspath(__file__))
VERIF = os.path.dirname(HERE)
LEAN_DIR = os.path.join(VERIF, "lean")
REPO = os.environ.get("AOVERIF_REPO", "/repo")
ALLOWED_AXIOMS = {"propext", "Classical.choice", "Quot.sound"}
FORBIDDEN = re.compile(r"\b(sorry|admit|native_decide|bv_decide|implemented_by|unsafe)\b|^\s*axiom\s|maxHeartbeats\s+0\b",
                       re.M)
TRUSTED_BASE = [
    "Lean 4.33 kernel; axioms propext, Classical.choice, Quot.sound only (audited each run with #audit_namespace)",
    "Mathlib v4.33 definitions used to state the theorems",
    "translators harness/translate_formulas.py (T1) and harness/translate_effects.py (T2), self-validated each run",
    "correspondence harness (generator quality bounds what it sees; distribution recorded in this file)",
    "IEEE rounding, NumPy indexing/broadcast semantics and external numerical kernels are modelled, not verified",
]


# --------------------------------------------------------------------------- floats on the wire
def f2h(x):
    return "%016x" % struct.unpack("<Q", struct.pack("<d", float(x)))[0]


def h2f(s):
    return struct.unpack("<d", struct.pack("<Q", int(s, 16)))[0]


def dyadic(rng, lo, hi, bits=4):
    """a dyadic rational in [lo, hi] with `bits` fractional bits (exact in binary64 arithmetic)"""
    q = 1 << bits
    return rng.randint(int(lo * q), int(hi * q)) / q


def close(a, b, rtol, atol=0.0):
    if a != a or b != b:
        return (a != a) and (b != b)
    if a in (float("inf"), float("-inf")) or b in (float("inf"), float("-inf")):
        return a == b
    return abs(a - b) <= atol + rtol * max(abs(a), abs(b))


# --------------------------------------------------------------------------- Lean side
class LeanError(Exception):
    pass


def _lake_lock():
    os.makedirs(os.path.join(LEAN_DIR, ".lake"), exist_ok=True)
    fh = open(os.path.join(LEAN_DIR, ".lake", "aoverif.lock"), "w")
    fcntl.flock(fh, fcntl.LOCK_EX)
    return fh


def _run(cmd, inp=None, timeout=3600):
    env = dict(os.environ)
    p = subprocess.run(cmd, cwd=LEAN_DIR, input=inp, capture_output=True, text=True, timeout=timeout, env=env)
    out = "\n".join(l for l in (p.stdout + "\n" + p.stderr).splitlines() if "conda" not in l)
    return p.returncode, p.stdout, out


def lake_build(targets, timeout=3600):
    """returns (ok, log).  Builds with whatever Gen/ currently contains."""
    lock = _lake_lock()
    try:
        rc, _, log = _run(["lake", "build"] + list(targets), timeout=timeout)
    finally:
        lock.close()
    return rc == 0, log


def lean_errors(log):
    """(file, line, message) triples of the errors in a lake build log"""
    out = []
    for m in re.finditer(r"error: (\S+?\.lean):(\d+):(\d+): (.*)", log):
        out.append((m.group(1), int(m.group(2)), m.group(4)))
    return out


def theorem_at(path, line):
    """name of the theorem/def enclosing `line` of a Lean file (for reporting which obligation broke)"""
    try:
        src = open(os.path.join(LEAN_DIR, path)).read().splitlines()
    except OSError:
        return None
    for i in range(min(line, len(src)) - 1, -1, -1):
        m = re.match(r"\s*(?:private\s+|protected\s+)?(?:theorem|lemma|def|example|instance)\s+(\S+)", src[i])
        if m:
            return m.group(1)
    return None


def audit(namespace, module):
    """{theorem name: [axioms]} for every theorem in `namespace` (which lives in Lean module `module`)"""
    d = os.path.join(LEAN_DIR, ".audit")
    os.makedirs(d, exist_ok=True)
    path = os.path.join(d, namespace.replace(".", "_") + ".lean")
    with open(path, "w") as fh:
        fh.write("import AoVerif.Audit\nimport %s\n#audit_namespace %s\n" % (module, namespace))
    rc, _, log = _run(["lake", "env", "lean", path])
    if rc != 0:
        raise LeanError("audit failed:\n" + log)
    res = {}
    for m in re.finditer(r"AUDIT (\S+) \| ?(.*)", log):
        res[m.group(1)] = [a.strip() for a in m.group(2).split(",") if a.strip()]
    return res


def forbidden_tokens(paths):
    """occurrences of sorry/axiom/native_decide/... outside comments in the given Lean files"""
    hits = []
    for p in paths:
        try:
            src = open(p).read()
        except OSError:
            continue
        src = re.sub(r"/-.*?-/", lambda m: "\n" * m.group(0).count("\n"), src, flags=re.S)
        src = re.sub(r"--.*", "", src)
        for m in FORBIDDEN.finditer(src):
            hits.append("%s:%d:%s" % (os.path.relpath(p, VERIF), src.count("\n", 0, m.start()) + 1, m.group(0).strip()))
    return hits


def lean_files(*subdirs):
    out = []
    for sd in subdirs:
        base = os.path.join(LEAN_DIR, "AoVerif", sd)
        if os.path.isfile(base + ".lean"):
            out.append(base + ".lean")
        for root, _, files in os.walk(base):
            out += [os.path.join(root, f) for f in files if f.endswith(".lean")]
    return sorted(out)


def run_driver(lines, name, timeout=3600):
    """pipe operation lines to the Lean driver of AoVerif.Drive.<name>; one answer per line.
    Builds the Drive module first (it may depend on regenerated Gen/ files)."""
    if not lines:
        return []
    ok, log = lake_build(["AoVerif.Drive." + name])
    if not ok:
        raise LeanError("driver module AoVerif.Drive.%s does not build:\n%s" % (name, log[-3000:]))
    inp = "\n".join(lines) + "\n"
    rc, out, log = _run(["lake", "env", "lean", "--run", os.path.join("drivers", name + ".lean")], inp=inp, timeout=timeout)
    if rc != 0:
        raise LeanError("driver failed:\n" + log[-3000:])
    ans = [l for l in out.splitlines() if "conda" not in l]
    if len(ans) != len(lines):
        raise LeanError("driver answered %d lines for %d operations" % (len(ans), len(lines)))
    return ans



class Guarded:
    """proxy for a library module under test: a call that raises on an argument list containing NumPy scalars / 0-d arrays is
    recorded as a concrete failing input (those are in-domain spellings of a number and never raise on the unchanged tree) and
    then retried with plain Python numbers, so that the rest of the check still runs and can find what else is wrong"""
    def __init__(self, mod, chk):
        self._mod, self._chk = mod, chk

    def __getattr__(self, name):
        f = getattr(self._mod, name)
        if not callable(f) or isinstance(f, type):
            return f
        chk = self._chk

        def g(*a, **k):
            try:
                return f(*a, **k)
            except Exception as ex:
                import numpy
                plain = [x.item() if (isinstance(x, numpy.generic) or (isinstance(x, numpy.ndarray) and x.ndim == 0)) else x for x in a]
                if all(p is q for p, q in zip(plain, a)):
                    raise
                if not getattr(chk, "_guard_seen", set()) & {(name, type(ex).__name__)}:
                    chk.__dict__.setdefault("_guard_seen", set()).add((name, type(ex).__name__))
                    chk.fail("exception:%s:%s:numpy-scalar-argument" % (name, type(ex).__name__),
                             "%s raises %s: %s when a parameter is a NumPy scalar / 0-d array (%s) — with Python numbers of the same "
                             "value it is then retried" % (name, type(ex).__name__, str(ex)[:160],
                                                          ", ".join(type(x).__name__ for x in a if not isinstance(x, numpy.ndarray) or x.ndim == 0)),
                             {"function": name, "scalars": [repr(x) for x in a if not isinstance(x, numpy.ndarray) or x.ndim == 0]})
                return f(*plain, **k)
        return g

# --------------------------------------------------------------------------- known findings
def load_known_findings(prop):
    path = os.path.join(VERIF, "known_findings.json")
    try:
        data = json.load(open(path))
    except FileNotFoundError:
        return []
    return [e for e in data.get("findings", []) if e.get("property") == prop]


# --------------------------------------------------------------------------- result of one check
class Check:
    """Collects what one run of one property's check did, then decides and writes evidence."""

    def __init__(self, prop, tier, seed):
        self.prop, self.tier, self.seed = prop, tier, seed
        self.t0 = time.time()
        self.rng = random.Random((seed * 1000003) ^ int(hashlib.sha256(prop.encode()).hexdigest()[:8], 16))
        self.broken = []          # dicts {kind: 'proof'|'translator'|'correspondence'|'audit', what, detail}
        self.failures = []        # concrete failing inputs on the REAL code: {key, what, replay}
        self.obligations = {}     # theorem -> axioms
        self.required = []
        self.evaluations = 0
        self.nontrivial = set()
        self.samples = []
        self.hist = {}
        self.rule = ""
        self.assumptions = []
        self.notes = []
        self.corr_cases = 0
        self.oracle_cases = 0

    # --- bookkeeping helpers used by property modules
    def count(self, key, n=1):
        self.hist[key] = self.hist.get(key, 0) + n

    def case(self, desc, nontrivial=True, sample=None):
        self.evaluations += 1
        self.last_case = desc
        if nontrivial:
            self.nontrivial.add(desc if isinstance(desc, str) else json.dumps(desc, sort_keys=True, default=str))
        if sample is not None and len(self.samples) < 6:
            self.samples.append(sample)

    def broke(self, kind, what, detail=""):
        self.broken.append({"kind": kind, "what": what, "detail": detail[-4000:] if isinstance(detail, str) else detail})

    def fail(self, key, what, replay):
        """a concrete input on which the REAL code violates the property"""
        self.failures.append({"key": key, "what": what, "replay": replay})

    # --- Lean
    def build_and_audit(self, module, namespace, required):
        """lake build the property's theorem module, audit axioms, check the required theorems exist"""
        self.required = list(required)
        ok, log = lake_build([module])
        if not ok and getattr(self, "on_build_failure", None) is not None:
            errs = lean_errors(log)
            names = sorted({theorem_at(f, l) or f for (f, l, _) in errs}) or ["<build>"]
            # second route of the tie (t1check.use_reference): the regenerated model no longer carries the proofs — go back to the
            # committed reference model, whose theorems do check, and tie THAT to the code by correspondence
            if self.on_build_failure("lake build %s fails on the regenerated model (%s)" % (module, ", ".join(names)[:300])):
                ok, log = lake_build([module])
        if not ok:
            errs = lean_errors(log)
            names = sorted({theorem_at(f, l) or f for (f, l, _) in errs}) or ["<build>"]
            self.broke("proof", "lake build %s failed; obligations that no longer check: %s" % (module, ", ".join(names)),
                       "\n".join("%s:%d: %s" % e for e in errs[:20]) or log[-3000:])
            return False
        try:
            self.obligations = audit(namespace, module)
        except LeanError as ex:
            self.broke("audit", "axiom audit failed", str(ex))
            return False
        for t in required:
            if namespace + "." + t not in self.obligations:
                self.broke("proof", "required theorem %s.%s is missing" % (namespace, t))
        for t, axs in self.obligations.items():
            extra = set(axs) - ALLOWED_AXIOMS
            if extra:
                self.broke("audit", "theorem %s depends on non-standard axioms %s" % (t, sorted(extra)))
        hits = forbidden_tokens(lean_files("Model", "Gen", "Lemmas", "Props", "Drive"))
        if hits:
            self.broke("audit", "forbidden tokens: " + "; ".join(hits[:10]))
        return not self.broken

    # --- verdict
    def finish(self, level="proof", checker_cmd=None):
        known = load_known_findings(self.prop)
        open_known = [k for k in known if k.get("status") == "open"]
        new_failures, matched = [], {}
        for f in self.failures:
            hit = None
            for k in open_known:
                if k.get("key") == f["key"]:
                    hit = k
                    break
            if hit is None:
                new_failures.append(f)
            else:
                matched.setdefault(hit["key"], (hit, f))
        for key, (k, f) in sorted(matched.items()):
            print("KNOWN-FINDING: property=%s %s" % (self.prop, k.get("what", f["what"])))
        violations = 0
        os.makedirs(os.path.join(VERIF, "replays"), exist_ok=True)
        if new_failures:
            f = new_failures[0]
            path = os.path.join(VERIF, "replays", "%s-%s.json" % (self.prop, hashlib.sha256(
                json.dumps(f, sort_keys=True, default=str).encode()).hexdigest()[:10]))
            with open(path, "w") as fh:
                json.dump({"property": self.prop, "seed": self.seed, "tier": self.tier, "failure": f,
                           "other_failures": new_failures[1:10], "broken": self.broken}, fh, indent=1, default=str)
            print("VIOLATION property=%s replay=%s" % (self.prop, path))
            for g in new_failures[:5]:
                print("  failing input: %s" % g["what"])
            violations = len(new_failures)
        elif self.broken:
            path = os.path.join(VERIF, "replays", "%s-broken-%s.json" % (self.prop, hashlib.sha256(
                json.dumps(self.broken, sort_keys=True, default=str).encode()).hexdigest()[:10]))
            with open(path, "w") as fh:
                json.dump({"property": self.prop, "seed": self.seed, "tier": self.tier,
                           "no_failing_input_found": True, "broken": self.broken}, fh, indent=1, default=str)
            for b in self.broken[:5]:
                print("  no longer checks: [%s] %s" % (b["kind"], b["what"]))
            print("VIOLATION property=%s replay=%s no-failing-input-found" % (self.prop, path))
            violations = 1
        self.write_evidence(level, checker_cmd, violations, [k for k, _ in matched.values()])
        return 1 if violations else 0

    def write_evidence(self, level, checker_cmd, violations, known_printed):
        nobl = len(self.obligations)
        ok_obl = sum(1 for t, a in self.obligations.items() if set(a) <= ALLOWED_AXIOMS)
        if any(b["kind"] == "proof" for b in self.broken):
            ok_obl = 0 if nobl == 0 else min(ok_obl, nobl - 1)
        cov = {
            "obligations": max(nobl, len(self.required), 1),
            "discharged": ok_obl,
            "checker_cmd": checker_cmd or ("cd /verif/lean && lake build AoVerif.Props.%s && lake env lean .audit/AoVerif_Props_%s.lean"
                                           % (self.prop, self.prop)),
            "trusted_base": TRUSTED_BASE,
            "theorems": {t.split(".")[-1]: a for t, a in sorted(self.obligations.items())},
            "required_theorems": self.required,
            "evaluations": max(self.evaluations, 1),
            "distinct_nontrivial": len(self.nontrivial),
            "rule": self.rule,
            "samples": self.samples or ["<none>"],
            "input_distribution": dict(sorted(self.hist.items())),
            "correspondence_cases": self.corr_cases,
            "oracle_cases": self.oracle_cases,
            "broken": self.broken,
            "known_findings_confirmed": [k.get("key") for k in known_printed],
            "notes": self.notes,
        }
        if cov["discharged"] < 1:
            # nothing could be discharged on this run (the build of the theorem module failed): the proof-level keys would be
            # untrue, so only the exploration-style counts are reported (the schema's fallback for level "proof")
            cov["proof_obligations_broken"] = True
            cov["obligations_expected"] = cov.pop("obligations")
            cov.pop("discharged")
        ev = {"property_id": self.prop, "tier": self.tier, "seed": self.seed, "level": level, "coverage": cov,
              "assumptions": self.assumptions, "wall_s": round(time.time() - self.t0, 2), "violations": violations}
        os.makedirs(os.path.join(VERIF, "evidence"), exist_ok=True)
        with open(os.path.join(VERIF, "evidence", self.prop + ".json"), "w") as fh:
            json.dump(ev, fh, indent=1, default=str)
