"""Self-validation of translator T1: the Float instantiation of every generated definition is run by the
Lean driver on generated arguments and compared with the Python function it was generated from."""
import ast
import importlib
import json
import os

import numpy

from . import common
from . import translate_formulas as T1


def regenerate(chk):
    """regenerate Gen/ from /repo's working tree; returns meta or None (and records the broken tie)"""
    try:
        formulas, dispatch, meta = T1.translate(common.REPO)
    except (T1.TranslateError, SyntaxError, OSError) as ex:
        chk.broke("translator", "T1 cannot translate the current source: %s" % ex)
        return None
    T1.write_if_changed(os.path.join(common.LEAN_DIR, "AoVerif/Gen/Formulas.lean"), formulas)
    T1.write_if_changed(os.path.join(common.LEAN_DIR, "AoVerif/Gen/FormulasDispatch.lean"), dispatch)
    T1.write_if_changed(os.path.join(common.HERE, "_gen/formulas.json"), json.dumps(meta, indent=1, sort_keys=True))
    return meta


def _extract_callable(meta_entry, params):
    """python callable evaluating the extracted assignment's right-hand side"""
    path = os.path.join(common.REPO, meta_entry["module"])
    tree = ast.parse(open(path).read())
    fdef = [s for s in tree.body if isinstance(s, ast.FunctionDef) and s.name == meta_entry["python"]][0]
    for st in ast.walk(fdef):
        if isinstance(st, ast.Assign) and len(st.targets) == 1 and isinstance(st.targets[0], ast.Name) \
                and st.targets[0].id == meta_entry["extract"]:
            code = compile(ast.Expression(st.value), path, "eval")
            return lambda *a: eval(code, {"numpy": numpy, "np": numpy}, dict(zip(params, a)))
    raise RuntimeError("extract target vanished")


def selfcheck(chk, meta, names, arggen, n_cases, rtol=1e-11, atol=0.0, rtol_by_name=None):
    """arggen(lean_name, rng) -> dict param -> value (scalar float | list of floats | 2-list | row-key)"""
    lines, expect, descr = [], [], []
    tables = {k[6:]: v for k, v in meta.items() if k.startswith("table:")}
    for name in names:
        m = meta[name]
        mod = importlib.import_module(m["module"][:-3].replace("/", "."))
        params = [p for p, _ in m["layout"]]
        fn = _extract_callable(m, params) if m["extract"] else getattr(mod, m["python"])
        for _ in range(n_cases):
            args = arggen(name, chk.rng)
            wire, call = [], []
            n = None
            for p, k in m["layout"]:
                v = args[p]
                if k == "scalar":
                    wire.append(v); call.append(v)
                elif k == "array":
                    n = len(v); wire += list(v); call.append(numpy.array(v, dtype=float))
                elif k == "vec2":
                    wire += list(v); call.append(numpy.array(v, dtype=float))
                elif k == "row":
                    row = [t for t in tables.values() if v in t][0][v]
                    wire += [float(x) for x in row]; call.append(v)
            if n is not None:
                wire = [float(n)] + wire
            try:
                with numpy.errstate(all="ignore"):
                    e = float(fn(*call))
            except Exception as ex:   # the real function rejects this input: not a translator matter
                chk.count("t1:python-raised:" + type(ex).__name__)
                continue
            lines.append("T1 %s %s" % (name, " ".join(common.f2h(x) for x in wire)))
            expect.append(e)
            descr.append((name, args))
    ans = common.run_driver(lines, "T1")
    bad = 0
    for line, a, e, (name, args) in zip(lines, ans, expect, descr):
        chk.corr_cases += 1
        chk.count("t1:" + name)
        chk.case(("t1", name, json.dumps(args, sort_keys=True, default=str)), sample={"op": "T1 " + name, "args": args, "impl": e})
        rt = (rtol_by_name or {}).get(name, rtol)
        if a == "bad-op" or not common.close(common.h2f(a), e, rt, atol):
            bad += 1
            if bad <= 3:
                chk.broke("correspondence", "T1 self-check: generated Lean %s disagrees with the Python source on %s: lean=%s python=%r"
                          % (name, args, a if a == "bad-op" else common.h2f(a), e))
    return bad
