"""Self-validation of translator T1: the Float instantiation of every generated definition is run by the
Lean driver on generated arguments and compared with the Python function it was generated from."""
import ast
import importlib
import json
import os

import numpy

from . import common
from . import translate_formulas as T1


REF = os.path.join(common.HERE, "ref")       # the committed reference model: T1's output on the tree the theorems were proved for
GEN = {"Formulas.lean": os.path.join(common.LEAN_DIR, "AoVerif/Gen/Formulas.lean"),
       "FormulasDispatch.lean": os.path.join(common.LEAN_DIR, "AoVerif/Gen/FormulasDispatch.lean"),
       "formulas.json": os.path.join(common.HERE, "_gen/formulas.json")}


def use_reference(chk, meta, reason):
    """SECOND ROUTE of the tie.  The translator route is not available for the current source (T1 cannot translate it, or the proofs
    do not go through on what it generates — both happen for harmless rewrites).  The model is then the committed reference model
    (harness/ref), for which every theorem is kernel-checked, and the tie between it and the current code is the correspondence
    check: `selfcheck` runs its Float instantiation against the current Python functions on ten times as many generated arguments.
    A disagreement there, or a reference entry that can no longer be observed in the code, breaks the tie."""
    for name, dst in GEN.items():
        T1.write_if_changed(dst, open(os.path.join(REF, name)).read())
    ref = json.load(open(os.path.join(REF, "formulas.json")))
    meta.clear()
    meta.update(ref)
    chk.t1 = {"mode": "reference", "reason": reason}
    chk.on_build_failure = None
    chk.notes.append("T1: translator route unavailable for the current source (%s); the committed reference model is used and tied "
                     "to the code by correspondence (second route, DESIGN §2.2)" % reason)
    return True


def regenerate(chk):
    """regenerate Gen/ from /repo's working tree (first route); fall back to the reference model (second route).  Returns meta."""
    meta = {}
    try:
        formulas, dispatch, m = T1.translate(common.REPO)
    except (T1.TranslateError, SyntaxError, OSError, KeyError, IndexError, AttributeError, RecursionError) as ex:
        use_reference(chk, meta, "T1 cannot translate the current source: %s" % ex)
        return meta
    meta.update(m)
    T1.write_if_changed(GEN["Formulas.lean"], formulas)
    T1.write_if_changed(GEN["FormulasDispatch.lean"], dispatch)
    T1.write_if_changed(GEN["formulas.json"], json.dumps(m, indent=1, sort_keys=True))
    same = formulas == open(os.path.join(REF, "Formulas.lean")).read()
    chk.t1 = {"mode": "regenerated", "identical_to_reference": same}
    if not same:
        chk.on_build_failure = lambda reason: use_reference(chk, meta, reason)
        chk.notes.append("T1: the regenerated model differs from the committed reference model (the source of a translated function "
                         "changed); the theorems are re-checked against the regenerated text")
    return meta


def _extract_callable(meta_entry, params):
    """python callable evaluating the extracted assignment's right-hand side"""
    path = os.path.join(common.REPO, meta_entry["module"])
    tree = ast.parse(open(path).read())
    fdef = [s for s in tree.body if isinstance(s, ast.FunctionDef) and s.name == meta_entry["python"]][0]
    for st in ast.walk(fdef):
        if isinstance(st, ast.Assign) and len(st.targets) == 1 and isinstance(st.targets[0], ast.Name) \
                and st.targets[0].id == meta_entry["extract"]:
            code = compile(ast.Expression(st.value), path, "eval")
            return lambda *a: eval(code, {"numpy": numpy, "np": numpy}, dict(zip(params, a)))
    raise RuntimeError("extract target vanished")


# ------------------------------------------------------------------------------------------------------------------------
# Observers: the quantity an `extract` entry models, obtained through the PUBLIC function instead of by picking an assignment out of
# its body (used when the assignment can no longer be found or evaluated — a renamed local, a formula moved into a helper).
class _OnesAt(numpy.random.Generator):
    """a Generator whose normal draws are 1.0 at the stream positions lo <= k < hi and 0.0 elsewhere"""
    def __init__(self, lo, hi):
        super().__init__(numpy.random.PCG64(0))
        self._lo, self._hi, self._pos = lo, hi, 0

    def _serve(self, size):
        shape = () if size is None else (tuple(size) if hasattr(size, "__len__") else (int(size),))
        n = int(numpy.prod(shape)) if shape else 1
        k = numpy.arange(self._pos, self._pos + n)
        self._pos += n
        out = ((k >= self._lo) & (k < self._hi)).astype(float).reshape(shape)
        return float(out) if size is None else out

    def normal(self, loc=0.0, scale=1.0, size=None):
        return loc + scale * self._serve(size)

    def standard_normal(self, size=None, dtype=numpy.float64, out=None):
        return self._serve(size)


def _observe_psd_hi(f, fm, f0, r0):
    """PSD of ft_phase_screen at frequency f: unit real draws, zero imaginary draws and an identity `FFT` object make the returned
    screen equal sqrt(PSD)·del_f·N² on the frequency grid (4x4 grid, pixel size chosen so that one grid frequency is f)"""
    from aotools.turbulence import phasescreen
    if not f > 0:
        f = 1e-12 * f0        # the code zeroes the zero-frequency sample; the formula's value there is its limit (equal to rounding)
    N = 4
    delta = 1. / (N * f)
    del_f = 1. / (N * delta)
    L0, l0 = 1. / f0, 5.92 / (2 * numpy.pi * fm)
    scr = phasescreen.ft_phase_screen(r0, N, delta, L0, l0, FFT=lambda a: a, seed=_OnesAt(0, N * N))
    return (float(numpy.asarray(scr)[N // 2, N // 2 + 1]) / (del_f * N ** 2)) ** 2


def _observe_psd_sh(f, fm, f0, r0):
    """PSD of the sub-harmonic part of ft_sh_phase_screen at frequency f: every draw zero except the real part of the coefficient
    of the plane wave (fx, fy) = (+del_f, 0) on the first sub-harmonic grid (stream position 2N² + 5), on a 4x4 grid whose pixel
    size makes del_f = 1/(3·N·delta) equal to f.  The returned screen is then c·(cos(2π f x) − mean) with c = sqrt(PSD)·del_f;
    c is recovered from the difference of two pixels."""
    from aotools.turbulence import phasescreen
    if not f > 0:
        f = 1e-12 * f0        # the code zeroes the zero-frequency sample; the formula's value there is its limit (equal to rounding)
    N = 4
    delta = 1. / (3 * N * f)
    D = N * delta
    del_f = 1 / (3 * D)
    L0, l0 = 1. / f0, 5.92 / (2 * numpy.pi * fm)
    k = 2 * N * N + 5
    scr = numpy.asarray(phasescreen.ft_sh_phase_screen(r0, N, delta, L0, l0, seed=_OnesAt(k, k + 1)))
    x = numpy.arange(-N / 2, N / 2) * delta
    c = float(scr[0, N // 2] - scr[0, 0]) / float(numpy.cos(2 * numpy.pi * del_f * x[N // 2]) - numpy.cos(2 * numpy.pi * del_f * x[0]))
    return (c / del_f) ** 2


def _observe_r0_kernel(slopeVar, wavelength, subapDiam):
    """r0_from_slopes on one sub-aperture whose two slope samples ±sqrt(v) have variance v"""
    from aotools.turbulence import atmos_conversions
    s = float(numpy.sqrt(slopeVar))
    return float(atmos_conversions.r0_from_slopes(numpy.array([[-s, s]]), wavelength, subapDiam))


OBSERVERS = {"psd_ft_phase_screen": _observe_psd_hi, "psd_ft_sh_phase_screen": _observe_psd_sh,
             "r0_from_slopes_kernel": _observe_r0_kernel}


def callable_for(chk, name, m, params):
    """the Python side of the correspondence for model entry `name`: the function itself, the extracted assignment, or — when that
    assignment cannot be found or evaluated any more — the observer through the public function"""
    mod = importlib.import_module(m["module"][:-3].replace("/", "."))
    if not m["extract"]:
        return getattr(mod, m["python"])
    try:
        fn = _extract_callable(m, params)
        probe = {"psd_ft_phase_screen": (1.3, 40., 0.05, 0.2), "psd_ft_sh_phase_screen": (1.3, 40., 0.05, 0.2)}.get(name)
        if probe is not None:
            fn(*probe)                          # the extracted expression must be evaluable from the declared parameters alone
        return fn
    except Exception as ex:
        if name in OBSERVERS:
            chk.notes.append("T1: %s is observed through the public function (the assignment to `%s` could not be used: %s)"
                             % (name, m["extract"], str(ex)[:120]))
            chk.count("t1:observer:" + name)
            obs = OBSERVERS[name]

            def observed(*a):
                if any(isinstance(x, numpy.ndarray) and x.ndim > 0 for x in a):
                    return numpy.vectorize(obs, otypes=[float])(*a)
                return obs(*a)
            observed.is_observer = True
            return observed
        raise


def selfcheck(chk, meta, names, arggen, n_cases, rtol=1e-11, atol=0.0, rtol_by_name=None):
    """arggen(lean_name, rng) -> dict param -> value (scalar float | list of floats | 2-list | row-key)"""
    lines, expect, descr = [], [], []
    tables = {k[6:]: v for k, v in meta.items() if k.startswith("table:")}
    reference = getattr(chk, "t1", {}).get("mode") == "reference"
    if reference:
        n_cases *= 10                 # the correspondence is now the only tie between model and code
    for name in names:
        m = meta[name]
        params = [p for p, _ in m["layout"]]
        try:
            fn = callable_for(chk, name, m, params)
        except Exception as ex:
            chk.broke("correspondence", "the %s model entry %s cannot be observed in the current source (%s: %s)"
                      % ("reference" if reference else "generated", name, type(ex).__name__, str(ex)[:200]))
            continue
        for _ in range(n_cases):
            args = arggen(name, chk.rng)
            wire, call = [], []
            n = None
            for p, k in m["layout"]:
                v = args[p]
                if k == "scalar":
                    wire.append(v); call.append(v)
                elif k == "array":
                    n = len(v); wire += list(v); call.append(numpy.array(v, dtype=float))
                elif k == "vec2":
                    wire += list(v); call.append(numpy.array(v, dtype=float))
                elif k == "row":
                    row = [t for t in tables.values() if v in t][0][v]
                    wire += [float(x) for x in row]; call.append(v)
            if n is not None:
                wire = [float(n)] + wire
            try:
                with numpy.errstate(all="ignore"):
                    try:
                        e = float(fn(*call))
                    except Exception as ex0:
                        # an EXTRACTED assignment (not the function itself) that cannot be evaluated from the declared parameters any more
                        # (the source was restructured around it): not the library raising — observe through the public function
                        # instead, or report the correspondence as lost
                        if not m["extract"] or getattr(fn, "is_observer", False):
                            raise
                        if name not in OBSERVERS:
                            chk.broke("correspondence", "the extracted assignment to `%s` in %s can no longer be evaluated from its "
                                      "parameters (%s: %s)" % (m["extract"], m["python"], type(ex0).__name__, str(ex0)[:160]))
                            break
                        chk.notes.append("T1: %s is observed through the public function (evaluating the assignment to `%s` raised %s: %s)"
                                         % (name, m["extract"], type(ex0).__name__, str(ex0)[:120]))
                        chk.count("t1:observer:" + name)
                        obs = OBSERVERS[name]

                        def fn(*a, _obs=obs):
                            if any(isinstance(x, numpy.ndarray) and x.ndim > 0 for x in a):
                                return numpy.vectorize(_obs, otypes=[float])(*a)
                            return _obs(*a)
                        fn.is_observer = True
                        e = float(fn(*call))
            except Exception as ex:   # the real function rejects an argument from the property's domain (it never does on the
                chk.count("t1:python-raised:" + type(ex).__name__)           # unchanged tree): a concrete failing input
                if getattr(fn, "is_observer", False) and not (args.get("f", 1.0) > 0):
                    continue                                                 # an observer has no grid for frequency 0
                chk.fail("t1:raises:%s" % name, "%s(%s) raises %s: %s" % (m["python"], args, type(ex).__name__, str(ex)[:200]),
                         {"kind": "t1-selfcheck", "name": name, "args": args})
                break
            lines.append("T1 %s %s" % (name, " ".join(common.f2h(x) for x in wire)))
            expect.append(e)
            descr.append((name, args))
    ans = common.run_driver(lines, "T1")
    bad = 0
    for line, a, e, (name, args) in zip(lines, ans, expect, descr):
        chk.corr_cases += 1
        chk.count("t1:" + name)
        chk.case(("t1", name, json.dumps(args, sort_keys=True, default=str)), sample={"op": "T1 " + name, "args": args, "impl": e})
        rt = (rtol_by_name or {}).get(name, rtol)
        if a == "bad-op" or not common.close(common.h2f(a), e, rt, atol):
            bad += 1
            if bad <= 3:
                chk.broke("correspondence", "T1 self-check: %s Lean model %s disagrees with the Python source on %s: lean=%s python=%r"
                          % ("reference" if reference else "generated", name, args, a if a == "bad-op" else common.h2f(a), e))
    return bad
