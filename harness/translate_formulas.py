"""
Translator T1 (DESIGN §2.2): closed-form Python functions of /repo/aotools -> Lean definitions.

Regenerated on every run from /repo's *working tree*.  Output:
  lean/AoVerif/Gen/Formulas.lean          polymorphic defs over [Transc K] + standard arithmetic classes
  lean/AoVerif/Gen/FormulasDispatch.lean  `evalFormula : String -> Array Float -> Option Float` for the driver
  harness/_gen/formulas.json              parameter layout for the harness self-check

Supported subset: straight-line assignments / augmented assignments / return of arithmetic
expressions (+ - * / **, unary minus, numeric literals, names, numpy.pi, numpy.sqrt/exp/log10/abs/cos/sin,
scipy.special.gamma/kv, float(), numpy.float32() [identity on the exact model], x[..., k] component
selection on declared vec params, `.sum(...)` over declared array params, module-level literal-table
lookups TABLE[key][k] with `key` a declared row parameter, calls to other translated functions,
`numpy.where(a <cmp> b, x, y)` with one comparison `== != <= >=` [-> `if … then x else y`; equality is rendered
through `≤` both ways, which is IEEE `==` at Float (false on NaN) and `=` on a linear order; the definition and
every translated function calling it then also take `[LE K] [DecidableLE K]`]).
Idioms of ordinary maintenance are followed too (added after the false-alarm campaign, DESIGN §7): module-level scalar constants
(inlined), calls to other module-level helper functions (translated on demand, parameter kinds taken from the call site),
array-valued locals (`w = cn2*z**p; return w.sum(axis)`), a comparison bound to a local and used as the condition of `numpy.where`,
`a, b, c = TABLE[row]`, `numpy.asarray/asanyarray/array(x, …)` [identity], and statements that cannot change the returned value
of an in-domain call: `if …: raise …` guards, calls of validators (functions that only raise), `if isinstance(x, (list, tuple)):
x = numpy.asarray(x)` conversions.  These skips are recorded in the meta data (`skipped`).
Anything else raises TranslateError: the caller then falls back to the committed reference model and ties it to the code by
correspondence (harness/t1check.py); it is never silently a pass.
"""
import ast
import json
import os
from decimal import Decimal

REPO = os.environ.get("AOVERIF_REPO", "/repo")
HERE = os.path.dirname(os.path.abspath(__file__))
VERIF = os.path.dirname(HERE)


class TranslateError(Exception):
    pass


# ---------------------------------------------------------------------------------------------
# What to translate.  kind of a parameter: 'scalar' (default), 'array' (index function, common
# length n), 'vec2' (two scalars p_0, p_1), 'row' (a row [a,b,c] of a literal table -> 3 scalars),
# 'drop' (not part of the model, e.g. `axis`).
SPEC = [
    dict(module="aotools/turbulence/atmos_conversions.py", funcs={
        "cn2_to_r0": {}, "r0_to_cn2": {}, "r0_to_seeing": {}, "seeing_to_r0": {},
        "cn2_to_seeing": {}, "seeing_to_cn2": {},
        "coherenceTime": {"kinds": {"cn2": "array", "v": "array", "axis": "drop"}},
        "isoplanaticAngle": {"kinds": {"cn2": "array", "h": "array", "axis": "drop"}},
        "rytov_variance": {"kinds": {"cn2": "array", "h": "array", "axis": "drop"}},
        "slope_variance_from_r0": {},
        # the scalar kernel of r0_from_slopes: first assignment to `r0`, as a function of its free names
        "r0_from_slopes": {"extract": "r0", "params": ["slopeVar", "wavelength", "subapDiam"],
                           "lean_name": "r0_from_slopes_kernel"},
    }),
    dict(module="aotools/astronomy/_astronomy.py", tables=["FLUX_DICTIONARY"], funcs={
        "magnitude_to_flux": {"kinds": {"waveband": "row"}},
        "flux_to_magnitude": {"kinds": {"waveband": "row"}},
        "photons_per_mag": {"kinds": {"mask": "array"}},
        "photons_per_band": {"kinds": {"mask": "array", "waveband": "row"}},
    }),
    dict(module="aotools/turbulence/turb.py", funcs={"phase_covariance": {}}),
    dict(module="aotools/turbulence/slopecovariance.py", funcs={
        "structure_function_vk": {}, "structure_function_kolmogorov": {},
        "compute_covariance_xx": {"kinds": {"seperation": "vec2"}},
        "compute_covariance_yy": {"kinds": {"seperation": "vec2"}},
        "compute_covariance_xy": {"kinds": {"seperation": "vec2"}},
    }),
    dict(module="aotools/functions/karhunenLoeve.py", prefix="kl_", funcs={
        "stf_kolmogorov": {}, "stf_vonKarman": {}, "stf_vonKarman_yao": {},
        # C13: the constants of the Karhunen-Loeve construction (grid step, kernel normalisation, matrix scaling)
        "gkl_radii": {"extract": "d", "params": ["ri", "nr"], "lean_name": "kl_radii_d"},
        "gkl_kernel": {"extract": "fnorm", "params": ["ri"], "lean_name": "kl_fnorm"},
        "gkl_fcom": {"extract": "fktom", "params": ["ri", "nr"], "lean_name": "kl_fktom"},
    }),
    dict(module="aotools/turbulence/phasescreen.py", prefix="", funcs={
        "ft_phase_screen": {"extract": "PSD_phi", "params": ["f", "fm", "f0", "r0"],
                            "lean_name": "psd_ft_phase_screen"},
        "ft_sh_phase_screen": {"extract": "PSD_phi", "params": ["f", "fm", "f0", "r0"],
                               "lean_name": "psd_ft_sh_phase_screen"},
    }),
]

UNARY_FUNCS = {"sqrt": "Transc.sqrt", "exp": "Transc.exp", "log10": "Transc.log10",
               "abs": "Transc.abs", "cos": "Transc.cos", "sin": "Transc.sin", "gamma": "Transc.gamma",
               "absolute": "Transc.abs"}
IDENTITY_FUNCS = {"float", "float32", "float64", "asarray", "asanyarray", "array", "ascontiguousarray"}
ORDERED = set()     # lean names of the definitions that take [LE K] [DecidableLE K] (filled by translate())


def lit(v):
    """Python numeric literal -> Lean literal with the same decimal value: integer values as a cast
    natural number `((n : Nat) : K)` (friendly to ring/norm_num/push_cast), others as scientific literals."""
    if isinstance(v, bool):
        raise TranslateError("bool literal")
    if isinstance(v, int) or (isinstance(v, float) and v == int(v) and abs(v) < 2 ** 53):
        n = int(v)
        return "(-((%d : Nat) : K))" % (-n) if n < 0 else "((%d : Nat) : K)" % n
    if isinstance(v, float):
        d = Decimal(repr(v)).normalize()
        sign, digits, exp = d.as_tuple()
        m = "".join(map(str, digits)).lstrip("0") or "0"
        s = "(%se%d : K)" % (m, exp)
        return "(-%s)" % s if sign else s
    raise TranslateError("literal %r" % (v,))


class FuncTranslator:
    def __init__(self, modinfo, fname, fdef, opts, known, tables, ctx=None):
        self.modinfo, self.fname, self.fdef, self.opts = modinfo, fname, fdef, opts
        self.known = known          # python name -> (lean name, [(param, kind, default_ast)])
        self.tables = tables
        self.kinds = dict(opts.get("kinds", {}))
        self.locals = set()
        self.in_sum = False
        self.ordered = False        # uses a comparison (directly or through a translated callee)
        self.ctx = ctx              # ModuleContext: module constants, all function definitions, helper translation
        self.bool_locals = {}       # local name -> ast.Compare (a mask computed once and used in numpy.where)
        self.skipped = []           # statements skipped because they cannot change the value returned for in-domain input

    # ---- expressions
    def tail(self, node):
        if isinstance(node, ast.Attribute):
            return node.attr
        if isinstance(node, ast.Name):
            return node.id
        return None

    def expr(self, e):
        if isinstance(e, ast.Constant):
            return lit(e.value)
        if isinstance(e, ast.Name):
            k = self.kinds.get(e.id, "scalar")
            if e.id in self.locals:
                return e.id
            if k == "array":
                if not self.in_sum:
                    raise TranslateError("array %s used outside .sum()" % e.id)
                return "(%s i)" % e.id
            if k in ("vec2", "row", "drop"):
                raise TranslateError("%s param %s used as a scalar" % (k, e.id))
            if e.id not in self.param_names() and self.ctx is not None and e.id in self.ctx.constants:
                return ConstTranslator(self.ctx).expr(self.ctx.constants[e.id])     # module-level scalar constant, inlined
            return e.id
        if isinstance(e, ast.Attribute):
            if e.attr == "pi":
                return "(Transc.pi : K)"
            if e.attr in ("real",):
                raise TranslateError("complex")
            raise TranslateError("attribute %s" % ast.dump(e))
        if isinstance(e, ast.UnaryOp):
            if isinstance(e.op, ast.USub):
                return "(-%s)" % self.expr(e.operand)
            if isinstance(e.op, ast.UAdd):
                return self.expr(e.operand)
            raise TranslateError("unary op")
        if isinstance(e, ast.BinOp):
            if isinstance(e.op, ast.Pow):
                b = self.expr(e.left)
                if isinstance(e.right, ast.Constant) and isinstance(e.right.value, int) \
                        and not isinstance(e.right.value, bool) and e.right.value >= 0:
                    return "(%s ^ (%d : Nat))" % (b, e.right.value)
                return "(Transc.rpow %s %s)" % (b, self.expr(e.right))
            ops = {ast.Add: "+", ast.Sub: "-", ast.Mult: "*", ast.Div: "/"}
            for t, s in ops.items():
                if isinstance(e.op, t):
                    return "(%s %s %s)" % (self.expr(e.left), s, self.expr(e.right))
            raise TranslateError("binary op %s" % type(e.op).__name__)
        if isinstance(e, ast.Subscript):
            return self.subscript(e)
        if isinstance(e, ast.Call):
            return self.call(e)
        raise TranslateError("expression %s" % type(e).__name__)

    def subscript(self, e):
        # x[..., k] on a vec2 parameter
        if isinstance(e.value, ast.Name) and self.kinds.get(e.value.id) == "vec2":
            sl = e.slice
            if isinstance(sl, ast.Tuple) and len(sl.elts) == 2 and isinstance(sl.elts[0], ast.Constant) \
                    and sl.elts[0].value is Ellipsis and isinstance(sl.elts[1], ast.Constant) \
                    and sl.elts[1].value in (0, 1):
                return "%s_%d" % (e.value.id, sl.elts[1].value)
            raise TranslateError("vec2 subscript")
        # TABLE[row][k]
        if isinstance(e.value, ast.Subscript) and isinstance(e.value.value, ast.Name) \
                and e.value.value.id in self.tables and isinstance(e.value.slice, ast.Name) \
                and self.kinds.get(e.value.slice.id) == "row" and isinstance(e.slice, ast.Constant) \
                and e.slice.value in (0, 1, 2):
            return "%s_%d" % (e.value.slice.id, e.slice.value)
        raise TranslateError("subscript %s" % ast.dump(e))

    def compare(self, c):
        """a single comparison `a <op> b` as a decidable proposition over `[LE K] [DecidableLE K]`"""
        if isinstance(c, ast.Name) and c.id in self.bool_locals:
            c = self.bool_locals[c.id]
        if not (isinstance(c, ast.Compare) and len(c.ops) == 1 and len(c.comparators) == 1):
            raise TranslateError("condition of numpy.where must be a single comparison")
        a, b = self.expr(c.left), self.expr(c.comparators[0])
        self.ordered = True
        op = c.ops[0]
        if isinstance(op, ast.Eq):
            return "(%s ≤ %s ∧ %s ≤ %s)" % (a, b, b, a)
        if isinstance(op, ast.NotEq):
            return "(¬ (%s ≤ %s ∧ %s ≤ %s))" % (a, b, b, a)
        if isinstance(op, ast.LtE):
            return "(%s ≤ %s)" % (a, b)
        if isinstance(op, ast.GtE):
            return "(%s ≤ %s)" % (b, a)
        raise TranslateError("comparison %s (only == != <= >= are translated)" % type(op).__name__)

    def call(self, e):
        f = e.func
        # (expr).sum(...)
        if isinstance(f, ast.Attribute) and f.attr == "sum":
            if self.in_sum:
                raise TranslateError("nested sum")
            for a in e.args:
                if not (isinstance(a, ast.Name) and self.kinds.get(a.id) == "drop"):
                    raise TranslateError(".sum() with a non-dropped axis argument")
            self.in_sum = True
            try:
                body = self.expr(f.value)
            finally:
                self.in_sum = False
            return "(sumTo n (fun i => %s))" % body
        name = self.tail(f)
        if name == "where" and isinstance(f, ast.Attribute) and len(e.args) == 3 and not e.keywords:
            return "(if %s then %s else %s)" % (self.compare(e.args[0]), self.expr(e.args[1]), self.expr(e.args[2]))
        if name in IDENTITY_FUNCS and len(e.args) == 1 and (not e.keywords or name not in ("float", "float32", "float64")):
            return self.expr(e.args[0])
        if name in UNARY_FUNCS and len(e.args) == 1 and not e.keywords:
            return "(%s %s)" % (UNARY_FUNCS[name], self.expr(e.args[0]))
        if name == "hypot" and len(e.args) == 2 and not e.keywords:
            return "(Transc.sqrt ((%s ^ (2 : Nat)) + (%s ^ (2 : Nat))))" % (self.expr(e.args[0]), self.expr(e.args[1]))
        if name == "kv" and len(e.args) == 2 and not e.keywords:
            return "(Transc.kv %s %s)" % (self.expr(e.args[0]), self.expr(e.args[1]))
        if isinstance(f, ast.Name) and name not in self.known and self.ctx is not None and name in self.ctx.fdefs:
            # a module-level helper that is not in SPEC: translate it on demand, parameter kinds from this call site
            hdef = self.ctx.fdefs[name]
            hp = [a.arg for a in hdef.args.args]
            site = {}
            for pn, a in zip(hp, e.args):
                site[pn] = a
            for kw in e.keywords:
                site[kw.arg] = kw.value
            hk = {}
            for pn, a in site.items():
                if isinstance(a, ast.Name) and self.kinds.get(a.id) in ("array", "vec2", "row", "drop"):
                    hk[pn] = self.kinds[a.id]
            self.known = dict(self.known)
            self.known[name] = self.ctx.helper(name, hk, self)
        if isinstance(f, ast.Name) and name in self.known:
            lean_name, params = self.known[name]
            if lean_name in ORDERED:
                self.ordered = True
            bound = {}
            for p, a in zip(params, e.args):
                bound[p[0]] = a
            for kw in e.keywords:
                bound[kw.arg] = kw.value
            out = []
            for (p, kind, default) in params:
                if kind == "drop":
                    continue
                a = bound.get(p, default)
                if a is None:
                    raise TranslateError("missing argument %s in call to %s" % (p, name))
                if kind == "scalar":
                    out.append(self.expr(a))
                elif kind in ("row", "vec2", "array"):
                    if not (isinstance(a, ast.Name) and self.kinds.get(a.id) == kind):
                        raise TranslateError("%s argument must be a %s parameter" % (p, kind))
                    if kind == "row":
                        out += ["%s_%d" % (a.id, k) for k in range(3)]
                    elif kind == "vec2":
                        out += ["%s_%d" % (a.id, k) for k in range(2)]
                    else:
                        out.append(a.id)
            needs_n = any(k == "array" for (_, k, _) in params)
            return "(%s %s%s)" % (lean_name, "n " if needs_n else "", " ".join(out))
        raise TranslateError("call to %s" % (name,))

    def param_names(self):
        if "extract" in self.opts:
            return set(self.opts["params"])
        return {a.arg for a in self.fdef.args.args}

    def uses_array(self, node):
        """an array-kind name occurs in `node` outside `.sum(...)` and not as a direct argument of a module-level function"""
        def walk(n):
            if isinstance(n, ast.Call) and isinstance(n.func, ast.Attribute) and n.func.attr == "sum":
                return False
            if isinstance(n, ast.Call) and isinstance(n.func, ast.Name) and (n.func.id in self.known or
                                                                            (self.ctx is not None and n.func.id in self.ctx.fdefs)):
                rest = [a for a in n.args if not isinstance(a, ast.Name)] + [k.value for k in n.keywords if not isinstance(k.value, ast.Name)]
                return any(walk(a) for a in rest)
            if isinstance(n, ast.Name):
                return self.kinds.get(n.id) == "array"
            return any(walk(c) for c in ast.iter_child_nodes(n))
        return walk(node)

    def only_raises(self, stmts):
        return all(isinstance(x, ast.Raise) or (isinstance(x, ast.Expr) and isinstance(x.value, ast.Constant)) for x in stmts) and \
            any(isinstance(x, ast.Raise) for x in stmts)

    def is_conversion(self, st):
        """`x = numpy.asarray(x, …)` (same name on both sides)"""
        return isinstance(st, ast.Assign) and len(st.targets) == 1 and isinstance(st.targets[0], ast.Name) and \
            isinstance(st.value, ast.Call) and self.tail(st.value.func) in ("asarray", "asanyarray", "array", "ascontiguousarray") and \
            len(st.value.args) >= 1 and isinstance(st.value.args[0], ast.Name) and st.value.args[0].id == st.targets[0].id

    def is_validator_call(self, st):
        """`check(...)` with the result dropped, where `check` is a module-level function that only raises"""
        if not (isinstance(st, ast.Expr) and isinstance(st.value, ast.Call) and isinstance(st.value.func, ast.Name)):
            return False
        g = self.ctx.fdefs.get(st.value.func.id) if self.ctx is not None else None
        if g is None:
            return False
        for n in ast.walk(g):
            if isinstance(n, (ast.Global, ast.Nonlocal, ast.Yield, ast.YieldFrom, ast.AugAssign)):
                return False
            if isinstance(n, ast.Return) and n.value is not None and not (isinstance(n.value, ast.Constant) and n.value.value is None):
                return False
            if isinstance(n, ast.Assign) and not all(isinstance(t, ast.Name) for t in n.targets):
                return False
            if isinstance(n, ast.Call) and isinstance(n.func, ast.Attribute) and n.func.attr in (
                    "append", "extend", "sort", "fill", "update", "pop", "clear", "setdefault", "resize", "put", "itemset"):
                return False
        return any(isinstance(n, ast.Raise) for n in ast.walk(g))

    # ---- statements
    def body(self):
        lines = []
        ret = None
        stmts = self.fdef.body
        extract = self.opts.get("extract")
        for st in stmts:
            if isinstance(st, ast.Expr) and isinstance(st.value, ast.Constant) and isinstance(st.value.value, str):
                continue  # docstring
            if extract:
                continue
            # statements that cannot change the value returned for in-domain input
            if isinstance(st, ast.If) and not st.orelse and self.only_raises(st.body):
                self.skipped.append("guard: if %s: raise" % ast.unparse(st.test)[:120])
                continue
            if isinstance(st, ast.If) and not st.orelse and all(self.is_conversion(x) for x in st.body) and \
                    isinstance(st.test, (ast.Call, ast.UnaryOp)) and "isinstance" in ast.unparse(st.test):
                self.skipped.append("conversion: if %s: %s" % (ast.unparse(st.test)[:80], "; ".join(ast.unparse(x) for x in st.body)[:120]))
                continue
            if self.is_validator_call(st):
                self.skipped.append("validator call: %s" % ast.unparse(st)[:120])
                continue
            if self.is_conversion(st) and self.kinds.get(st.targets[0].id, "scalar") in ("scalar", "array"):
                self.skipped.append("conversion: %s" % ast.unparse(st)[:120])
                continue
            # a, b, c = TABLE[row]
            if isinstance(st, ast.Assign) and len(st.targets) == 1 and isinstance(st.targets[0], ast.Tuple) and \
                    isinstance(st.value, ast.Subscript) and isinstance(st.value.value, ast.Name) and st.value.value.id in self.tables and \
                    isinstance(st.value.slice, ast.Name) and self.kinds.get(st.value.slice.id) == "row" and \
                    len(st.targets[0].elts) == 3 and all(isinstance(x, ast.Name) for x in st.targets[0].elts):
                for k, x in enumerate(st.targets[0].elts):
                    if x.id != "_":
                        lines.append("let %s : K := %s_%d" % (x.id, st.value.slice.id, k))
                        self.locals.add(x.id)
                continue
            if isinstance(st, ast.Assign) and len(st.targets) == 1 and isinstance(st.targets[0], ast.Name):
                t = st.targets[0].id
                if isinstance(st.value, ast.Compare):
                    self.bool_locals[t] = st.value          # a mask: used as the condition of numpy.where
                    continue
                if self.uses_array(st.value):
                    # an array-valued local: w = cn2*z**p  ->  let w : Nat → K := fun i => cn2 i * …
                    self.in_sum = True
                    try:
                        rhs = self.expr(st.value)
                    finally:
                        self.in_sum = False
                    lines.append("let %s : Nat → K := fun i => %s" % (t, rhs))
                    self.kinds[t] = "array"
                    continue
                rhs = self.expr(st.value)
                lines.append("let %s : K := %s" % (t, rhs))
                self.locals.add(t)
                if self.kinds.get(t) in ("array", "vec2", "row"):
                    raise TranslateError("assignment to structured parameter %s" % t)
            elif isinstance(st, ast.AugAssign) and isinstance(st.target, ast.Name):
                t = st.target.id
                op = {ast.Add: "+", ast.Sub: "-", ast.Mult: "*", ast.Div: "/"}.get(type(st.op))
                if op is None:
                    raise TranslateError("augassign op")
                lines.append("let %s : K := (%s %s %s)" % (t, self.expr(ast.Name(id=t)), op, self.expr(st.value)))
                self.locals.add(t)
            elif isinstance(st, ast.Return):
                ret = self.expr(st.value)
                break
            else:
                raise TranslateError("statement %s in %s" % (type(st).__name__, self.fname))
        if extract:
            found = None
            for st in ast.walk(self.fdef):
                if isinstance(st, ast.Assign) and len(st.targets) == 1 and isinstance(st.targets[0], ast.Name) \
                        and st.targets[0].id == extract:
                    found = st
                    break
            if found is None:
                raise TranslateError("no assignment to %s in %s" % (extract, self.fname))
            free = {n.id for n in ast.walk(found.value) if isinstance(n, ast.Name)} - {"numpy", "np", "scipy"}
            if not free <= set(self.opts["params"]):
                raise TranslateError("free names %s of %s.%s not in declared params" % (sorted(free), self.fname, extract))
            ret = self.expr(found.value)
        if ret is None:
            raise TranslateError("no return in %s" % self.fname)
        return lines, ret


class ConstTranslator(FuncTranslator):
    """expressions of module-level constants: literals, numpy.pi, arithmetic, other module constants"""
    def __init__(self, ctx):
        self.ctx, self.kinds, self.locals, self.in_sum, self.ordered = ctx, {}, set(), False, False
        self.known, self.tables, self.opts, self.bool_locals, self.skipped = {}, set(), {"extract": None, "params": []}, {}, []

    def param_names(self):
        return set()

    def expr(self, e):
        if isinstance(e, ast.Name) and e.id not in self.ctx.constants:
            raise TranslateError("module constant refers to %s" % e.id)
        return FuncTranslator.expr(self, e)


class ModuleContext:
    def __init__(self, mod, tree, known, tables):
        self.mod, self.known, self.tables = mod, known, tables
        self.fdefs = {st.name: st for st in tree.body if isinstance(st, ast.FunctionDef)}
        self.constants = {}
        for st in tree.body:
            if isinstance(st, ast.Assign) and len(st.targets) == 1 and isinstance(st.targets[0], ast.Name) \
                    and st.targets[0].id not in tables and not isinstance(st.value, (ast.Dict, ast.List, ast.Tuple, ast.Set)):
                self.constants[st.targets[0].id] = st.value
        self.helpers = {}      # (name, kinds) -> (lean_name, params)
        self.helper_defs = []  # emitted Lean source, in dependency order
        self.helper_meta = {}
        self.stack = []

    def helper(self, name, kinds, caller):
        key = (name, tuple(sorted(kinds.items())))
        if key in self.helpers:
            lean_name, params, ordered = self.helpers[key]
            if ordered:
                caller.ordered = True
            return lean_name, params
        if name in self.stack or len(self.stack) > 6:
            raise TranslateError("recursive helper %s" % name)
        fdef = self.fdefs[name]
        a = fdef.args
        if a.vararg or a.kwarg or a.kwonlyargs or a.posonlyargs:
            raise TranslateError("signature of helper %s" % name)
        defaults = [None] * (len(a.args) - len(a.defaults)) + list(a.defaults)
        params = [(p.arg, kinds.get(p.arg, "scalar"), d) for p, d in zip(a.args, defaults)]
        tag = "".join("_%s%s" % (k[0], p) for p, k in sorted(kinds.items())) if kinds else ""
        lean_name = "%saux_%s%s" % (self.mod.get("prefix", ""), name.lstrip("_"), tag)
        self.stack.append(name)
        try:
            ft = FuncTranslator(self.mod, name, fdef, {"kinds": dict(kinds)}, self.known, set(self.tables), ctx=self)
            lines, ret = ft.body()
        finally:
            self.stack.pop()
        if ft.ordered:
            ORDERED.add(lean_name)
            caller.ordered = True
        self.helper_defs.append(render_def(self.mod, name, fdef, lean_name, params, ft, lines, ret)[0])
        self.helpers[key] = (lean_name, params, ft.ordered)
        return lean_name, params


def render_def(mod, fn, fdef, lean_name, params, ft, lines, ret):
    sig, layout = [], []
    needs_n = any(k == "array" for (_, k, _) in params)
    if ft.ordered:
        sig.append("[LE K] [DecidableLE K]")
    if needs_n:
        sig.append("(n : Nat)")
    for (p, kind, _) in params:
        if kind == "scalar":
            sig.append("(%s : K)" % p)
            layout.append([p, "scalar"])
        elif kind == "array":
            sig.append("(%s : Nat → K)" % p)
            layout.append([p, "array"])
        elif kind == "vec2":
            sig.append("(%s_0 %s_1 : K)" % (p, p))
            layout.append([p, "vec2"])
        elif kind == "row":
            sig.append("(%s_0 %s_1 %s_2 : K)" % (p, p, p))
            layout.append([p, "row"])
    body = "".join("  %s\n" % l for l in lines) + "  " + ret
    src = ("/-- generated from `%s:%s` (line %d) -/\ndef %s %s : K :=\n%s"
           % (mod["module"], fn, fdef.lineno, lean_name, " ".join(sig), body))
    return src, layout


def module_tables(tree, names):
    out = {}
    for st in tree.body:
        if isinstance(st, ast.Assign) and len(st.targets) == 1 and isinstance(st.targets[0], ast.Name) \
                and st.targets[0].id in names:
            try:
                val = ast.literal_eval(st.value)
            except Exception as ex:
                raise TranslateError("table %s is not a literal: %s" % (st.targets[0].id, ex))
            out[st.targets[0].id] = val
    for n in names:
        if n not in out:
            raise TranslateError("table %s not found" % n)
    return out


def translate(repo=REPO):
    """returns (formulas_lean, dispatch_lean, meta) or raises TranslateError"""
    defs, meta, table_src = [], {}, []
    ORDERED.clear()
    for mod in SPEC:
        path = os.path.join(repo, mod["module"])
        with open(path) as fh:
            tree = ast.parse(fh.read(), path)
        tables = module_tables(tree, mod.get("tables", []))
        for tname, tval in tables.items():
            rows = []
            for key, row in tval.items():
                if not (isinstance(row, (list, tuple)) and len(row) == 3):
                    raise TranslateError("table row shape")
                rows.append('("%s", %s, %s, %s)' % (key, lit(row[0]), lit(row[1]), lit(row[2])))
            table_src.append("def %s : List (String × K × K × K) :=\n  [%s]" % (tname, ",\n   ".join(rows)))
            meta["table:" + tname] = {k: list(v) for k, v in tval.items()}
        fdefs = {st.name: st for st in tree.body if isinstance(st, ast.FunctionDef)}
        known = {}
        infos = {}
        for fname, opts in mod["funcs"].items():
            if fname not in fdefs:
                raise TranslateError("function %s not found in %s" % (fname, mod["module"]))
            fdef = fdefs[fname]
            lean_name = opts.get("lean_name", mod.get("prefix", "") + fname)
            if "extract" in opts:
                params = [(p, "scalar", None) for p in opts["params"]]
            else:
                a = fdef.args
                if a.vararg or a.kwarg or a.kwonlyargs or a.posonlyargs:
                    raise TranslateError("signature of %s" % fname)
                defaults = [None] * (len(a.args) - len(a.defaults)) + list(a.defaults)
                params = [(p.arg, opts.get("kinds", {}).get(p.arg, "scalar"), d) for p, d in zip(a.args, defaults)]
                known[fname] = (lean_name, params)
            infos[fname] = (lean_name, params, fdef, opts)
        # dependency order: a function is emitted after every translated function it calls
        emitted, order = set(), []

        def visit(fn, stack=()):
            if fn in emitted:
                return
            if fn in stack:
                raise TranslateError("recursive call %s" % fn)
            fdef = infos[fn][2]
            if "extract" not in infos[fn][3]:
                for n in ast.walk(fdef):
                    if isinstance(n, ast.Call) and isinstance(n.func, ast.Name) and n.func.id in infos \
                            and n.func.id != fn and "extract" not in infos[n.func.id][3]:
                        visit(n.func.id, stack + (fn,))
            emitted.add(fn)
            order.append(fn)
        for fn in infos:
            visit(fn)
        ctx = ModuleContext(mod, tree, known, tables)
        for fn in order:
            lean_name, params, fdef, opts = infos[fn]
            ft = FuncTranslator(mod, fn, fdef, opts, known, set(tables), ctx=ctx)
            n_helpers = len(ctx.helper_defs)
            lines, ret = ft.body()
            defs.extend(ctx.helper_defs[n_helpers:])          # helpers this function needed, before it
            if ft.ordered:
                ORDERED.add(lean_name)
            src, layout = render_def(mod, fn, fdef, lean_name, params, ft, lines, ret)
            defs.append(src)
            meta[lean_name] = {"module": mod["module"], "python": fn, "layout": layout,
                               "extract": opts.get("extract"), "line": fdef.lineno, "ordered": ft.ordered}
            if ft.skipped:
                meta[lean_name]["skipped"] = ft.skipped
    header = ("/- GENERATED by harness/translate_formulas.py from /repo on every run. DO NOT EDIT. -/\n"
              "import AoVerif.Model.Scalar\n\nnamespace AoVerif.Gen\n\n"
              "variable {K : Type} [Add K] [Sub K] [Mul K] [Div K] [Neg K] [NatCast K] [OfScientific K] [HPow K Nat K] [Transc K]\n\n")
    formulas = header + "\n\n".join(table_src + defs) + "\n\nend AoVerif.Gen\n"

    # dispatch for the Float driver
    cases = []
    for lean_name, m in meta.items():
        if lean_name.startswith("table:"):
            continue
        lay = m["layout"]
        has_arr = any(k == "array" for _, k in lay)
        const, coef = (1 if has_arr else 0), 0
        args = []
        for p, k in lay:
            if k == "scalar":
                args.append("a[%d + %d*n]!" % (const, coef)); const += 1
            elif k == "vec2":
                args += ["a[%d + %d*n]!" % (const + j, coef) for j in range(2)]; const += 2
            elif k == "row":
                args += ["a[%d + %d*n]!" % (const + j, coef) for j in range(3)]; const += 3
            else:
                args.append("(fun i => a[%d + %d*n + i]!)" % (const, coef)); coef += 1
        call = "%s %s%s" % (lean_name, "n " if has_arr else "", " ".join(args))
        nexpr = "a[0]!.toUInt64.toNat" if has_arr else "0"
        cases.append('  | "%s" =>\n    let n : Nat := %s\n    if a.size = %d + %d*n then some (%s) else none'
                     % (lean_name, nexpr, const, coef, call))
    dispatch = ("/- GENERATED by harness/translate_formulas.py. DO NOT EDIT. -/\nimport AoVerif.Gen.Formulas\n\n"
                "namespace AoVerif.Gen\n\ndef evalFormula (name : String) (a : Array Float) : Option Float :=\n"
                "  match name with\n" + "\n".join(cases) + "\n  | _ => none\n\nend AoVerif.Gen\n")
    return formulas, dispatch, meta


def write_if_changed(path, text):
    try:
        with open(path) as fh:
            if fh.read() == text:
                return False
    except FileNotFoundError:
        pass
    os.makedirs(os.path.dirname(path), exist_ok=True)
    with open(path, "w") as fh:
        fh.write(text)
    return True


def main():
    formulas, dispatch, meta = translate()
    write_if_changed(os.path.join(VERIF, "lean/AoVerif/Gen/Formulas.lean"), formulas)
    write_if_changed(os.path.join(VERIF, "lean/AoVerif/Gen/FormulasDispatch.lean"), dispatch)
    write_if_changed(os.path.join(HERE, "_gen/formulas.json"), json.dumps(meta, indent=1, sort_keys=True))


if __name__ == "__main__":
    main()
