#!/bin/bash
# working tool (not part of any registered command): evaluate changes in parallel on scratch copies, before the recorded pass on /repo
# usage: lanes.sh <lane> <labels> <kind> <ids...>     e.g.  lanes.sh 1 KL seeded C01 C04
k=$1; labels=$2; kind=$3; shift 3
L=/tmp/lane$k
git -C /verif worktree remove --force $L/verif 2>/dev/null; git -C /repo worktree remove --force $L/repo 2>/dev/null; rm -rf $L
mkdir -p $L
git -C /verif worktree add -q --detach $L/verif HEAD
git -C /repo worktree add -q --detach $L/repo HEAD
cp -r /verif/lean/.lake $L/verif/lean/.lake
cd $L/verif
SEED_REPO=$L/repo OPENBLAS_NUM_THREADS=3 /venv/bin/python -m harness.campaign run --labels $labels --kind $kind "$@" > $L/run.log 2>&1
echo LANEDONE >> $L/run.log
