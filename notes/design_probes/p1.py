import warnings; warnings.filterwarnings("ignore")
import numpy as np, aotools
from aotools import fouriertransform as F
from aotools.turbulence import phasescreen as PS
print("aotools.ift2 is phasescreen.ift2:", aotools.ift2 is PS.ift2, " is F.ift2:", aotools.ift2 is F.ift2)
rng=np.random.default_rng(0)
for N in (4,5,8,9):
    x=rng.normal(size=N)+1j*rng.normal(size=N); d=0.3
    X=F.ft(x,d); xb=F.ift(X,1/(N*d))
    print("N",N,"1D inv err",abs(xb-x).max(),"parseval",(abs(x)**2).sum()*d,(abs(X)**2).sum()/(N*d))
    x2=rng.normal(size=(N,N))+1j*rng.normal(size=(N,N))
    X2=F.ft2(x2,d); 
    print("   2D inv F.ift2",abs(F.ift2(X2,1/(N*d))-x2).max(),"  aotools.ift2",abs(aotools.ift2(X2,1/(N*d))-x2).max())
    # batch
    xb3=rng.normal(size=(3,N,N))+0j
    try:
        print("   batch F",abs(F.ift2(F.ft2(xb3,d),1/(N*d))-xb3).max(), " batch aotools.ift2", abs(aotools.ift2(aotools.ft2(xb3,d),1/(N*d))-xb3).max())
    except Exception as e: print("   batch exc",repr(e))
    # centred gaussian
    c=(np.arange(N)-N//2)*d
    g=np.exp(-np.pi*c**2)
    G=F.ft(g,d)
    print("   gaussian imag max",abs(G.imag).max(), "real err vs analytic", abs(G.real-np.exp(-np.pi*((np.arange(N)-N//2)/(N*d))**2)).max())
    # real
    xr=rng.normal(size=N)
    XR=F.rft(xr,d)
    try:
        b=F.irft(XR,1/(N*d)); print("   rft len",XR.shape,"irft len",b.shape,"err", abs(b-xr).max() if b.shape==xr.shape else None)
    except Exception as e: print("   rft exc",e)
    xr2=rng.normal(size=(N,N))
    try:
        b=F.irft2(F.rft2(xr2,d),1/(N*d)); print("   rft2 irft2 shape",b.shape,"err", abs(b-xr2).max() if b.shape==xr2.shape else None)
    except Exception as e: print("   rft2 exc",e)
