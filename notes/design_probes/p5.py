import warnings; warnings.filterwarnings("ignore")
import numpy as np, aotools
from aotools import opticalpropagation as OP, interpolation as I
from aotools.turbulence import infinitephasescreen as IPS, phasescreen as PS
rng=np.random.default_rng(3)
N=32; U=(rng.normal(size=(N,N))+1j*rng.normal(size=(N,N)))*aotools.circle(8,N)
wvl=1e-6; d1=1e-3
P=lambda u,d:(abs(u)**2).sum()*d*d
print("== C10 power")
for z in (0.5,-0.5,3.0):
    for d2 in (1e-3,2e-3,0.5e-3):
        print(" AS z",z,"d2",d2, P(OP.angularSpectrum(U,wvl,d1,d2,z),d2)/P(U,d1), end=";")
    print()
    d2o=wvl*z/(N*d1); print(" one",P(OP.oneStepFresnel(U,wvl,d1,z),d2o)/P(U,d1), " lens",P(OP.lensAgainst(U,wvl,d1,z),wvl*z/(N*d1))/P(U,d1))
    for d2 in (2e-3,0.5e-3,1e-3):
        try: print(" two z",z,"d2",d2,P(OP.twoStepFresnel(U,wvl,d1,d2,z),d2)/P(U,d1),end=";")
        except Exception as e: print(" two exc",repr(e)[:60],end=";")
    print()
print("== C11 orientation two-step vs AS (smooth asym beam)")
N=128; d1=2e-4; x=(np.arange(N)-N/2)*d1; X,Y=np.meshgrid(x,x)
U=np.exp(-((X-2e-3)**2+(Y+1e-3)**2)/(2*(1.5e-3)**2)) # off-centre gaussian
z=0.5
for d2 in (3e-4,1.5e-4,2e-4):
    a=OP.angularSpectrum(U,wvl,d1,d2,z)
    try:
        t=OP.twoStepFresnel(U,wvl,d1,d2,z)
        e=abs(abs(a)-abs(t)).max()/abs(a).max(); ef=abs(abs(a)-abs(np.roll(t[::-1,::-1],(1,1),(0,1)))).max()/abs(a).max()
        ph=abs(a-t).max()/abs(a).max()
        print(" d2",d2,"|AS|-|two| err",e," vs flipped two",ef," complex err",ph)
    except Exception as e: print(" d2",d2,"exc",repr(e)[:80])
print("AS group: z split", abs(OP.angularSpectrum(OP.angularSpectrum(U,wvl,d1,d1,0.2),wvl,d1,d1,0.3)-OP.angularSpectrum(U,wvl,d1,d1,0.5)).max())
b=OP.angularSpectrum(OP.angularSpectrum(U,wvl,d1,3e-4,0.5),wvl,3e-4,d1,-0.5); r=b/np.where(abs(U)>1e-3,U,1); m=abs(U)>1e-3
print("AS mag roundtrip: |ratio|-1",abs(abs(r[m])-1).max(),"phase spread",np.ptp(np.angle(r[m])))
print("z=0 returns same object:", OP.angularSpectrum(U,wvl,d1,d1,0) is U)
print("== C05 shapes")
for cls,kw in ((IPS.PhaseScreenVonKarman,{}),(IPS.PhaseScreenKolmogorov,{})):
    for n in (8,9,12,17):
        try:
            s=cls(n,0.1,0.2,20.,random_seed=1,**kw); a=s.scrn.copy(); b=s.add_row().copy()
            print(cls.__name__,n,"internal",s.nx_size,s._scrn.shape,"scrn",a.shape,"shift ok",np.array_equal(b[1:],a[:-1]),"finite",np.isfinite(b).all())
        except Exception as e: print(cls.__name__,n,"exc",repr(e)[:90])
s=IPS.PhaseScreenVonKarman(16,0.1,0.2,20.,random_seed=5)
Szz=s.cov_mat_zz; r1=abs(s.A_mat@Szz-s.cov_mat_xz).max()/abs(Szz).max(); r2=abs(s.A_mat@Szz@s.A_mat.T+s.B_mat@s.B_mat.T-s.cov_mat_xx).max()/abs(Szz).max()
print("C04 residuals",r1,r2,"cond",np.linalg.cond(Szz))
print("== zoom_rbs nonsquare target", I.zoom_rbs(rng.random((6,6)),(4,9)).shape)
print("== C07 int seed correlation: lo draws == first hi draws?")
class Spy:
    def __init__(s,g): s.g=g; s.calls=[]
    def normal(s,*a,**k):
        v=s.g.normal(*a,**k); s.calls.append(v.copy()); return v
import numpy.random as NR
orig=NR.default_rng
spies=[]
def fake(seed=None):
    if isinstance(seed,Spy): return seed
    sp=Spy(orig(seed)); spies.append(sp); return sp
PS.numpy.random.default_rng=fake
PS.ft_sh_phase_screen(0.2,16,0.1,20.,0.01,seed=7)
PS.numpy.random.default_rng=orig
print(len(spies),[len(s.calls) for s in spies], "lo first draw == hi a[0,:9]?", np.array_equal(spies[0].calls[0].ravel(), spies[1].calls[0].ravel()[:9]))
