import warnings; warnings.filterwarnings("ignore")
import numpy as np
from aotools.turbulence import phasescreen as PS
class Basis:
    """Generator stand-in: the concatenated stream of all normal() draws is the unit vector e_k."""
    def __init__(s,k): s.k=k; s.pos=0
    def normal(s,*a,size=None,**kw):
        n=int(np.prod(size)); v=np.zeros(n)
        if s.pos<=s.k<s.pos+n: v[s.k-s.pos]=1.0
        s.pos+=n; return v.reshape(size)
orig=np.random.default_rng
def rngpatch(seed=None): return seed if isinstance(seed,Basis) else orig(seed)
PS.numpy.random.default_rng=rngpatch
def linmap(f,ndraw,N):
    L=np.zeros((N*N,ndraw))
    for k in range(ndraw): L[:,k]=f(Basis(k)).ravel()
    return L
for N,r0,delta,L0,l0 in ((8,0.2,0.1,20.,0.01),(16,0.15,0.05,25.,0.01)):
    # high part alone: 2 N^2 draws
    Lhi=linmap(lambda g:PS.ft_phase_screen(r0,N,delta,L0,l0,seed=g),2*N*N,N)
    # generator-injected sh screen: draws are sequential: first 2N^2 for hi? no: R created first but hi drawn first (ft_phase_screen called before lo draws) -> hi uses stream[0:2N^2], lo uses next 54
    Lsh=linmap(lambda g:PS.ft_sh_phase_screen(r0,N,delta,L0,l0,seed=g),2*N*N+54,N)
    Llo=Lsh[:,2*N*N:]
    assert np.allclose(Lsh[:,:2*N*N],Lhi)
    def SF(L): 
        G=L@L.T; d=np.diag(G); return d[:,None]+d[None,:]-2*G
    Dhi=SF(Lhi); Dgen=SF(Lsh)
    # int-seed path: lo draws == stream[0:54] of the SAME stream as hi
    Lint=Lhi.copy(); Lint[:,:54]+=Llo
    Dint=SF(Lint)
    print("N",N,"generator path: min(D_sh-D_hi)=%.3e"%(Dgen-Dhi).min(),"| int-seed path: min(D_sh-D_hi)=%.3e"%(Dint-Dhi).min(),
          " most negative relative to D_hi there: %.3e"%(((Dint-Dhi)/np.where(Dhi>0,Dhi,1)).min()), " frac of pairs decreased: %.3f"%((Dint-Dhi)<-1e-12*Dhi.max()).mean())
    off=~np.eye(N*N,dtype=bool)
    cross=(Dint-Dgen)
    print("   offdiag min gen %.3e  int %.3e ; cross term range [%.3e, %.3e] ; D_lo range [%.3e, %.3e]; Dhi max %.3e"%((Dgen-Dhi)[off].min(),(Dint-Dhi)[off].min(),cross.min(),cross.max(),(Dgen-Dhi)[off].min(),(Dgen-Dhi).max(),Dhi.max()))
    rel=((Dint-Dgen)/np.where(Dgen>0,Dgen,1))[off]; print("   int-seed vs independent-draw ensemble SF: relative deviation range [%.3e, %.3e]"%(rel.min(),rel.max()))
