import warnings; warnings.filterwarnings("ignore")
import numpy as np, aotools
from aotools.image_processing import centroiders as C, contrast, psf
from aotools.turbulence import slopecovariance as SC, temporal_ps as TP, profile_compression as PC
from aotools import interpolation as I
rng=np.random.default_rng(1)
print("== C15 threshold 2D vs ND")
st=rng.random((3,8,8))
a=C.centre_of_gravity(st.copy(),threshold=0.3)
b=np.array([C.centre_of_gravity(f.copy(),threshold=0.3) for f in st]).T
print(a,"\n",b)
print("single pixel:", C.centre_of_gravity(np.eye(1,25,7).reshape(5,5)), C.brightest_pixel(np.eye(1,25,7).reshape(5,5).copy(),0.1))
print("min_threshold ND with 4D?"); 
try: print(C.centre_of_gravity(rng.random((2,3,8,8)),threshold=0.3).shape)
except Exception as e: print("exc",repr(e))
print("bp 2D vs 3D", C.brightest_pixel(st.copy(),0.2), np.array([C.brightest_pixel(f.copy(),0.2) for f in st]).T)
print("== C20 mutation")
for name,f,args in [("cog3d",lambda x:C.centre_of_gravity(x,threshold=0.3),[st.copy()]),("cog2d",lambda x:C.centre_of_gravity(x,threshold=0.3),[st[0].copy()]),
   ("bp2d",lambda x:C.brightest_pixel(x,0.2),[st[0].copy()]),("bp3d",lambda x:C.brightest_pixel(x,0.2),[st.copy()]),
   ("corr3d",lambda x,r:C.correlation_centroid(x,r),[st.copy(),st[0].copy()]),("corr2d",lambda x,r:C.correlation_centroid(x,r),[st[0].copy(),st[1].copy()]),
   ("rms",contrast.rms_contrast,[st[0].copy()*5]),("quad",C.quadCell,[st[:, :2,:2].copy()]),("bin",lambda x:I.binImgs(x,2),[st.copy()])]:
    before=[x.copy() for x in args]; shp=[x.shape for x in args]
    r1=f(*args); changed=[not(np.array_equal(x,y) and x.shape==s) for x,y,s in zip(args,before,shp)]
    print(name,"mutated args:",changed)
print("== C19 sf lag0 / tps")
ph=rng.normal(size=(32,32))
print("sf[0]=",SC.calculate_structure_function(ph)[0], "ramp:",SC.calculate_structure_function(np.outer(np.arange(32.)*0.5,np.ones(32)),step=2)[:4], "expected", [(0.5*2*j)**2 for j in range(4)])
sl=rng.normal(size=(64,10)); t1,_=TP.calc_slope_temporalps(sl); t2,_=TP.calc_slope_temporalps(2*sl); print("tps scale under x2:", (t2/t1)[:3])
print("tps axis", TP.get_tps_time_axis(100.,8), TP.get_tps_time_axis(100.,9))
print("== C18")
h=np.linspace(0,20000,100); p=rng.random(100)
for L in range(1,12):
    try:
        hl,cl=PC.equivalent_layers(h,p,L); print(L,"EL sum ratio",cl.sum()/p.sum(), len(cl), np.isnan(hl).any())
    except Exception as e: print(L,"exc",repr(e))
# search for drop
bad=[]
for N in (7,10,13,35,100):
  for hm in (1000.,15000.,20000.,23000., 0.3):
    h=np.linspace(0,hm,N); p=np.ones(N)
    for L in range(1,N):
        hl,cl=PC.equivalent_layers(h,p,L)
        if abs(cl.sum()-N)>1e-9: bad.append((N,hm,L,cl.sum()))
print("drops",len(bad),bad[:10])
try:
    print("OG L=1", PC.optimal_grouping(2,1,np.linspace(0,2e4,10),rng.random(10)))
except Exception as e: print("OG L=1 exc",repr(e))
h=np.linspace(0,2e4,12);p=rng.random(12)
for L in (2,3,5,11):
    try:
        hh,cc=PC.optimal_grouping(3,L,h,p); print("OG",L,len(hh),cc.sum()/p.sum(), np.all(np.diff(hh)>0), np.isin(hh,h).all())
    except Exception as e: print("OG",L,"exc",repr(e))
