import warnings; warnings.filterwarnings("ignore")
import numpy as np, aotools, scipy.special
from aotools.turbulence import slopecovariance as SC
np.set_printoptions(linewidth=200, precision=4, suppress=False)
# --- brute-force oracle: covariance of finite-difference slopes from VK phase covariance
from aotools.turbulence.turb import phase_covariance
def D(r,r0,L0):
    r=np.asarray(r,float)+1e-20
    return SC.structure_function_vk(r,r0,L0)
def slope_cov_oracle(p1,d1,ax1,p2,d2,ax2,r0,L0):
    # slope_a at p (centre) with diameter d along axis ax: (phi(p+d/2 e)-phi(p-d/2 e))/d ; cov via structure fn: E[(a-b)(c-d)] = 1/2(-D(a-c)+D(a-d)+D(b-c)-D(b-d))
    e1=np.zeros(2); e1[ax1]=d1/2; e2=np.zeros(2); e2[ax2]=d2/2
    a=p1+e1;b=p1-e1;c=p2+e2;d=p2-e2
    n=lambda v:np.sqrt((v**2).sum())
    return 0.5*(-D(n(a-c),r0,L0)+D(n(a-d),r0,L0)+D(n(b-c),r0,L0)-D(n(b-d),r0,L0))/(d1*d2)
def build(masks, subd, gsalt, gspos, wvl, lalt, lr0, lL0, tel=8., threads=1):
    cm=aotools.CovarianceMatrix(len(masks),masks,tel,subd,gsalt,gspos,wvl,len(lalt),np.array(lalt,float),lr0,lL0,threads)
    return cm, cm.make_covariance_matrix()
m_sym=aotools.circle(2,4)
m_asym=np.array([[1,1,0,0],[0,1,1,0],[0,0,1,0],[0,0,0,0.]])
for name,masks in (("sym",[m_sym,m_sym]),("asym",[m_asym,m_asym]),("mixed",[m_asym,m_sym])):
    cm,C=build(masks,[2.,2.],[0,90000.],[[0,0],[20,7]],[500e-9,600e-9],[0.,8000.],[0.2,0.5],[25.,30.])
    print(name,"shape",C.shape,"sym err",abs(C-C.T).max(),"min eig",np.linalg.eigvalsh(C.astype(float)).min(), "max",abs(C).max())
    # oracle
    n=cm.n_subaps; tot=cm.total_subaps
    O=np.zeros((2*tot,2*tot))
    offs=np.concatenate([[0],np.cumsum(n)])
    for l in range(cm.n_layers):
        for i in range(cm.n_wfs):
            for j in range(cm.n_wfs):
                Pi=cm.subap_layer_positions[l][i]; Pj=cm.subap_layer_positions[l][j]
                di=cm.subap_layer_diameters[l][i]; dj=cm.subap_layer_diameters[l][j]
                for a in range(n[i]):
                    for b in range(n[j]):
                        for axa in (0,1):
                            for axb in (0,1):
                                v=slope_cov_oracle(Pi[a],di,axa,Pj[b],dj,axb,cm.layer_r0s[l],cm.layer_L0s[l])
                                # slope in arcsec-ish units: code scale = wl_i wl_j/(8 pi^2 d_i d_j) * (structure fn combination)
                                O[2*offs[i]+axa*n[i]+a, 2*offs[j]+axb*n[j]+b]+= v*di*dj*2 * cm.wfs_wavelengths[i]*cm.wfs_wavelengths[j]/(8*np.pi**2*di*dj)
    err=abs(O-C)
    print("   max abs err vs oracle",err.max()," rel",err.max()/abs(O).max())
    # per block error
    for i in range(cm.n_wfs):
        for j in range(cm.n_wfs):
            for axa in (0,1):
                for axb in (0,1):
                    blk=err[2*offs[i]+axa*n[i]:2*offs[i]+(axa+1)*n[i], 2*offs[j]+axb*n[j]:2*offs[j]+(axb+1)*n[j]]
                    print("   wfs",i,j,"xy"[axa]+"xy"[axb],"blk err %.3e"%blk.max(), end=";")
            print()
