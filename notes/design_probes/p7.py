import warnings; warnings.filterwarnings("ignore")
import numpy as np, io, contextlib
from aotools.functions import karhunenLoeve as KL
from aotools.turbulence import infinitephasescreen as IPS
for ri,nr,nf in ((0.3,12,12),(0.15,16,20)):
    with contextlib.redirect_stdout(io.StringIO()):
        b=KL.gkl_basis(ri=ri,nr=nr,nfunc=nf)      # npp = 5 nr = nth
    npp=b['np']; rad=b['radp']; th=np.arange(npp)*2*np.pi/npp
    X=(rad[:,None]*np.cos(th)[None]).ravel(); Y=(rad[:,None]*np.sin(th)[None]).ravel()
    dist=np.sqrt((X[:,None]-X[None])**2+(Y[:,None]-Y[None])**2)
    Dm=KL.stf_kolmogorov(0.5*dist)
    F=np.array([KL.gkl_sfi(b,i).ravel() for i in range(nf)])
    Q=-0.5*F@Dm@F.T/(F.shape[1]**2)
    off=Q-np.diag(np.diag(Q))
    print("ri",ri,"nr",nr,"diag/evals",np.round(np.diag(Q)/b['evals'],6)[:8],"max offdiag/ev0",abs(off).max()/b['evals'][0])
print("== C05 contraction witness")
for n,ncol in ((8,2),(16,2),(12,3)):
    s=IPS.PhaseScreenVonKarman(n,0.1,0.2,20.,random_seed=1,n_columns=ncol)
    A=s.A_mat; m=A.shape[1]
    F=np.zeros((m,m)); F[:n,:]=A; F[n:,:m-n]=np.eye(m-n)
    rho=max(abs(np.linalg.eigvals(F)))
    k=1; P=F.copy()
    while np.linalg.norm(P)>=1 and k<2**20: P=P@P; k*=2
    print(" n",n,"ncol",ncol,"rho",rho,"first k with ||F^k||_F<1:",k,np.linalg.norm(P))
