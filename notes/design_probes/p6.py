import warnings; warnings.filterwarnings("ignore")
import math, numpy as np
np.math = math   # emulate the obvious repair to look past the import-time defect
import aotools, scipy.special as sp
from aotools.turbulence import slopecovariance as SC, turb, profile_compression as PC, infinitephasescreen as IPS, phasescreen as PS
from aotools.functions import zernike as Z, karhunenLoeve as KL
rng=np.random.default_rng(4)
print("== C08")
print("Dvk(0)=",SC.structure_function_vk(0.,0.2,25.), "KL stf_vonKarman(0)=",KL.stf_vonKarman(0.,25.), "cov(0)=",turb.phase_covariance(0.,0.2,25.))
r=np.logspace(-4,3,200); D=SC.structure_function_vk(r,0.2,25.); C=turb.phase_covariance(r,0.2,25.); C0=turb.phase_covariance(0.,0.2,25.)
print("ratio D/(2(C0-C)) min/max",(D/(2*(C0-C)))[r<50].min(),(D/(2*(C0-C)))[r<50].max(), "monotone",(np.diff(D)>=-1e-9*D.max()).all(),"sat/ (0.0863*2 (L0/r0)^5/3)",D[-1]/(2*0.0863*(25/0.2)**(5/3)), "nan at large r:",np.isnan(D).any())
print("kolm limit L0=1e6: Dvk/Dkolm at r=1:",SC.structure_function_vk(1.,0.2,1e6)/SC.structure_function_kolmogorov(1.,0.2), " KL copy", KL.stf_kolmogorov(1/0.2)/SC.structure_function_kolmogorov(1.,0.2))
P=rng.random((30,2))*10; S=np.sqrt(((P[:,None]-P[None])**2).sum(-1)); print("cov matrix min eig", np.linalg.eigvalsh(turb.phase_covariance(S,0.2,25.).astype(float)).min())
print("== C12")
def noll_ref(jmax):
    out=[];j=1;n=0
    while j<=jmax:
        for m in range(n%2,n+1,2):
            if m==0: out.append((n,0)); j+=1
            else:
                a,b=((n,m),(n,-m)) if j%2==0 else ((n,-m),(n,m)); out.append(a); out.append(b); j+=2
        n+=1
    return out[:jmax]
ref=noll_ref(5000); got=[tuple(Z.zernIndex(j)) for j in range(1,5001)]; print("Noll agree 5000:",ref==got)
N=256; Zs=Z.zernikeArray(21,N); pup=aotools.circle(N/2,N); G=np.einsum('iab,jab->ij',Zs,Zs)/pup.sum(); print("Gram err",abs(G-np.eye(21)).max())
g=Z.makegammas(5); nz=g.shape[1]; Zs=Z.zernikeArray(nz,N); h=2./N
gx=np.gradient(Zs,h,axis=2); gy=np.gradient(Zs,h,axis=1); inner=aotools.circle(N/2-4,N)>0
ex=[abs((gx[i]-np.tensordot(g[0][i],Zs,1))[inner]).max() for i in range(nz)]; ey=[abs((gy[i]-np.tensordot(g[1][i],Zs,1))[inner]).max() for i in range(nz)]
print("gamma x err max",max(ex)," y err max",max(ey), "worst idx",int(np.argmax(ex))+1,int(np.argmax(ey))+1)
print("== C13")
b=KL.gkl_basis(ri=0.3,nr=24,nfunc=20); F=np.array([KL.gkl_sfi(b,i) for i in range(20)]); Gm=np.einsum('iab,jab->ij',F,F)/F[0].size
print("polar Gram err",abs(Gm-np.eye(20)).max()," means",abs(F.mean((1,2))).max()," evals desc",(np.diff(b['evals'])<=1e-12).all(), b['evals'][:4], "ord",b['ord'][:8])
print("== C19 uninitialised")
import gc
ph=rng.normal(size=(40,40))
for t in range(3):
    a=np.full(10,7.0); del a
    print(" sf[0]",SC.calculate_structure_function(ph)[0])
print("== C18 empty slab"); h=np.array([0.,100.,200.,9000.,10000.]); p=np.ones(5); print(PC.equivalent_layers(h,p,4))
print("== C20 OG nondeterminism")
h=np.sort(rng.random(30))*2e4; p=rng.random(30)**4
res={tuple(np.round(PC.optimal_grouping(1,6,h,p)[0],6)) for _ in range(12)}; print(" distinct results over 12 calls:",len(res))
print("== C06")
a=PS.ft_sh_phase_screen(0.2,32,0.1,20.,0.01,seed=11); np.random.seed(5); np.random.random(100); PC._random_grouping(20,4); b=PS.ft_sh_phase_screen(0.2,32,0.1,20.,0.01,seed=11); print(" sh repro",np.array_equal(a,b))
s1=IPS.PhaseScreenKolmogorov(16,0.1,0.2,20.,random_seed=3); r1=[s1.add_row().copy() for _ in range(3)]
s2=IPS.PhaseScreenKolmogorov(16,0.1,0.2,20.,random_seed=3); o=IPS.PhaseScreenVonKarman(16,0.1,0.2,20.,random_seed=3); r2=[]
for _ in range(3): o.add_row(); np.random.random(3); r2.append(s2.add_row().copy())
print(" inf repro",all(np.array_equal(x,y) for x,y in zip(r1,r2)))
print("== C16 ee crossing"); 
from aotools.image_processing import psf
im=aotools.functions.gaussian2d(64,3.); x,y=psf.encircled_energy(im,eeDiameter=False); d=psf.encircled_energy(im,0.5); print(" gauss ee50d",d," theory 2*1.1774*3=",2*1.1774*3, "y at d",np.interp(d,x,y))
flat=np.ones((16,16)); print(" flat ee80",psf.encircled_energy(flat,0.8)," curve max",psf.encircled_energy(flat,eeDiameter=False)[1].max())
