import warnings; warnings.filterwarnings("ignore")
import numpy as np, aotools
from aotools import interpolation as I
from aotools.image_processing import psf
from aotools.functions import pupil, zernike
from aotools.wfs import wfslib as W
from aotools.turbulence import slopecovariance as SC
rng=np.random.default_rng(2)
a=rng.random((6,6))
try: print(I.zoom(a,6))
except Exception as e: print("zoom exc:",type(e).__name__,str(e)[:100])
z=I.zoom_rbs(a,(6,6)); print("zoom_rbs same size err",abs(z-a).max())
z=I.zoom_rbs(a,(11,11)); print("nodes err",abs(z[::2,::2]-a).max())
b=rng.random((5,7)); 
try:
    z=I.zoom_rbs(b,(5,7)); print("nonsquare same",z.shape, abs(z-b).max())
except Exception as e: print("nonsquare exc",repr(e)[:100])
try: z=I.zoom_rbs(a,8); print("int newsize ok",z.shape)
except Exception as e: print("int newSize exc",repr(e)[:100])
print("bin:", I.binImgs(np.arange(16.).reshape(4,4),2), I.binImgs(np.arange(16).reshape(4,4),2).dtype)
print("azavg const", psf.azimuthal_average(np.full((8,8),3.)), psf.azimuthal_average(np.full((7,7),3.)))
x,y=psf.encircled_energy(np.ones((8,8)),eeDiameter=False); print("ee start",y[0],"max",y.max(),"mono",(np.diff(y)>=-1e-15).all())
im=rng.random((16,16)); x,y=psf.encircled_energy(im,eeDiameter=False); print("ee rand start",y[0],"max",y.max(),"mono",(np.diff(y)>=-1e-15).all(), "ee50",psf.encircled_energy(im))
try: print("zernike", zernike.zernike_noll(4,8)[4,4])
except Exception as e: print("zernike exc",repr(e)[:100])
print("zernIndex", [zernike.zernIndex(j) for j in range(1,12)])
print("circle r=2.5,n=5 boundary:", pupil.circle(2.5,6).sum(), pupil.circle(np.sqrt(0.5),4).sum(), pupil.circle(0.7071067811865476,2))
print("circle non-integer size?"); 
m=pupil.circle(4,8)
print(W.findActiveSubaps(4,m,0.5).shape, W.findActiveSubaps(3,m,0.5,returnFill=True))
# C02
C=rng.normal(size=(20,30)); C=(C@C.T).astype("float32")
R=SC.create_tomographic_covariance_reconstructor(C,3,0)
print("normal eq resid", abs(R@C[6:,6:]-C[:6,6:]).max()/abs(C).max())
# duplicate sensor
m=pupil.circle(2,4)
cm=aotools.CovarianceMatrix(3,[m,m,m],8.,[2.,2.,2.],[0,0,0],[[0,0],[0,0],[30,0]],[5e-7]*3,1,np.array([5000.]),[0.2],[25.],1)
Cm=cm.make_covariance_matrix(); R=cm.make_tomographic_reconstructor()
n=int(m.sum())*2
print("dup: R[:, :n] ~ I err", abs(R[:,:n]-np.eye(n)).max(), " others max", abs(R[:,n:]).max(), "cond", np.linalg.cond(Cm[n:,n:].astype(float)))
