import warnings; warnings.filterwarnings("ignore")
import numpy as np
from aotools.turbulence import profile_compression as PC
rng=np.random.default_rng(10)
found=None
for trial in range(300):
    N=int(rng.integers(12,40)); L=int(rng.integers(3,8))
    h=np.sort(rng.random(N))*2e4; p=rng.random(N)**6
    outs=set()
    for rep in range(6):
        hh,cc=PC.optimal_grouping(1,L,h,p); outs.add(tuple(np.round(hh,9)))
    if len(outs)>1: found=(trial,N,L,len(outs)); break
print("found differing results:",found)
if found:
    np.random.seed(0); a=PC.optimal_grouping(1,L,h,p); np.random.seed(1); b=PC.optimal_grouping(1,L,h,p)
    print("seed0",a[0]); print("seed1",b[0])
