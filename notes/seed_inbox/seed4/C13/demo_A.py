"""C13, masked-rendering clause: with masking requested, the Cartesian KL cube is zero outside
the annulus and the returned pupil is the annulus indicator -- whatever truthy form the caller
uses for the flag (Python bool, NumPy bool from a comparison, 0/1 integer from a config file)."""
import sys, io, contextlib, warnings
import numpy as np
warnings.simplefilter('ignore')
from aotools.functions import karhunenLoeve as KL

failures = []


def annulus(dim, ri):
    c = (np.arange(dim) - 0.5 * (dim - 1)) / (0.5 * dim)
    r2 = c[None, :] ** 2 + c[:, None] ** 2
    return (r2 >= ri ** 2) & (r2 <= 1.0)


cases = [(6, 24, 0.3, 8), (5, 21, 0.55, 9)]
use_central_obscuration = np.array([0.3, 0.55]) > 0      # NumPy booleans, as a comparison yields
flags = [('True', True), ('numpy.bool_', use_central_obscuration[0]), ('int 1', 1)]

for nmax, dim, ri, nr in cases:
    for name, flag in flags:
        with contextlib.redirect_stdout(io.StringIO()):
            kl, var, pupil, bas = KL.make_kl(nmax, dim, ri=ri, nr=nr, mask=flag)
        ann = annulus(dim, ri)
        if not np.array_equal(pupil.astype(bool), ann):
            failures.append("pupil is not the annulus indicator (dim=%d ri=%g)" % (dim, ri))
        outside = np.abs(kl[:, ~ann]).max()
        inside = np.abs(kl[:, ann]).max()
        if outside != 0.0:
            failures.append("mask=%s (dim=%d, ri=%g, nr=%d): rendering is NOT zero outside the annulus, "
                            "max |kl| outside = %.3g (inside %.3g)" % (name, dim, ri, nr, outside, inside))
        if not inside > 0.1:
            failures.append("mask=%s: modes vanish inside the pupil" % name)

if failures:
    print("C13 VIOLATED:")
    for f in failures:
        print("  -", f)
    sys.exit(1)
print("C13 masked rendering ok for all mask forms")
sys.exit(0)
