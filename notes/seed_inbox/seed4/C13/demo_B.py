"""C13, ordering clause: for every mode count nmax >= 1 the returned variances are positive and
non-increasing with tip and tilt FIRST (and equal); the functions are orthonormal, piston-free and
diagonalise the Kolmogorov covariance on their native polar grid.  Small mode counts (a tip/tilt-only
basis, nmax = 1 or 2) are part of the domain."""
import sys, io, contextlib, warnings
import numpy as np
warnings.simplefilter('ignore')
from aotools.functions import karhunenLoeve as KL

failures = []


def run(nmax, dim, ri, nr):
    with contextlib.redirect_stdout(io.StringIO()):
        return KL.make_kl(nmax, dim, ri=ri, nr=nr)


def check(nmax, dim, ri, nr):
    tag = "nmax=%d dim=%d ri=%g nr=%d" % (nmax, dim, ri, nr)
    kl, var, pupil, bas = run(nmax, dim, ri, nr)
    npp = bas['np']
    F = np.array([np.array(KL.gkl_sfi(bas, i)) for i in range(nmax)])

    # generic clauses
    G = np.einsum('irp,jrp->ij', F, F) / (nr * npp)
    if np.abs(G - np.eye(nmax)).max() > 1e-10:
        failures.append(tag + ": not orthonormal")
    if np.abs(F.mean(axis=(1, 2))).max() > 1e-10:
        failures.append(tag + ": not piston-free")
    if not (np.all(var > 0) and np.all(np.diff(var) <= 1e-12 * var[0])):
        failures.append(tag + ": variances not positive / non-increasing: %s" % var)
    r = bas['radp']
    th = np.arange(npp) * 2 * np.pi / npp
    x = (r[:, None] * np.cos(th)).ravel()
    y = (r[:, None] * np.sin(th)).ravel()
    D = 6.8839 * (0.5 * np.hypot(x[:, None] - x[None, :], y[:, None] - y[None, :])) ** (5. / 3)
    Ff = F.reshape(nmax, -1) / (nr * npp)
    C = -0.5 * Ff @ D @ Ff.T
    if np.abs(C - np.diag(var)).max() > 1e-4 * var[0]:
        failures.append(tag + ": covariance not diag(variances)")

    # tip and tilt first: the leading one/two functions have azimuthal order 1 ...
    for i in range(min(nmax, 2)):
        spec = np.abs(np.fft.fft(F[i], axis=1)) ** 2
        frac = (spec[:, 1].sum() + spec[:, -1].sum()) / spec.sum()
        if frac < 0.999:
            failures.append(tag + ": function %d is not a tilt: only %.3g of its energy is in "
                            "azimuthal order 1" % (i, frac))
        # ... and are (nearly) planes on the Cartesian grid
        c = (np.arange(dim) - 0.5 * (dim - 1)) / (0.5 * dim)
        m = pupil > 0
        A = np.stack([(c[None, :] + 0 * c[:, None])[m], (c[:, None] + 0 * c[None, :])[m]], axis=1)
        z = kl[i][m]
        coef = np.linalg.lstsq(A, z, rcond=None)[0]
        expl = 1 - np.sum((z - A @ coef) ** 2) / np.sum(z ** 2)
        if expl < 0.9:
            failures.append(tag + ": Cartesian mode %d is not a tilted plane (plane fit explains %.2g)"
                            % (i, expl))
    if nmax >= 2 and abs(var[0] - var[1]) > 1e-12 * var[0]:
        failures.append(tag + ": tip and tilt variances differ: %r vs %r" % (var[0], var[1]))
    return var


for ri, nr, dim in [(0.25, 10, 20), (0.6, 9, 17)]:
    vars_ = {n: check(n, dim, ri, nr) for n in (1, 2, 3, 6)}
    # the tip/tilt variance is a property of the pupil, not of how many modes were asked for
    for n in (1, 2, 3):
        if abs(vars_[n][0] - vars_[6][0]) > 1e-9 * vars_[6][0]:
            failures.append("ri=%g: leading variance for nmax=%d is %.6g but %.6g for nmax=6"
                            % (ri, n, vars_[n][0], vars_[6][0]))

if failures:
    print("C13 VIOLATED:")
    for f in failures:
        print("  -", f)
    sys.exit(1)
print("C13 ordering / tip-tilt-first ok")
sys.exit(0)
