"""
Property C02, end-to-end (covariance builder -> reconstructor of the same object), over conditioning values:

  for every conditioning value c the reconstructor R returned by CovarianceMatrix.make_tomographic_reconstructor
  satisfies the normal equations  R C_off,off = C_on,off  on the retained singular subspace of C_off,off (singular
  values > c * largest) and gives no weight to the discarded singular directions -- i.e. it is the minimum-variance
  linear estimator among those that only use the retained modes.

Exit 0 if this holds for c = 0 and two non-zero conditioning values, exit 1 otherwise.
"""
import sys
import numpy
import aotools

TEL_DIAM = 4.0
NX = 4
MASK = numpy.ones((NX, NX))
SUBAP_DIAM = TEL_DIAM / NX
LAYER_ALTS = numpy.array([0., 5000., 10000.])

n_wfs = 4
cm = aotools.CovarianceMatrix(
    n_wfs, [MASK.copy() for _ in range(n_wfs)], TEL_DIAM, [SUBAP_DIAM] * n_wfs,
    [0, 90000., 90000., 90000.], [[0., 0.], [20., 0.], [-10., 17.], [-10., -17.]], [500e-9] * n_wfs,
    len(LAYER_ALTS), LAYER_ALTS, [0.2, 0.3, 0.4], [25.] * 3, threads=1)
cov = numpy.array(cm.make_covariance_matrix(), dtype="float64")
n_on = 2 * int(MASK.sum())
c_onoff = cov[:n_on, n_on:]
c_offoff = cov[n_on:, n_on:]

u, s, vh = numpy.linalg.svd(c_offoff)
rel = s / s[0]
print("C_off,off: %d singular values, smallest/largest = %.2e" % (len(s), rel[-1]))


def gap_value(lo, hi):
    """a conditioning value inside the widest gap of the relative singular values between lo and hi"""
    idx = [k for k in range(len(rel) - 1) if lo < rel[k + 1] and rel[k] < hi]
    k = max(idx, key=lambda k: rel[k] / rel[k + 1])
    return float(numpy.sqrt(rel[k] * rel[k + 1])), rel[k] / rel[k + 1]


failures = []
for lo, hi in [(None, None), (0.003, 0.03), (0.05, 0.5)]:
    if lo is None:
        cond, gap = 0., numpy.inf
    else:
        cond, gap = gap_value(lo, hi)
    keep = s > cond * s[0]
    n_keep = int(keep.sum())
    recon = numpy.array(cm.make_tomographic_reconstructor(svd_conditioning=cond), dtype="float64")

    u_keep, u_drop = u[:, keep], u[:, ~keep]
    scale = abs(c_onoff.dot(u_keep)).max()
    # normal equations on the retained subspace
    ne_err = abs(recon.dot(c_offoff).dot(u_keep) - c_onoff.dot(u_keep)).max() / scale
    # no weight on the discarded directions
    r_scale = abs(recon).max()
    drop_weight = abs(recon.dot(u_drop)).max() / r_scale if u_drop.shape[1] else 0.
    # the minimum-variance estimator restricted to the retained modes, in closed form
    ref = c_onoff.dot(u_keep / s[keep]).dot(u_keep.T)
    dev = abs(recon - ref).max() / abs(ref).max()
    print("conditioning %.4e (gap x%.2f): %d of %d modes retained; normal equations %.2e, "
          "weight on discarded modes %.2e, deviation from restricted optimum %.2e"
          % (cond, gap, n_keep, len(s), ne_err, drop_weight, dev))
    if cond == 0:
        tol_ne, tol_dev = 1e-3, numpy.inf       # single precision inversion of every mode
    else:
        tol_ne, tol_dev = 1e-3, 1e-2
    if not ne_err < tol_ne:
        failures.append("conditioning %.3e: normal equations violated on the retained subspace (%.2e)" % (cond, ne_err))
    if not drop_weight < 1e-2:
        failures.append("conditioning %.3e: R puts weight %.2e (relative) on singular directions that the "
                        "conditioning discards" % (cond, drop_weight))
    if not dev < tol_dev:
        failures.append("conditioning %.3e: R deviates by %.2e from the minimum-variance estimator on the "
                        "retained modes" % (cond, dev))

if failures:
    print("PROPERTY C02 VIOLATED")
    for f in failures:
        print("  - " + f)
    sys.exit(1)
print("property C02 holds")
sys.exit(0)
