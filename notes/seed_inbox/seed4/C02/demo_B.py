"""
Property C02, end-to-end through the covariance builder:

  (1) duplicate clause: when the on-axis sensor has the same direction, mask, wavelength (and altitude) as one of the
      off-axis sensors, the reconstructor reproduces that sensor's slopes and gives zero weight to all the others;
  (2) the minimum-variance estimator does not depend on the order in which the off-axis sensors are listed: listing
      them in another order must only permute the column blocks of R (checked through the expected squared residual,
      evaluated with the covariance matrix of the other listing).

Exit 0 if both hold for a mixed laser/natural guide-star system, exit 1 otherwise.
"""
import sys
import numpy
import aotools

TEL_DIAM = 4.0
NX = 4
MASK = numpy.ones((NX, NX))
N_SUB = int(MASK.sum())
SUBAP_DIAM = TEL_DIAM / NX
WAVELENGTH = 500e-9
LAYER_ALTS = numpy.array([0., 4000., 10000.])
LAYER_R0 = [0.2, 0.3, 0.4]
LAYER_L0 = [25., 25., 25.]

NGS = 0          # the library's flag for a natural guide star
LGS = 90000.


def build(sensors):
    """sensors: list of (gs_altitude, (x, y) in arcsec), the first one is the on-axis one"""
    n_wfs = len(sensors)
    cm = aotools.CovarianceMatrix(
        n_wfs, [MASK.copy() for _ in range(n_wfs)], TEL_DIAM, [SUBAP_DIAM] * n_wfs,
        [s[0] for s in sensors], [list(s[1]) for s in sensors], [WAVELENGTH] * n_wfs,
        len(LAYER_ALTS), LAYER_ALTS, LAYER_R0, LAYER_L0, threads=1)
    cov = numpy.array(cm.make_covariance_matrix(), dtype="float64")
    recon = numpy.array(cm.make_tomographic_reconstructor(), dtype="float64")
    return cov, recon


def residual(cov, recon):
    """expected squared residual E|s_on - R s_off|^2 for slopes with covariance cov"""
    n = recon.shape[0]
    c_onon, c_onoff, c_offoff = cov[:n, :n], cov[:n, n:], cov[n:, n:]
    return numpy.trace(c_onon - 2 * recon.dot(c_onoff.T) + recon.dot(c_offoff).dot(recon.T))


def permute_blocks(mat, order, axis):
    blocks = numpy.split(mat, len(order), axis=axis)
    return numpy.concatenate([blocks[k] for k in order], axis=axis)


failures = []

# ---- (1) the on-axis natural star is also one of the off-axis sensors, listed after the two laser stars
on_axis = (NGS, (0., 0.))
lgs_a = (LGS, (20., 0.))
lgs_b = (LGS, (-10., 17.))
cov, recon = build([on_axis, lgs_a, lgs_b, on_axis])
expected = numpy.zeros_like(recon)
expected[:, 2 * 2 * N_SUB:] = numpy.identity(2 * N_SUB)
err = abs(recon - expected).max()
print("(1) duplicate sensor listed last : max |R - [0 0 I]| = %.3e" % err)
if not err < 1e-3:
    failures.append("duplicate clause violated: R does not reproduce the duplicated sensor (max deviation %.3e)" % err)

cov, recon = build([on_axis, on_axis, lgs_a, lgs_b])
expected = numpy.zeros_like(recon)
expected[:, :2 * N_SUB] = numpy.identity(2 * N_SUB)
err = abs(recon - expected).max()
print("(1) duplicate sensor listed first: max |R - [I 0 0]| = %.3e" % err)
if not err < 1e-3:
    failures.append("duplicate clause violated: R does not reproduce the duplicated sensor (max deviation %.3e)" % err)

# ---- (2) a tomographic case (no duplicate): the same three off-axis sensors listed in two different orders
ngs_c = (NGS, (12., -8.))
cov_1, recon_1 = build([on_axis, ngs_c, lgs_a, lgs_b])
cov_2, recon_2 = build([on_axis, lgs_a, lgs_b, ngs_c])
# bring listing 2 into the order of listing 1: listing 1 = blocks (2, 0, 1) of listing 2
recon_2_as_1 = permute_blocks(recon_2, [2, 0, 1], axis=1)
n_on = recon_1.shape[0]
cov_2_off = permute_blocks(permute_blocks(cov_2[n_on:, n_on:], [2, 0, 1], 0), [2, 0, 1], 1)
cov_2_onoff = permute_blocks(cov_2[:n_on, n_on:], [2, 0, 1], 1)
cov_2_as_1 = numpy.block([[cov_2[:n_on, :n_on], cov_2_onoff], [cov_2_onoff.T, cov_2_off]])

scale = abs(cov_1).max()
dcov = abs(cov_1 - cov_2_as_1).max() / scale
print("(2) covariance of the two listings differs by %.3e (relative)" % dcov)
res_11 = residual(cov_1, recon_1)
res_12 = residual(cov_1, recon_2_as_1)
res_22 = residual(cov_2_as_1, recon_2_as_1)
res_21 = residual(cov_2_as_1, recon_1)
print("(2) residual of R(listing 1) under listing 1: %.6e, of R(listing 2): %.6e" % (res_11, res_12))
print("(2) residual of R(listing 2) under listing 2: %.6e, of R(listing 1): %.6e" % (res_22, res_21))
excess = max(res_12 / res_11, res_21 / res_22) - 1
print("(2) excess expected squared residual when the sensors are listed in the other order: %.3e" % excess)
if not excess < 1e-3:
    failures.append("the reconstructor depends on the order in which the off-axis sensors are listed: "
                    "it is not the minimum-variance estimator (excess residual %.3e)" % excess)

if failures:
    print("PROPERTY C02 VIOLATED")
    for f in failures:
        print("  - " + f)
    sys.exit(1)
print("property C02 holds")
sys.exit(0)
