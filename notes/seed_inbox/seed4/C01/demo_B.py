"""
C01 demo B: the slope covariance matrix must equal the covariance of the finite-difference slopes of the von Karman
phase at the geometrically projected sub-aperture positions (measured from the centre of the telescope pupil), entry by
entry -- also for sensors whose sub-aperture grids have different extents (a grid that does not span exactly the
telescope diameter, or a non-square mask).
"""
import sys

import numpy
import scipy.special

from aotools.turbulence import slopecovariance as sc


def D_vk(r, r0, L0):
    r = numpy.asarray(r, dtype="float64")
    rr = numpy.where(r == 0, 1., r)
    x = 2 * numpy.pi * rr / L0
    val = 0.17253 * (L0 / r0) ** (5. / 3) * (
        1 - 2 * numpy.pi ** (5. / 6) * (rr / L0) ** (5. / 6) / scipy.special.gamma(5. / 6) * scipy.special.kv(5. / 6, x))
    return numpy.where(r == 0, 0., val)


def reference(masks, tel_diam, diams, gs_alts, gs_pos, wvls, alts, r0s, L0s):
    """Covariance of finite-difference slopes, summed over layers; per sensor all x slopes then all y slopes."""
    n_wfs = len(masks)
    n_sub = [int(numpy.sum(m == 1)) for m in masks]
    offs = numpy.concatenate([[0], numpy.cumsum([2 * n for n in n_sub])])
    out = numpy.zeros((offs[-1], offs[-1]))
    for h, r0, L0 in zip(alts, r0s, L0s):
        ends = []   # per wfs: (plus points, minus points, diameter, wavelength) for each of the 2*n slopes
        for w in range(n_wfs):
            pos = numpy.array(numpy.where(masks[w] == 1)).T.astype("float64") * diams[w]
            pos = pos - tel_diam / 2. - diams[w] / 2.
            s = 1. if gs_alts[w] == 0 else 1 - h / gs_alts[w]
            pos = pos * s + numpy.array(gs_pos[w], dtype="float64") * numpy.pi / 180 / 3600 * h
            d = diams[w] * s
            ex = numpy.array([d / 2., 0.])
            ey = numpy.array([0., d / 2.])
            plus = numpy.concatenate([pos + ex, pos + ey])
            minus = numpy.concatenate([pos - ex, pos - ey])
            ends.append((plus, minus, d, wvls[w]))
        for i in range(n_wfs):
            for j in range(n_wfs):
                ap, am, di, li = ends[i]
                bp, bm, dj, lj = ends[j]

                def dist(a, b):
                    return numpy.sqrt(((a[:, None, :] - b[None, :, :]) ** 2).sum(-1))
                c = 0.5 * (- D_vk(dist(ap, bp), r0, L0) - D_vk(dist(am, bm), r0, L0)
                           + D_vk(dist(ap, bm), r0, L0) + D_vk(dist(am, bp), r0, L0))
                c *= li * lj / (4 * numpy.pi ** 2 * di * dj)
                out[offs[i]:offs[i + 1], offs[j]:offs[j + 1]] += c
    return out


def check(name, tel_diam, masks, diams, gs_alts, gs_pos, wvls, alts, r0s, L0s):
    ref = reference(masks, tel_diam, diams, gs_alts, gs_pos, wvls, alts, r0s, L0s)
    scale = numpy.abs(ref).max()
    cm = sc.CovarianceMatrix(
        len(masks), masks, tel_diam, diams, gs_alts, gs_pos, wvls, len(alts), alts, r0s, L0s, threads=1)
    mat = numpy.asarray(cm.make_covariance_matrix(), dtype="float64")
    err = numpy.abs(mat - ref).max() / scale
    asym = numpy.abs(mat - mat.T).max() / scale
    eig = numpy.linalg.eigvalsh((mat + mat.T) / 2).min() / scale
    print("%s: max |C - C_ref| / max|C_ref| = %.3e, asymmetry %.1e, min eigenvalue / max|C| = %.2e"
          % (name, err, asym, eig))
    if err < 1e-5 and asym < 1e-6 and eig > -1e-4:
        return True
    i, j = numpy.unravel_index(numpy.abs(mat - ref).argmax(), mat.shape)
    print("  VIOLATION in %s: entry (%d, %d) is %.6e, covariance of the two slopes is %.6e"
          % (name, i, j, mat[i, j], ref[i, j]))
    return False


def main():
    ok = True

    # usual case: both grids span the telescope exactly (10 x 0.8 m = 8 x 1.0 m = 8 m)
    m1 = numpy.ones((10, 10)); m1[0, 0] = m1[0, 9] = m1[9, 0] = 0
    m2 = numpy.ones((8, 8)); m2[7, 7] = 0
    ok &= check("grids spanning the pupil", 8., [m1, m2], [0.8, 1.0], [0, 90000.], [[0., 0.], [15., 5.]],
                [500e-9, 589e-9], [0., 5000.], [0.15, 0.4], [25., 30.])

    # 4.2 m telescope: 7 x 7 sub-apertures of 0.6 m, and 8 x 8 of 0.5 m (that grid is only 4.0 m wide)
    m1 = numpy.ones((7, 7)); m1[0, 0] = m1[0, 6] = m1[6, 0] = 0
    m2 = numpy.ones((8, 8)); m2[0, 0] = m2[7, 7] = m2[3, 4] = 0
    ok &= check("8x8 grid of 0.5 m on a 4.2 m telescope", 4.2, [m1, m2], [0.6, 0.5], [0, 0], [[0., 0.], [10., -6.]],
                [500e-9, 700e-9], [0., 3000., 8000.], [0.15, 0.4, 0.6], [25., 12., 50.])

    # non-square mask (6 rows x 8 columns) next to a square one
    m1 = numpy.ones((6, 8)); m1[0, 0] = m1[5, 7] = m1[2, 7] = 0
    m2 = numpy.ones((8, 8)); m2[0, 7] = 0
    ok &= check("6x8 mask next to 8x8 mask", 4., [m1, m2], [0.5, 0.5], [0, 90000.], [[5., 0.], [-5., 8.]],
                [500e-9, 589e-9], [0., 6000.], [0.2, 0.5], [20., 20.])

    if not ok:
        print("FAIL: covariance matrix is not the covariance of the slopes at the projected sub-aperture positions")
        return 1
    print("OK")
    return 0


if __name__ == "__main__":
    sys.exit(main())
