"""
C01 demo A: the slope covariance matrix must equal the covariance of the finite-difference slopes of the von Karman
phase, entry by entry, for sensors with DIFFERENT sub-aperture sizes -- also when the builder is asked to use
several processes (threads > 1).
"""
import sys

import numpy
import scipy.special

from aotools.turbulence import slopecovariance as sc


def D_vk(r, r0, L0):
    r = numpy.asarray(r, dtype="float64")
    rr = numpy.where(r == 0, 1., r)
    x = 2 * numpy.pi * rr / L0
    val = 0.17253 * (L0 / r0) ** (5. / 3) * (
        1 - 2 * numpy.pi ** (5. / 6) * (rr / L0) ** (5. / 6) / scipy.special.gamma(5. / 6) * scipy.special.kv(5. / 6, x))
    return numpy.where(r == 0, 0., val)


def reference(masks, tel_diam, diams, gs_alts, gs_pos, wvls, alts, r0s, L0s):
    """Covariance of finite-difference slopes, summed over layers; per sensor all x slopes then all y slopes."""
    n_wfs = len(masks)
    n_sub = [int(numpy.sum(m == 1)) for m in masks]
    offs = numpy.concatenate([[0], numpy.cumsum([2 * n for n in n_sub])])
    out = numpy.zeros((offs[-1], offs[-1]))
    for h, r0, L0 in zip(alts, r0s, L0s):
        ends = []   # per wfs: (plus points, minus points, diameter, wavelength) for each of the 2*n slopes
        for w in range(n_wfs):
            pos = numpy.array(numpy.where(masks[w] == 1)).T.astype("float64") * diams[w]
            pos = pos - tel_diam / 2. - diams[w] / 2.
            s = 1. if gs_alts[w] == 0 else 1 - h / gs_alts[w]
            pos = pos * s + numpy.array(gs_pos[w], dtype="float64") * numpy.pi / 180 / 3600 * h
            d = diams[w] * s
            ex = numpy.array([d / 2., 0.])
            ey = numpy.array([0., d / 2.])
            plus = numpy.concatenate([pos + ex, pos + ey])
            minus = numpy.concatenate([pos - ex, pos - ey])
            ends.append((plus, minus, d, wvls[w]))
        for i in range(n_wfs):
            for j in range(n_wfs):
                ap, am, di, li = ends[i]
                bp, bm, dj, lj = ends[j]

                def dist(a, b):
                    return numpy.sqrt(((a[:, None, :] - b[None, :, :]) ** 2).sum(-1))
                c = 0.5 * (- D_vk(dist(ap, bp), r0, L0) - D_vk(dist(am, bm), r0, L0)
                           + D_vk(dist(ap, bm), r0, L0) + D_vk(dist(am, bp), r0, L0))
                c *= li * lj / (4 * numpy.pi ** 2 * di * dj)
                out[offs[i]:offs[i + 1], offs[j]:offs[j + 1]] += c
    return out


def main():
    tel_diam = 4.
    masks = [numpy.ones((4, 4)), numpy.ones((8, 8))]
    masks[0][0, 3] = 0          # not point symmetric
    masks[1][0, 0] = 0
    masks[1][5, 7] = 0
    diams = [1.0, 0.5]
    gs_alts = [0, 90000.]
    gs_pos = [[0., 0.], [20., -12.]]
    wvls = [600e-9, 1.2e-6]
    alts = [0., 4000., 9000.]
    r0s = [0.2, 0.35, 0.5]
    L0s = [25., 10., 40.]

    ref = reference(masks, tel_diam, diams, gs_alts, gs_pos, wvls, alts, r0s, L0s)
    scale = numpy.abs(ref).max()

    bad = False
    for threads in (1, 2):
        cm = sc.CovarianceMatrix(
            2, masks, tel_diam, diams, gs_alts, gs_pos, wvls, len(alts), alts, r0s, L0s, threads=threads)
        mat = numpy.asarray(cm.make_covariance_matrix(), dtype="float64")
        err = numpy.abs(mat - ref).max() / scale
        asym = numpy.abs(mat - mat.T).max() / scale
        eig = numpy.linalg.eigvalsh((mat + mat.T) / 2).min() / scale
        print("threads=%d: max |C - C_ref| / max|C_ref| = %.3e, asymmetry %.1e, min eigenvalue / max|C| = %.2e"
              % (threads, err, asym, eig))
        if not (err < 1e-5 and asym < 1e-6 and eig > -1e-4):
            i, j = numpy.unravel_index(numpy.abs(mat - ref).argmax(), mat.shape)
            print("  VIOLATION with threads=%d: entry (%d, %d) is %.6e, covariance of the two slopes is %.6e"
                  % (threads, i, j, mat[i, j], ref[i, j]))
            bad = True
    if bad:
        print("FAIL: covariance matrix is not the covariance of the slopes")
        return 1
    print("OK")
    return 0


if __name__ == "__main__":
    sys.exit(main())
