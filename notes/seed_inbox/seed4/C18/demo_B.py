"""
Property C18, moment-conserving clause: GCTM(h, p, L, ...) returns exactly L layers with non-negative
strengths that reproduce the first 2L-1 moments  sum_l cn2_l * h_l**k  (k = 0 .. 2L-2) of the input profile
-- in particular (k = 0) the total Cn2 -- to optimiser accuracy, whatever units the caller works in.

The same physical profiles are compressed several ways: absolute Cn2*dh values with the default scalings,
the profile expressed as fractional layer weights (sum = 1) with a matching cn2_scaling, as integrated
Cn2 in units of 1e-13 m^(1/3), and a ten times stronger version with cn2_scaling raised accordingly.  Exit 0 if the property holds for all, 1 otherwise.
"""
import sys
import warnings
import numpy

warnings.filterwarnings("ignore")
from aotools.turbulence import GCTM

TOL = 2e-2   # relative accuracy demanded of every conserved moment


def moments(h, p, L, hs):
    h = numpy.asarray(h, dtype=float) / hs
    return numpy.array([(p * h ** k).sum() for k in range(2 * L - 1)])


def check(name, h, p, L, **kw):
    h_in, p_in = h.copy(), p.copy()
    h_L, cn2_L = GCTM(h, p, L, **kw)
    hs = kw.get("h_scaling", 1e4)
    problems = []
    if len(h_L) != L or len(cn2_L) != L:
        problems.append("returned %d heights / %d strengths instead of L=%d" % (len(h_L), len(cn2_L), L))
    if not (numpy.all(numpy.isfinite(h_L)) and numpy.all(numpy.isfinite(cn2_L))):
        problems.append("non-finite output")
    if numpy.any(cn2_L < 0):
        problems.append("negative layer strength")
    if not problems:
        m_in = moments(h_in, p_in, L, hs)
        m_out = moments(h_L, cn2_L, L, hs)
        rel = numpy.abs(m_out - m_in) / m_in
        if rel.max() > TOL:
            problems.append("total strength in = %.6g, out = %.6g; relative moment errors %s"
                            % (p_in.sum(), cn2_L.sum(), numpy.array2string(rel, precision=2)))
    kwtxt = ", ".join("%s=%g" % kv for kv in sorted(kw.items())) or "default scalings"
    if problems:
        print("FAIL %-26s L=%d (%s): %s" % (name, L, kwtxt, "; ".join(problems)))
        return False
    print("ok   %-26s L=%d (%s)" % (name, L, kwtxt))
    return True


profiles = []
h = numpy.arange(0, 25000, 250.)
profiles.append(("uniform 100 layers", h, numpy.ones(len(h)) * 100e-17, 5))
profiles.append(("exponential decay", h, 5e-15 * numpy.exp(-h / 4000.), 3))
h = numpy.arange(0, 20000, 500.)
profiles.append(("ground + jet-stream bump", h,
                 3e-15 * numpy.exp(-h / 1500.) + 2e-15 * numpy.exp(-((h - 11000.) / 2000.) ** 2) + 1e-16, 3))

ok = True
for name, h, p, L in profiles:
    # absolute Cn2*dh [m^(1/3)], library defaults
    ok = check(name, h, p, L) and ok
    # the same with the scalings spelt out
    ok = check(name, h, p, L, h_scaling=1e4, cn2_scaling=100e-15) and ok
    # fractional layer weights (sum = 1): a compressed layer carries about 1/L
    ok = check(name + " [fractions]", h, p / p.sum(), L, cn2_scaling=1. / L) and ok
    # integrated Cn2 in units of 1e-13 m^(1/3)
    ok = check(name + " [1e-13 units]", h, p / 1e-13, L, cn2_scaling=1.) and ok
    # ten times stronger turbulence (daytime), scaling raised accordingly
    ok = check(name + " [x10 strength]", h, p * 10, L, cn2_scaling=1e-12) and ok

if not ok:
    print("PROPERTY C18 VIOLATED: GCTM output does not conserve the turbulence moments / total Cn2")
    sys.exit(1)
print("property C18 (GCTM clause) holds on all cases")
sys.exit(0)
