"""
Property C18, moment-conserving clause: GCTM(h, p, L) returns exactly L layers with non-negative
strengths whose first 2L-1 moments  sum_l cn2_l * h_l**k  (k = 0 .. 2L-2) reproduce those of the input
profile to optimiser accuracy.

Checked on a handful of profiles whose L equal-thickness slabs are all non-empty (the stated domain):
smooth ones, and a 16-layer profile on a regular 1 km grid with a strong mid-altitude/high-altitude
structure.  Exit 0 if the property holds on all of them, 1 otherwise.
"""
import sys
import warnings
import numpy

warnings.filterwarnings("ignore")
from aotools.turbulence import GCTM

TOL = 2e-2   # relative accuracy demanded of every conserved moment (the unmodified library reaches < 1e-3 here)


def moments(h, p, L, hs=1e4):
    h = numpy.asarray(h, dtype=float) / hs
    return numpy.array([(p * h ** k).sum() for k in range(2 * L - 1)])


def check(name, h, p, L):
    h_in, p_in = h.copy(), p.copy()
    h_L, cn2_L = GCTM(h, p, L)
    problems = []
    if len(h_L) != L or len(cn2_L) != L:
        problems.append("returned %d heights / %d strengths instead of L=%d" % (len(h_L), len(cn2_L), L))
    if not (numpy.all(numpy.isfinite(h_L)) and numpy.all(numpy.isfinite(cn2_L))):
        problems.append("non-finite output")
    if numpy.any(cn2_L < 0):
        problems.append("negative layer strength")
    if not problems:
        m_in = moments(h_in, p_in, L)
        m_out = moments(h_L, cn2_L, L)
        rel = numpy.abs(m_out - m_in) / m_in
        if rel.max() > TOL:
            k = int(numpy.argmax(rel))
            problems.append("moment %d of the compressed profile is off by %.1f%% (all rel. errors: %s)"
                            % (k, 100 * rel[k], numpy.array2string(rel, precision=2)))
    if problems:
        print("FAIL %-28s L=%d: %s" % (name, L, "; ".join(problems)))
        print("     heights  :", h_L)
        print("     strengths:", cn2_L)
        return False
    print("ok   %-28s L=%d" % (name, L))
    return True


cases = []

# smooth profiles
h = numpy.arange(0, 25000, 250.)
cases.append(("uniform 100 layers", h, numpy.ones(len(h)) * 100e-17, 5))
cases.append(("exponential decay", h, 5e-15 * numpy.exp(-h / 4000.), 3))
h = numpy.arange(0, 20000, 500.)
cases.append(("ground + jet-stream bump", h,
              3e-15 * numpy.exp(-h / 1500.) + 2e-15 * numpy.exp(-((h - 11000.) / 2000.) ** 2) + 1e-16, 3))

# structured 16-layer profile on a regular 1 km grid (strengths in units of 1e-14 m^(1/3))
h = numpy.arange(16) * 1000.
p = numpy.array([0.3, 1.1, 0.9, 0.6, 2.1, 6.7, 0.7, 3.9, 5.4, 0.4, 8.5, 7.7, 1.5, 7.9, 1.5, 4.1]) * 1e-14
cases.append(("structured 16 layers", h, p, 3))

ok = True
for name, h, p, L in cases:
    ok = check(name, h, p, L) and ok

if not ok:
    print("PROPERTY C18 VIOLATED: GCTM does not conserve the first 2L-1 turbulence moments")
    sys.exit(1)
print("property C18 (GCTM clause) holds on all cases")
sys.exit(0)
