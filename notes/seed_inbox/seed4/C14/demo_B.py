"""
C14 demo B: scattering slopes into the 2-D sub-aperture map with make_subaps_2d and reading them
back through the mask is the identity -- for all (square) masks and all slope arrays, in particular
whatever the memory layout of the mask is (C order, Fortran order, transposed / flipped / strided
views, as they come out of FITS files, slicing or numpy.asfortranarray).

Exits 0 when all checks hold, 1 (with a description) otherwise.
"""
import sys

import numpy

from aotools.functions.pupil import circle
from aotools.wfs.wfslib import findActiveSubaps, make_subaps_2d

rng = numpy.random.RandomState(14)
failures = []


def roundtrip(label, mask, n_frames=3, dtype=numpy.float64):
    valid = numpy.asarray(mask) == 1
    n = int(valid.sum())
    slopes = (rng.standard_normal((n_frames, 2, n)) * 100).astype(dtype)
    slopes[:, :, :] += numpy.arange(1, n + 1).astype(dtype)          # make every column distinct
    out = make_subaps_2d(slopes, mask)
    if out.shape != (n_frames, 2) + mask.shape:
        failures.append("%s: output shape %s" % (label, out.shape))
        return
    back = out[:, :, valid]                                             # read back through the mask
    if not numpy.array_equal(back, slopes):
        bad = int(numpy.sum(numpy.any(back != slopes, axis=(0, 1))))
        failures.append("%s: scatter + read-back is not the identity (%d of %d sub-apertures carry "
                        "another sub-aperture's slopes)" % (label, bad, n))
    if numpy.any(out[:, :, ~valid] != 0):
        failures.append("%s: slopes written outside the mask" % label)
    # position by position: sub-aperture k (row-major numbering, as findActiveSubaps numbers
    # them) must land on its own cell
    rows, cols = numpy.nonzero(valid)
    for k in (0, n // 2, n - 1):
        if n and not numpy.array_equal(out[:, :, rows[k], cols[k]], slopes[:, :, k]):
            failures.append("%s: sub-aperture %d is not at cell (%d, %d)" % (label, k, rows[k], cols[k]))
            break


# a pupil that is NOT symmetric under transposition, and a symmetric one
offcentre = circle(3.2, 10, (1.5, -1.0))
offcentre[2, 7] = 0
centred = circle(4, 10)
vignetted = circle(5, 12) - circle(1.6, 12, (1, 0))

for name, m in (("off-centre pupil", offcentre), ("centred circle(4,10)", centred),
                ("annular pupil 12", vignetted)):
    layouts = [
        ("C-contiguous", numpy.ascontiguousarray(m)),
        ("copy", m.copy()),
        ("bool", m.astype(bool)),
        ("int32", m.astype(numpy.int32)),
        ("float32", m.astype(numpy.float32)),
        ("Fortran-ordered (asfortranarray)", numpy.asfortranarray(m)),
        ("transposed view", numpy.ascontiguousarray(m.T).T),
        ("up-down flipped view", m[::-1].copy()[::-1]),
        ("left-right flipped view", m[:, ::-1].copy()[:, ::-1]),
        ("every-other-pixel view of a larger array", numpy.kron(m, numpy.ones((2, 2)))[::2, ::2]),
        ("plane of a Fortran-ordered cube", numpy.asfortranarray(numpy.stack([m, m], axis=0))[1]),
    ]
    for lname, lm in layouts:
        assert numpy.array_equal(lm, m)            # same mask values, only the layout differs
        roundtrip("%s, %s" % (name, lname), lm)
    roundtrip("%s, float32 slopes" % name, m, dtype=numpy.float32)
    roundtrip("%s, one frame" % name, m, n_frames=1)

# sub-aperture map from findActiveSubaps, as a WFS pipeline builds it
pupil = circle(19, 40, (1, 0))
coords = findActiveSubaps(10, pupil, 0.5)
submask = numpy.zeros((10, 10), order="F")
submask[(coords[:, 0] / 4).astype(int), (coords[:, 1] / 4).astype(int)] = 1
roundtrip("map of the active sub-apertures (built as a Fortran-ordered array)", submask)
roundtrip("map of the active sub-apertures (C copy)", numpy.ascontiguousarray(submask))

if failures:
    print("C14 VIOLATED (%d failures):" % len(failures))
    for f in failures[:14]:
        print("  -", f)
    if len(failures) > 14:
        print("  ... and %d more" % (len(failures) - 14))
    sys.exit(1)
print("C14 demo B: all checks hold")
sys.exit(0)
