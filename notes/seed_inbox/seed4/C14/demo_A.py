"""
C14 demo A: circle(r, n, c, origin) is exactly the indicator of the pixel centres
within distance r of the centre c -- for every call, whatever form the centre is given in
(tuple, list, integer array, float array) and however often the same centre object is used.
Consequences checked as well: masks built around one centre are nested in r, and an integer
shift of c translates the mask.

Exits 0 when all checks hold, 1 (with a description) otherwise.
"""
import sys
from fractions import Fraction

import numpy

from aotools.functions.pupil import circle


def reference(radius, size, centre, origin):
    """Exact indicator, rational arithmetic; pixel centres sit at half-integer coordinates."""
    cx, cy = Fraction(float(centre[0])), Fraction(float(centre[1]))
    if origin == "middle":
        cx += Fraction(size, 2)
        cy += Fraction(size, 2)
    r2 = Fraction(float(radius)) ** 2
    out = numpy.zeros((size, size))
    for row in range(size):
        for col in range(size):
            dx = Fraction(2 * col + 1, 2) - cx
            dy = Fraction(2 * row + 1, 2) - cy
            if dx * dx + dy * dy <= r2:
                out[row, col] = 1
    return out


failures = []


def check(label, got, want):
    if got.shape != want.shape or not numpy.array_equal(got, want):
        failures.append("%s: mask differs from the exact indicator (%d pixels set, expected %d)"
                        % (label, int(got.sum()), int(want.sum())))


# centres given in the forms callers use; dyadic values so that everything is exact in floats
centre_forms = [
    ("tuple", (1.0, -0.5)),
    ("list", [1.0, -0.5]),
    ("int array", numpy.array([1, -2])),
    ("float32 array", numpy.array([1.0, -0.5], dtype=numpy.float32)),
    ("float64 array", numpy.array([1.0, -0.5])),
    ("centre-of-mass style array", numpy.array([0.25, 0.75]) * 2 - 1.0),
]

for origin in ("middle", "corner"):
    for size in (9, 12):
        for name, centre in centre_forms:
            if origin == "corner":
                # put the same circle inside the array for the corner origin (integer shift)
                if isinstance(centre, numpy.ndarray):
                    centre = centre + numpy.asarray(size // 2, dtype=centre.dtype)
                else:
                    centre = type(centre)(v + size // 2 for v in centre)
            pristine = tuple(float(v) for v in centre)      # what the caller asked for
            previous = None
            # a caller scanning radii around one fixed centre object
            for radius in (0, 1.5, 2.5, 3, 4.25):
                got = circle(radius, size, centre, origin)
                label = "circle(%s, %d, %s %s, origin=%r)" % (radius, size, name, pristine, origin)
                check(label, got, reference(radius, size, pristine, origin))
                if previous is not None and numpy.any(previous > got):
                    failures.append(label + ": mask is not nested in the radius")
                previous = got

# integer shift of the centre translates the mask (same centre array updated by the caller)
size, radius = 14, 3.5
c = numpy.array([-2.0, 1.0])
base = circle(radius, size, c.copy())
c_shift = c + numpy.array([3.0, -2.0])
moved = circle(radius, size, c_shift)
if not numpy.array_equal(moved, numpy.roll(base, (-2, 3), axis=(0, 1))):
    failures.append("integer shift of the centre does not translate the mask")
again = circle(radius, size, c_shift)
if not numpy.array_equal(again, moved):
    failures.append("two identical calls circle(%s, %d, c) with the same centre array give "
                    "different masks (%d vs %d pixels)" % (radius, size, moved.sum(), again.sum()))

if failures:
    print("C14 VIOLATED (%d failures):" % len(failures))
    for f in failures[:12]:
        print("  -", f)
    if len(failures) > 12:
        print("  ... and %d more" % (len(failures) - 12))
    sys.exit(1)
print("C14 demo A: all checks hold")
sys.exit(0)
