"""
C20 (purity / no hidden state) -- calculate_structure_function.

Calling a library function twice with equal arguments must give equal results,
whatever else the program (the library included) did in between.  Here the
calls that are interleaved are harmless ones -- other AOtools functions whose
results are thrown away, and short-lived NumPy temporaries -- on arrays of the
same length as the structure function that is asked for.

exit 0: property holds, exit 1: violated.
"""
import sys
import numpy
import aotools

problems = []


def same(a, b):
    return a.shape == b.shape and a.dtype == b.dtype and a.tobytes() == b.tobytes()


def describe(a, b):
    bad = [k for k in range(len(a)) if a[k:k + 1].tobytes() != b[k:k + 1].tobytes()]
    return "elements %s: %s instead of %s" % (bad, a[bad], b[bad])


rng = numpy.random.default_rng(20)

for shape, kwargs in (((64, 64), {}),
                      ((48, 40), {}),
                      ((64, 64), {"nbOfPoint": 12}),
                      ((96, 96), {"step": 2, "nbOfPoint": 20})):
    phase = rng.standard_normal(shape)
    phase_before = phase.copy()

    first = aotools.calculate_structure_function(phase, **kwargs)
    reference = first.copy()
    n = len(first)
    del first

    for history in range(6):
        # --- other, unrelated work between the two equal calls ------------------------------
        seps = numpy.linspace(0.1, 3. + history, n)
        if history % 3 == 0:
            aotools.structure_function_kolmogorov(seps, 0.15)          # result discarded
        elif history % 3 == 1:
            aotools.structure_function_vk(seps, 0.15, 25.)             # result discarded
        else:
            aotools.r0_to_seeing(seps)                                 # result discarded
        scratch = numpy.full(n, 1000. + history)
        del scratch, seps
        # --- the same call again ---------------------------------------------------------
        again = aotools.calculate_structure_function(phase, **kwargs)

        if not same(again, reference):
            problems.append("shape %s %s, history %d: repeat call differs, %s"
                            % (shape, kwargs, history, describe(again, reference)))
        del again

    if not same(phase, phase_before):
        problems.append("shape %s: the phase argument was modified" % (shape,))

if problems:
    print("C20 VIOLATED (equal arguments, different results -- depends on what ran before):")
    for p in problems[:10]:
        print("  -", p)
    if len(problems) > 10:
        print("  ... and %d more" % (len(problems) - 10))
    sys.exit(1)

print("ok: calculate_structure_function returns the same result whatever ran in between")
sys.exit(0)
