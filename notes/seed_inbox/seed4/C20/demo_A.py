"""
C20 (purity / no hidden state) -- infinite phase screens.

A screen that the library has handed out is a *result*: whatever is called
afterwards (on the same object or on another one) must not change it, and two
equal programs (same constructor arguments, same seed, same sequence of calls)
must deliver equal results -- also when the caller keeps the results of the
earlier steps, as every simulation that collects frames does.

exit 0: property holds, exit 1: violated.
"""
import sys
import numpy
from aotools.turbulence import infinitephasescreen as ips

problems = []


def same(a, b):
    return a.shape == b.shape and a.dtype == b.dtype and a.tobytes() == b.tobytes()


def make(kind, seed):
    if kind == "vk":
        return ips.PhaseScreenVonKarman(16, 0.25, 0.2, 20., random_seed=seed)
    return ips.PhaseScreenKolmogorov(9, 0.25, 0.2, 20., random_seed=seed, stencil_length_factor=2)


for kind in ("vk", "kolmogorov"):
    n_steps = 5

    # reference program: the same calls, but every result is copied the moment it is returned
    ref_obj = make(kind, 1234)
    ref_first = numpy.array(ref_obj.scrn, copy=True)
    reference = [numpy.array(ref_obj.add_row(), copy=True) for _ in range(n_steps)]

    # the program under test keeps what the library returned (no defensive copies)
    obj = make(kind, 1234)
    first = obj.scrn
    if not same(first, ref_first):
        problems.append("%s: initial screen differs between two equally seeded objects" % kind)
    frames = []
    for step in range(n_steps):
        frames.append(obj.add_row())
        # (a) the result of this call equals the result of the same call in the reference program
        if not same(frames[step], reference[step]):
            problems.append("%s: step %d returns something else than the equally seeded reference"
                            % (kind, step))
        # (b) nothing that was returned earlier has been changed by this call
        if not same(first, ref_first):
            problems.append("%s: the screen read before step %d was changed by add_row()"
                            % (kind, step))
            first = ref_first  # report once
        for earlier in range(step):
            if not same(frames[earlier], reference[earlier]):
                problems.append(
                    "%s: the frame returned by add_row() call #%d was modified by call #%d "
                    "(max |change| = %.3g rad)" % (
                        kind, earlier, step,
                        numpy.abs(frames[earlier] - reference[earlier]).max()))
                frames[earlier] = reference[earlier]  # report each corruption once

    # (c) a second, unrelated object stepping in between must not matter either
    a = make(kind, 77)
    b = make(kind, 77)
    other = make(kind, 5)
    ra = a.add_row()
    other.add_row()
    rb = b.add_row()
    other.add_row()
    if not same(ra, rb):
        problems.append("%s: equal calls on equal objects differ when another object is stepped in between" % kind)

if problems:
    print("C20 VIOLATED (results handed out by the library are not stable):")
    for p in problems[:12]:
        print("  -", p)
    if len(problems) > 12:
        print("  ... and %d more" % (len(problems) - 12))
    sys.exit(1)

print("ok: frames returned by add_row()/scrn stay what they were; equal programs give equal results")
sys.exit(0)
