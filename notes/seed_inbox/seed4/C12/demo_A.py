"""
C12 demo A: a phase built from coefficients is that linear combination of modes --
for ALL coefficient vectors, including physically small ones (wavefront
coefficients expressed in metres are of order 1e-9 .. 1e-7).

Checks, for several sizes / normalisations / rotations:
  phaseFromZernikes(c, N) == sum_k c[k] * zernikeArray(len(c), N)[k]
and homogeneity  phaseFromZernikes(s*c) == s * phaseFromZernikes(c)
for scales s spanning 1 .. 1e-12.
Exit 0 if everything holds, 1 otherwise.
"""
import sys
import numpy
from aotools.functions import zernike

failures = []

base = numpy.array([0.0, 50.0, -30.0, 120.0, 0.0, 7.5, -2.25, 0.0, 1.0, 3.0])
rng = numpy.random.RandomState(12)
vectors = [base, rng.normal(size=15), numpy.r_[0.0, rng.normal(size=5), 0.0, 0.0]]
scales = [1.0, 1e-3, 1e-6, 1e-7, 1e-8, 1e-9, 1e-12]

for N in (16, 21):
    for norm in ("noll", "rms", "p2v"):
        for rot in (0, 0.4):
            for v in vectors:
                Zs = zernike.zernikeArray(len(v), N, norm=norm, rot=rot)
                unit = numpy.tensordot(v, Zs, axes=1)
                for s in scales:
                    c = s * v
                    expected = numpy.tensordot(c, Zs, axes=1)
                    for form, arg in (("ndarray", c), ("list", list(c))):
                        got = zernike.phaseFromZernikes(arg, N, norm=norm, rot=rot)
                        if got.shape != (N, N):
                            failures.append("shape %s for N=%d" % (got.shape, N))
                            continue
                        scale_ref = numpy.abs(expected).max()
                        err = numpy.abs(got - expected).max()
                        if not err <= 1e-12 * scale_ref:
                            failures.append(
                                "N=%d norm=%s rot=%s scale=%g (%s, %d coeffs): "
                                "phase differs from sum c_k Z_k by %.3g (phase max %.3g, got max %.3g)"
                                % (N, norm, rot, s, form, len(v), err, scale_ref,
                                   numpy.abs(got).max()))
                        # homogeneity against the unit-scale phase
                        err_h = numpy.abs(got - s * unit).max()
                        if not err_h <= 1e-12 * s * numpy.abs(unit).max():
                            failures.append(
                                "N=%d norm=%s rot=%s: phase(%g*c) != %g*phase(c) (err %.3g)"
                                % (N, norm, rot, s, s, err_h))

# single small coefficient: one mode with amplitude 1 nm must give 1e-9 * that mode
for j in (2, 4, 11):
    c = numpy.zeros(j)
    c[j - 1] = 1e-9
    got = zernike.phaseFromZernikes(c, 20)
    exp = 1e-9 * zernike.zernike_noll(j, 20)
    if not numpy.abs(got - exp).max() <= 1e-21:
        failures.append("1 nm of Noll mode %d: phase max %.3g, expected max %.3g"
                        % (j, numpy.abs(got).max(), numpy.abs(exp).max()))

if failures:
    print("C12 VIOLATED: phaseFromZernikes is not the linear combination of modes")
    for f in failures[:12]:
        print("  " + f)
    print("  (%d failures in total)" % len(failures))
    sys.exit(1)
print("ok: phaseFromZernikes is the linear combination for all tested vectors/scales")
sys.exit(0)
