"""
C12 demo B: an array of modes built from an index LIST equals the matching slices of
the array built from a COUNT -- for every normalisation and rotation -- and the modes
it contains have unit RMS over the pupil ("rms") / unit peak-to-valley ("p2v").

Exit 0 if everything holds, 1 otherwise.
"""
import sys
import numpy
from aotools.functions import zernike

failures = []

index_lists = [[2, 3, 4], [5, 2, 11, 7], (1, 6, 15), numpy.array([4, 8, 9, 22]), [13]]


def pupil_mask(N):
    c = (numpy.arange(N) - N / 2. + 0.5) / (N / 2.)
    X, Y = numpy.meshgrid(c, c)
    return (X ** 2 + Y ** 2) <= 1.0


for N in (16, 23):
    mask = pupil_mask(N)
    for norm in ("noll", "rms", "p2v"):
        for rot in (0, 0.7):
            for J in index_lists:
                maxJ = int(max(J))
                full = zernike.zernikeArray(maxJ, N, norm=norm, rot=rot)
                sub = zernike.zernikeArray(J, N, norm=norm, rot=rot)
                if sub.shape != (len(J), N, N):
                    failures.append("N=%d norm=%s J=%s: shape %s" % (N, norm, list(J), sub.shape))
                    continue
                for i, j in enumerate(J):
                    if not numpy.allclose(sub[i], full[j - 1], rtol=1e-12, atol=1e-13):
                        failures.append(
                            "N=%d norm=%s rot=%s J=%s: list-built mode j=%d differs from "
                            "count-built slice (max |diff| %.3g)"
                            % (N, norm, rot, list(J), j, numpy.abs(sub[i] - full[j - 1]).max()))
                    if numpy.any(sub[i][~mask] != 0):
                        failures.append("N=%d norm=%s j=%d: non-zero outside pupil" % (N, norm, j))
                    if norm == "rms":
                        rms = numpy.sqrt(numpy.sum(sub[i][mask] ** 2) / mask.sum())
                        if abs(rms - 1) > 1e-10:
                            failures.append(
                                "N=%d norm=rms rot=%s J=%s: list-built mode j=%d has RMS %.6f over "
                                "the pupil, not 1" % (N, rot, list(J), j, rms))
                    if norm == "p2v":
                        p2v = sub[i].max() - sub[i].min()
                        if abs(p2v - 1) > 1e-10:
                            failures.append(
                                "N=%d norm=p2v rot=%s J=%s: list-built mode j=%d has peak-to-valley "
                                "%.6f, not 1" % (N, rot, list(J), j, p2v))

if failures:
    print("C12 VIOLATED: zernikeArray(list) disagrees with zernikeArray(count) / normalisation")
    for f in failures[:12]:
        print("  " + f)
    print("  (%d failures in total)" % len(failures))
    sys.exit(1)
print("ok: list-built and count-built Zernike arrays agree for all norms/rotations")
sys.exit(0)
