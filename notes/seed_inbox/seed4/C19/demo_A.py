"""
C19 / structure-function estimator implements its definition:
    sf[j] = < (phase - phase shifted by j*step along axis 0)^2 >,   sf[0] = 0
for every 2-D phase array, whatever its element type.  Checked on
  * a float ramp (closed form a^2 (j*step)^2),
  * random float64 / float32 phases,
  * integer-valued phases (quantised measurements: ADC counts, DM command steps, ...),
  * quadratic scaling in amplitude for the integer phase.
"""
import sys
import numpy
from aotools.turbulence.slopecovariance import calculate_structure_function

failures = []


def reference(phase, n_lags, step):
    """the definition, evaluated in double precision"""
    p = numpy.asarray(phase, dtype=numpy.float64)
    ref = numpy.zeros(n_lags)
    for j in range(1, n_lags):
        s = j * step
        ref[j] = numpy.mean((p[:-s, :] - p[s:, :]) ** 2)
    return ref


def check(name, phase, nb, step, rtol):
    sf = numpy.asarray(calculate_structure_function(phase, nbOfPoint=nb, step=step), dtype=numpy.float64)
    ref = reference(phase, len(sf), step)
    if sf[0] != 0:
        failures.append("%s: sf[0] = %r, expected 0" % (name, sf[0]))
    err = numpy.abs(sf - ref)
    bad = err > rtol * numpy.abs(ref) + 1e-12
    if bad.any():
        j = int(numpy.argmax(bad))
        failures.append("%s (dtype %s, step %d): lag %d gives %r, definition gives %r"
                        % (name, phase.dtype, step, j, sf[j], ref[j]))
    return sf


rng = numpy.random.default_rng(1234)

# closed form: ramp of slope a along the first axis
a = 0.37
ramp = a * numpy.arange(48, dtype=float)[:, None] * numpy.ones((1, 40))
for step in (1, 2, 3):
    sf = check("ramp", ramp, 6, step, 1e-10)
    expect = a ** 2 * (numpy.arange(len(sf)) * step) ** 2
    if not numpy.allclose(sf, expect, rtol=1e-10, atol=1e-12):
        failures.append("ramp step %d: %r != a^2 (j step)^2 = %r" % (step, sf, expect))

# random real phases
check("gaussian", rng.standard_normal((48, 40)), 8, 1, 1e-10)
check("gaussian", rng.standard_normal((48, 40)), 8, 2, 1e-10)
check("gaussian32", rng.standard_normal((48, 40)).astype(numpy.float32), 8, 2, 1e-5)

# quantised phases held in integer arrays
counts64 = rng.integers(-40, 40, size=(48, 40))
counts32 = rng.integers(-40, 40, size=(36, 36)).astype(numpy.int32)
sf1 = check("counts", counts64, 8, 1, 1e-10)
check("counts", counts64, 5, 3, 1e-10)
check("counts", counts32, 8, 2, 1e-10)

# quadratic in amplitude: 3 x phase -> 9 x structure function
sf3 = numpy.asarray(calculate_structure_function(3 * counts64, nbOfPoint=8, step=1), dtype=float)
if not numpy.allclose(sf3, 9 * sf1, rtol=1e-10, atol=1e-12):
    failures.append("counts: sf(3*phase) = %r is not 9*sf(phase) = %r" % (sf3, 9 * sf1))

if failures:
    print("C19 VIOLATED:")
    for f in failures:
        print("  " + f)
    sys.exit(1)
print("C19 holds on all cases")
sys.exit(0)
