"""
C19 / temporal power spectrum of slopes: the frequency axis is k*frame_rate/n_frames and the spectrum of a pure
sinusoid peaks at the bin whose axis value is the sinusoid's frequency -- for every call, i.e. also when the same
(frame_rate, n_frames) is analysed more than once in a session and whatever the caller did with the axis returned
by an earlier call (each call must hand out the axis afresh).

Scenario: two data sets recorded with the same WFS settings are reduced one after the other.  For the first one
the user turns the returned axis into angular frequency in place (and drops the DC bin for a log-log plot), the
usual idiom; the second reduction asks the library for the axis again.
"""
import sys
import numpy
from aotools.turbulence import calc_slope_temporalps, get_tps_time_axis

failures = []


def expected_axis(frame_rate, n_frames):
    return numpy.arange(n_frames // 2) * float(frame_rate) / n_frames


def check_axis(tag, frame_rate, n_frames):
    t = get_tps_time_axis(frame_rate, n_frames)
    e = expected_axis(frame_rate, n_frames)
    if t.shape != e.shape or not numpy.allclose(t, e, rtol=1e-12, atol=0):
        k = 1 if len(t) > 1 else 0
        failures.append("%s: axis(frame_rate=%r, n_frames=%r)[%d] = %r, expected k*frame_rate/n_frames = %r"
                        % (tag, frame_rate, n_frames, k, t[k], e[k]))
    return t


def reduce_sinusoid(tag, frame_rate, n_frames, k0, n_subaps=12, seed=0):
    """slopes = sinusoid exactly on bin k0 (+ a little noise); returns the frequency read off the peak"""
    rng = numpy.random.default_rng(seed)
    f0 = k0 * float(frame_rate) / n_frames
    time = numpy.arange(n_frames) / float(frame_rate)
    amp = rng.uniform(0.5, 1.5, n_subaps)
    slopes = amp[None, :] * numpy.sin(2 * numpy.pi * f0 * time)[:, None] + 1e-3 * rng.standard_normal((n_frames, n_subaps))
    tps, _ = calc_slope_temporalps(slopes)
    axis = check_axis(tag, frame_rate, n_frames)
    peak = int(numpy.argmax(tps))
    if peak != k0:
        failures.append("%s: spectrum peaks at bin %d, sinusoid is on bin %d" % (tag, peak, k0))
    f_peak = axis[peak]
    if not numpy.isclose(f_peak, f0, rtol=1e-12):
        failures.append("%s: peak frequency read from the axis = %r Hz, sinusoid frequency = %r Hz" % (tag, f_peak, f0))
    return axis


# plain single-shot checks over several frame counts / rates
for fr, n in [(100, 1000), (150.0, 512), (500, 256), (37.5, 90), (1000.0, 64)]:
    check_axis("single call", fr, n)

# session: first data set
frame_rate, n_frames = 150.0, 600
omega = reduce_sinusoid("data set 1", frame_rate, n_frames, k0=45, seed=1)
omega *= 2 * numpy.pi          # plot against angular frequency
omega[0] = 0.5 * omega[1]      # no zero on a logarithmic axis

# other settings in between
reduce_sinusoid("other settings", 500, 256, k0=20, seed=2)

# second data set, same settings: the axis is requested from the library again
reduce_sinusoid("data set 2", frame_rate, n_frames, k0=72, seed=3)
# same settings given as an int frame rate
check_axis("data set 2 (int frame rate)", 150, n_frames)

if failures:
    print("C19 VIOLATED:")
    for f in failures:
        print("  " + f)
    sys.exit(1)
print("C19 holds on all cases")
sys.exit(0)
