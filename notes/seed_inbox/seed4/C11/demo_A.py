"""
C11 demo A: propagators agree with each other and with the analytic
Gaussian beam, for every magnification -- also one that is only slightly
different from 1 on a micrometre-scale grid.

A Gaussian beam (waist 20 um, wavelength 1 um) sampled at 2 um is propagated
one Rayleigh range with the angular-spectrum propagator onto output grids
whose spacing differs from the input spacing by a few nanometres up to a
factor of two.  On every output grid the result has to
  (1) equal the analytic Gaussian beam sampled on THAT grid (up to the
      constant phase the property allows),
  (2) equal what twoStepFresnel returns for the same pair of grids, and
  (3) have the analytic 1/e^2 width when measured in units of the output spacing.
"""
import sys
import numpy
from aotools import opticalpropagation as op

N = 256
wvl = 1e-6
d1 = 2e-6
w0 = 20e-6
zR = numpy.pi * w0 ** 2 / wvl
z = zR
k = 2 * numpy.pi / wvl


def gaussian(d, dist):
    """Paraxial Gaussian beam (carrier exp(ikz) dropped) on an N x N grid of spacing d."""
    x = (numpy.arange(N) - N // 2) * d
    X, Y = numpy.meshgrid(x, x)
    q0 = -1j * zR
    q = dist - 1j * zR
    return (q0 / q) * numpy.exp(1j * k * (X ** 2 + Y ** 2) / (2 * q))


def drop_constant_phase(U, ref):
    c = numpy.vdot(ref, U)
    return U * numpy.conj(c) / abs(c)


def second_moment_width(U, d):
    """1/e^2 intensity radius from the second moment of |U|^2."""
    x = (numpy.arange(N) - N // 2) * d
    X, Y = numpy.meshgrid(x, x)
    I = abs(U) ** 2
    return numpy.sqrt(2 * (I * (X ** 2 + Y ** 2)).sum() / I.sum())


U0 = gaussian(d1, 0.0)
w_z = w0 * numpy.sqrt(1 + (z / zR) ** 2)

failures = []
TOL = 1e-7
for d2 in (d1, d1 + 2e-9, d1 + 8e-9, d1 - 8e-9, d1 * 1.05, d1 * 2.0):
    ref = gaussian(d2, z)
    scale = abs(ref).max()
    out_as = op.angularSpectrum(U0, wvl, d1, d2, z)
    out_two = op.twoStepFresnel(U0, wvl, d1, d2, z)

    e_ref = abs(drop_constant_phase(out_as, ref) - ref).max() / scale
    e_two = abs(drop_constant_phase(out_as, out_two) - out_two).max() / scale
    e_w = abs(second_moment_width(out_as, d2) - w_z) / w_z
    line = ("d2 = d1*(%.6f): |AS - analytic| = %.2e  |AS - twoStep| = %.2e  "
            "width error = %.2e" % (d2 / d1, e_ref, e_two, e_w))
    print(line)
    if e_ref > TOL or e_two > TOL or e_w > TOL:
        failures.append(line)

if failures:
    print("\nFAIL: angularSpectrum does not return the Fresnel field on the requested output grid:")
    for f in failures:
        print("   " + f)
    sys.exit(1)
print("OK")
sys.exit(0)
