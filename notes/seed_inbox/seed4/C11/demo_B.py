"""
C11 demo B: the focal-plane field of a circular aperture is the Airy pattern,
and lensAgainst evaluates the same Fresnel integral as oneStepFresnel.

The aperture is the pupil mask exactly as aotools.circle returns it (a plain
real-valued float array: a uniformly lit, flat-phase pupil) and, for
comparison, the same field stored as complex numbers.  For each of them
  (1) |lensAgainst|^2 has to be the Airy pattern  (A/(wvl f))^2 (2 J1(v)/v)^2,
  (2) the energy in the focal plane has to equal the energy in the pupil, and
  (3) lensAgainst(U, f) has to equal oneStepFresnel(U * thin-lens phase, z=f),
      which lands on the very same grid.
"""
import sys
import warnings
import numpy
from scipy.special import j1
import aotools
from aotools import opticalpropagation as op

wvl = 500e-9
d1 = 1e-3
f = 10.0
k = 2 * numpy.pi / wvl

failures = []
for N, R in ((256, 32), (255, 30)):
    mask = aotools.circle(R, N)                  # float64 pupil mask
    x1 = (numpy.arange(N) - N // 2) * d1
    X1, Y1 = numpy.meshgrid(x1, x1)
    lens = numpy.exp(-1j * k / (2 * f) * (X1 ** 2 + Y1 ** 2))

    d2 = wvl * f / (N * d1)
    # centre of the mask (circle() centres even grids between two samples:
    # that only tilts the focal-plane phase, the intensity stays the Airy pattern)
    x2 = (numpy.arange(N) - N // 2) * d2
    X2, Y2 = numpy.meshgrid(x2, x2)
    v = 2 * numpy.pi * (R * d1) * numpy.sqrt(X2 ** 2 + Y2 ** 2) / (wvl * f)
    v[v == 0] = 1e-12
    area = mask.sum() * d1 ** 2
    airy = (area / (wvl * f)) ** 2 * (2 * j1(v) / v) ** 2

    ref_onestep = op.oneStepFresnel(mask * lens, wvl, d1, f)

    for label, U in (("complex128 pupil", mask.astype(complex)),
                     ("float64 pupil (as returned by aotools.circle)", mask)):
        with warnings.catch_warnings():
            warnings.simplefilter("ignore")
            out = op.lensAgainst(U, wvl, d1, f)
        I = abs(out) ** 2
        e_airy = abs(I - airy).max() / airy.max()
        e_energy = abs(I.sum() * d2 ** 2 - (abs(mask) ** 2).sum() * d1 ** 2) / ((abs(mask) ** 2).sum() * d1 ** 2)
        e_one = abs(out - ref_onestep).max() / abs(ref_onestep).max()
        line = ("N=%d %-46s Airy error %.2e  energy error %.2e  |lensAgainst - oneStepFresnel| %.2e"
                % (N, label, e_airy, e_energy, e_one))
        print(line)
        # a pixellated disc reproduces the ideal Airy pattern to about a per cent of the peak
        if e_airy > 3e-2 or e_energy > 1e-9 or e_one > 1e-9:
            failures.append(line)

if failures:
    print("\nFAIL: lensAgainst does not give the focal-plane field of the aperture:")
    for l in failures:
        print("   " + l)
    sys.exit(1)
print("OK")
sys.exit(0)
