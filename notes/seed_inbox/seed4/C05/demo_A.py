"""
C05 demo A: the von Karman infinite screen must be statistically stationary.

Property clause tested: "for the von Karman variant the row recursion is stable with the theoretical
von Karman covariance as its unique stationary covariance, so ... the statistics converge to the model
and stay there however many rows are added."

Black-box Monte-Carlo: an ensemble of small von Karman screens (outer scale comparable to the screen,
where the von Karman variance is well below the Kolmogorov one) is advanced by many rows; the ensemble
variance of the exposed screen and the ensemble structure function between two pixels are compared with
the model (turb.phase_covariance) at several epochs.  Also checks the elementary clauses (shape, finite,
one-row shift) on the way.
"""
import sys
import numpy as np
from aotools.turbulence import infinitephasescreen as ips, turb

N, PX, R0, L0, NCOL = 8, 0.1, 0.2, 2.0, 2
N_SCREENS = 300
EPOCHS = (0, 100, 400, 1200)

problems = []
screens = [ips.PhaseScreenVonKarman(N, PX, R0, L0, random_seed=1000 + k, n_columns=NCOL) for k in range(N_SCREENS)]

var_model = float(turb.phase_covariance(0.0, R0, L0))
sep = (N - 1) * PX
sf_model = 2 * (var_model - float(turb.phase_covariance(sep, R0, L0)))

n_done = 0
for epoch in EPOCHS:
    while n_done < epoch:
        for s in screens:
            before = s.scrn.copy()
            after = s.add_row()
            if after.shape != (N, N) or not np.isfinite(after).all() or not np.array_equal(after[1:], before[:-1]):
                problems.append("row step broke shape/finite/shift at row %d" % n_done)
        n_done += 1
    stack = np.array([s.scrn for s in screens])          # (screens, N, N)
    var_est = (stack ** 2).mean()                        # model mean is zero
    sf_est = ((stack[:, 0, 0] - stack[:, 0, -1]) ** 2).mean()
    print("after %5d rows: ensemble variance / model = %.3f   structure fn / model = %.3f"
          % (epoch, var_est / var_model, sf_est / sf_model))
    if epoch > 0:
        if not 0.6 < var_est / var_model < 1.5:
            problems.append("after %d rows the ensemble variance is %.2f x the von Karman value (must stay ~1)"
                            % (epoch, var_est / var_model))
        if not 0.6 < sf_est / sf_model < 1.5:
            problems.append("after %d rows the structure function is %.2f x the model" % (epoch, sf_est / sf_model))

if problems:
    print("PROPERTY C05 VIOLATED:")
    for p in problems[:10]:
        print("  -", p)
    sys.exit(1)
print("ok: von Karman screen statistics stay at the model")
sys.exit(0)
