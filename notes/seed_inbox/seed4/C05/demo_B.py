"""
C05 demo B: every add_row must be an exact one-row shift, for any history and any parameters.

Property clause tested: "After any number of add-row steps the exposed screen ... equals the previous
exposed screen shifted down by exactly one row with the newly generated row at index 0; nothing else
changes."  Checked over a few hundred rows for both variants, in an ordinary regime and in a strong
turbulence / large outer scale regime (small r0, large L0: phase excursions of thousands of radians).
"""
import sys
import numpy as np
from aotools.turbulence import infinitephasescreen as ips

CASES = [
    ("VonKarman  ordinary", lambda: ips.PhaseScreenVonKarman(16, 0.1, 0.2, 25., random_seed=3), 200),
    ("Kolmogorov ordinary", lambda: ips.PhaseScreenKolmogorov(12, 0.1, 0.2, 25., random_seed=4), 200),
    ("VonKarman  strong turbulence", lambda: ips.PhaseScreenVonKarman(16, 0.25, 0.01, 500., random_seed=5), 400),
    ("Kolmogorov strong turbulence", lambda: ips.PhaseScreenKolmogorov(12, 0.25, 0.01, 500., random_seed=6), 400),
]

problems = []
for name, make, n_rows in CASES:
    s = make()
    n = s.scrn.shape[0]
    bad = 0
    peak = 0.0
    for k in range(n_rows):
        before = s.scrn.copy()
        after = s.add_row()
        peak = max(peak, float(np.abs(after).max()))
        if after.shape != (n, n) or not np.isfinite(after).all():
            problems.append("%s: bad shape / non-finite at row %d" % (name, k))
            break
        if not np.array_equal(after[1:], before[:-1]):
            bad += 1
            if bad == 1:
                problems.append("%s: add_row number %d changed the old rows (max change %.3g rad, screen peak %.3g rad)"
                                % (name, k + 1, float(np.abs(after[1:] - before[:-1]).max()), peak))
        if not np.array_equal(s.scrn, after):
            problems.append("%s: reading the screen changed it at row %d" % (name, k))
            break
    print("%-30s rows=%d  peak |phase| = %.3g rad  steps that were not a pure shift: %d" % (name, n_rows, peak, bad))

if problems:
    print("PROPERTY C05 VIOLATED:")
    for p in problems:
        print("  -", p)
    sys.exit(1)
print("ok: every step was an exact one-row shift")
sys.exit(0)
