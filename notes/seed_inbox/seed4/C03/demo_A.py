"""C03 demo A: the covariance matrix must not depend on the number of worker processes.

A turbulence profile tabulated on five layers is used, of which the system is told to use the lowest three
(n_layers = 3; the profile arrays are simply longer, just as the library's own tests hand over six guide-star
positions for three WFSs).  The matrix built with 2, 3 and 4 processes must be bit-identical to the single-process one,
also when rebuilt on the same object with the thread count toggled.
"""
import sys
import numpy
import aotools


def make(threads, n_layers, profile_len):
    n_wfs = 2
    nx = 6
    tel_diam = 4.2
    masks = [aotools.circle(nx / 2., nx)] * n_wfs
    layer_altitudes = numpy.linspace(0, 16000, profile_len)
    layer_r0s = numpy.linspace(0.3, 1.1, profile_len)
    layer_L0s = numpy.array([25.] * profile_len)
    return aotools.CovarianceMatrix(
        n_wfs, masks, tel_diam, [tel_diam / nx] * n_wfs, [90000, 0], [[8, 0], [-3, 5]], [589e-9, 700e-9],
        n_layers, layer_altitudes, layer_r0s, layer_L0s, threads)


def same(a, b):
    return a.shape == b.shape and a.dtype == b.dtype and a.tobytes() == b.tobytes()


def main():
    bad = []
    for n_layers, profile_len in [(3, 3), (3, 5), (1, 4)]:
        ref = make(1, n_layers, profile_len).make_covariance_matrix()
        for threads in (2, 3, 4):
            got = make(threads, n_layers, profile_len).make_covariance_matrix()
            if not same(ref, got):
                bad.append("n_layers=%d (profile of %d layers): %d processes differ from 1 process, max |diff| = %g "
                           "(max |ref| = %g)" % (n_layers, profile_len, threads,
                                                 abs(got.astype(float) - ref).max(), abs(ref).max()))
        # toggling on one object
        cm = make(1, n_layers, profile_len)
        seq = []
        for threads in (1, 3, 1, 2):
            cm.threads = threads
            seq.append((threads, cm.make_covariance_matrix().copy()))
        for threads, mat in seq:
            if not same(ref, mat):
                bad.append("n_layers=%d (profile of %d layers): rebuild with threads=%d on a re-used object differs"
                           % (n_layers, profile_len, threads))
    if bad:
        print("C03 VIOLATED:")
        for line in bad:
            print("  " + line)
        return 1
    print("ok: matrices bit-identical for 1..4 processes and across rebuilds")
    return 0


if __name__ == "__main__":
    sys.exit(main())
