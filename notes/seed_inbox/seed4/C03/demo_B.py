"""C03 demo B: the covariance matrix must not depend on the number of worker processes.

Two WFSs with the same number of active sub-apertures and the same sub-aperture size, but with a different dead
sub-aperture each (so the layouts differ), looking through a profile whose first layer is at the ground.
The matrix built with 2..4 processes must be bit-identical to the single-process one; identical WFS layouts and a
profile without a ground layer are checked as well.
"""
import sys
import numpy
import aotools


def make(threads, masks, layer_altitudes, gs_altitudes):
    n_wfs = len(masks)
    nx = masks[0].shape[0]
    tel_diam = 4.2
    n_layers = len(layer_altitudes)
    return aotools.CovarianceMatrix(
        n_wfs, masks, tel_diam, [tel_diam / nx] * n_wfs, gs_altitudes, [[8, 0], [-3, 5], [0, -6]][:n_wfs],
        [600e-9] * n_wfs, n_layers, numpy.array(layer_altitudes, dtype=float),
        numpy.linspace(0.2, 0.6, n_layers), numpy.array([30.] * n_layers), threads)


def same(a, b):
    return a.shape == b.shape and a.dtype == b.dtype and a.tobytes() == b.tobytes()


def main():
    nx = 6
    full = aotools.circle(nx / 2., nx)
    dead_a = full.copy(); dead_a[1, 2] = 0        # one dead sub-aperture ...
    dead_b = full.copy(); dead_b[4, 3] = 0        # ... a different one on the second WFS
    assert dead_a.sum() == dead_b.sum()

    cases = [
        ("identical layouts, ground layer", [full, full], [0., 4000., 11000.], [0, 0]),
        ("different dead sub-aperture, no ground layer", [dead_a, dead_b], [150., 4000., 11000.], [0, 0]),
        ("different dead sub-aperture, ground layer", [dead_a, dead_b], [0., 4000., 11000.], [0, 0]),
        ("different dead sub-aperture, ground layer, LGS + NGS + NGS", [dead_a, dead_b, full], [0., 9000.],
         [90000, 0, 0]),
    ]
    bad = []
    for name, masks, alts, gs_alts in cases:
        ref = make(1, masks, alts, gs_alts).make_covariance_matrix()
        for threads in (2, 3, 4):
            got = make(threads, masks, alts, gs_alts).make_covariance_matrix()
            if not same(ref, got):
                bad.append("%s: %d processes differ from 1 process, max |diff| = %g (max |ref| = %g)"
                           % (name, threads, abs(got.astype(float) - ref).max(), abs(ref).max()))
        cm = make(2, masks, alts, gs_alts)
        for threads in (2, 1, 4, 1):
            cm.threads = threads
            if not same(ref, cm.make_covariance_matrix()):
                bad.append("%s: rebuild with threads=%d on a re-used object differs" % (name, threads))
    if bad:
        print("C03 VIOLATED:")
        for line in bad:
            print("  " + line)
        return 1
    print("ok: matrices bit-identical for 1..4 processes and across rebuilds")
    return 0


if __name__ == "__main__":
    sys.exit(main())
