"""
C07, clause "for fixed draws the amplitude of the screen scales exactly as r0^(-5/6)".

The draws of a screen are fixed by its `seed`.  For every seed the screen generated with r0 = a
must be the screen generated with r0 = b times (a/b)^(-5/6), to rounding error, for the plain and
for the sub-harmonic screen, and generating the same screen twice must give the same screen.
All integer seeds are checked alike, the smallest legal one (0) included.
"""
import sys
import numpy
from aotools.turbulence import phasescreen

N, delta, L0, l0 = 32, 0.05, 20., 0.01
r0_a, r0_b = 0.10, 0.25
factor = (r0_a / r0_b) ** (-5. / 6)

bad = []
for name in ("ft_phase_screen", "ft_sh_phase_screen"):
    screen = getattr(phasescreen, name)
    for seed in (0, 1, 2, 7, 12345, 2**32 - 1):
        a = screen(r0_a, N, delta, L0, l0, seed=seed)
        b = screen(r0_b, N, delta, L0, l0, seed=seed)
        a2 = screen(r0_a, N, delta, L0, l0, seed=seed)
        scale = numpy.abs(a).max()
        err_scaling = numpy.abs(a - factor * b).max() / scale
        err_repeat = numpy.abs(a - a2).max() / scale
        if not (err_scaling < 1e-12 and err_repeat == 0):
            bad.append("%s seed=%r: |scr(r0=%.2f) - (%.2f/%.2f)^(-5/6) scr(r0=%.2f)| / max = %.3g, "
                       "same call repeated differs by %.3g"
                       % (name, seed, r0_a, r0_a, r0_b, r0_b, err_scaling, err_repeat))

if bad:
    print("C07 VIOLATED: with the draws fixed by the seed the screen is not proportional to r0^(-5/6):")
    for line in bad:
        print("  " + line)
    sys.exit(1)
print("C07 ok: r0^(-5/6) scaling exact for all fixed seeds")
sys.exit(0)
