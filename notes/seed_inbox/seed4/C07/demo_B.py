"""
C07: an FFT phase screen is a linear function of its own Gaussian draws, and over the ensemble of draws it
has zero mean and the position-independent variance  sum_f PSD(f) del_f^2  (zero frequency removed).

The screens are generated the way a simulation generates many of them: with the optional `FFT` argument,
one planned inverse transform that is reused for every screen.  Like pyfftw.FFTW (and Soapy's AOFFT) the
plan owns its output array and hands that same array back on every call.  Each screen of the ensemble
must (still) be the screen of its own draws, and the ensemble must have the von Karman variance.
"""
import sys
import numpy
from aotools.turbulence import phasescreen


class PlannedInverseFFT2(object):
    """Inverse 2-d FFT with a pre-allocated output array, normalised like numpy.fft.ifft2."""
    def __init__(self, N):
        self.output_array = numpy.empty((N, N), dtype=complex)

    def __call__(self, input_array):
        self.output_array[...] = numpy.fft.ifft2(input_array)
        return self.output_array


N, delta, r0, L0, l0 = 16, 0.1, 0.15, 10., 0.01
K = 400

# exact ensemble variance of one pixel: the discrete sum of the modified von Karman spectrum
del_f = 1. / (N * delta)
fx = numpy.arange(-N / 2., N / 2.) * del_f
f = numpy.hypot(*numpy.meshgrid(fx, fx))
fm = 5.92 / l0 / (2 * numpy.pi)
psd = 0.023 * r0 ** (-5. / 3) * numpy.exp(-(f / fm) ** 2) * (f ** 2 + 1. / L0 ** 2) ** (-11. / 6)
psd[f == 0] = 0
var_exact = (psd * del_f ** 2).sum()

plan = PlannedInverseFFT2(N)
ensemble = [phasescreen.ft_phase_screen(r0, N, delta, L0, l0, FFT=plan, seed=k) for k in range(K)]

problems = []

# every member is the (linear) image of its own draws: the same draws without the plan give the same screen
worst = 0.
for k in (0, 1, K // 2, K - 2, K - 1):
    ref = phasescreen.ft_phase_screen(r0, N, delta, L0, l0, seed=k)
    worst = max(worst, numpy.abs(ensemble[k] - ref).max() / numpy.abs(ref).max())
if not worst < 1e-10:
    problems.append("a screen of the ensemble is not the screen of its own draws any more "
                    "(relative deviation %.3g from the screen generated with the same seed)" % worst)

stack = numpy.array(ensemble)
var_sample = (stack ** 2).mean(axis=0)          # zero-mean ensemble: second moment per pixel
mean_sample = stack.mean(axis=0)
ratio = var_sample / var_exact
# K = 400 samples: relative standard error sqrt(2/K) = 7 %; +-45 % is more than six sigma
if not (ratio.min() > 0.55 and ratio.max() < 1.45):
    problems.append("ensemble variance per pixel / exact von Karman variance ranges over [%.3g, %.3g], "
                    "expected 1 everywhere" % (ratio.min(), ratio.max()))
if not numpy.abs(mean_sample).max() < 0.4 * numpy.sqrt(var_exact):
    problems.append("ensemble mean %.3g is not zero (sigma = %.3g)"
                    % (numpy.abs(mean_sample).max(), numpy.sqrt(var_exact)))
distinct = len(set(s.tobytes() for s in ensemble))
if distinct != K:
    problems.append("%d different seeds gave only %d different screens" % (K, distinct))

if problems:
    print("C07 VIOLATED for an ensemble generated with a re-used FFT plan:")
    for p in problems:
        print("  " + p)
    sys.exit(1)
print("C07 ok: ensemble of %d screens, variance ratio in [%.3f, %.3f]" % (K, ratio.min(), ratio.max()))
sys.exit(0)
