"""
C17 demo A: single-layer isoplanatic angle / coherence time reduce to 0.314 r0/h and 0.314 r0/v,
and the axis argument equals looping over profiles -- checked through every public entry point of
the converters (aotools.X, aotools.turbulence.X, aotools.turbulence.atmos_conversions.X).
"""
import sys
import numpy

import aotools
from aotools import turbulence
from aotools.turbulence import atmos_conversions

RAD2ASEC = 180. * 3600. / numpy.pi
failures = []


def rel(a, b):
    return abs(a - b) / abs(b)


entry_points = {
    "aotools": aotools,
    "aotools.turbulence": turbulence,
    "aotools.turbulence.atmos_conversions": atmos_conversions,
}

rng = numpy.random.RandomState(17)

for name, ns in entry_points.items():
    # --- single layer: theta0 = 0.314 r0 / h, tau0 = 0.314 r0 / v (rounding of the published constants)
    for lamda in (500e-9, 800e-9, 1.65e-6, 2.2e-6):
        for cn2_val, h_val, v_val in ((5e-13, 10000., 10.), (1e-13, 4000., 25.), (2e-12, 500., 7.5)):
            cn2 = numpy.array([cn2_val])
            h = numpy.array([h_val])
            v = numpy.array([v_val])
            r0 = ns.cn2_to_r0(cn2_val, lamda)

            theta0 = ns.isoplanaticAngle(cn2, h, lamda)
            expect = 0.314 * r0 / h_val * RAD2ASEC
            if not rel(theta0, expect) < 2e-3:
                failures.append("%s.isoplanaticAngle single layer cn2=%g h=%g lamda=%g: got %r arcsec, "
                                "0.314*r0/h = %r arcsec" % (name, cn2_val, h_val, lamda, theta0, expect))

            tau0 = ns.coherenceTime(cn2, v, lamda)
            expect = 0.314 * r0 / v_val
            if not rel(tau0, expect) < 2e-3:
                failures.append("%s.coherenceTime single layer cn2=%g v=%g lamda=%g: got %r s, "
                                "0.314*r0/v = %r s" % (name, cn2_val, v_val, lamda, tau0, expect))

    # --- stacked profiles: integrating along the last axis == looping over the profiles
    cn2 = 10 ** rng.uniform(-15, -13, size=(4, 6))
    h = numpy.sort(rng.uniform(100., 20000., size=(4, 6)), axis=-1)
    v = rng.uniform(3., 40., size=(4, 6))
    try:
        stacked_iso = ns.isoplanaticAngle(cn2, h)
        looped_iso = numpy.array([ns.isoplanaticAngle(cn2[i], h[i]) for i in range(4)])
        if numpy.shape(stacked_iso) != (4,) or not numpy.allclose(stacked_iso, looped_iso, rtol=1e-12):
            failures.append("%s.isoplanaticAngle stacked != looped: %r vs %r" % (name, stacked_iso, looped_iso))
        ref_iso = numpy.array([atmos_conversions.isoplanaticAngle(cn2[i], h[i]) for i in range(4)])
        if not numpy.allclose(looped_iso, ref_iso, rtol=1e-12):
            failures.append("%s.isoplanaticAngle disagrees with atmos_conversions.isoplanaticAngle: %r vs %r"
                            % (name, looped_iso, ref_iso))
        stacked_tau = ns.coherenceTime(cn2, v)
        looped_tau = numpy.array([ns.coherenceTime(cn2[i], v[i]) for i in range(4)])
        if numpy.shape(stacked_tau) != (4,) or not numpy.allclose(stacked_tau, looped_tau, rtol=1e-12):
            failures.append("%s.coherenceTime stacked != looped: %r vs %r" % (name, stacked_tau, looped_tau))
    except Exception as exc:  # an entry point that cannot integrate a stack at all also breaks the property
        failures.append("%s: stacked profiles raised %s: %s" % (name, type(exc).__name__, exc))

if failures:
    print("C17 VIOLATED (%d failures)" % len(failures))
    for f in failures[:12]:
        print("  " + f)
    sys.exit(1)
print("C17 holds on every entry point")
sys.exit(0)
