"""
C17 demo B: slope variance <-> r0 is an exact inverse pair.

slope_variance_from_r0(r0, wvl, d) gives the VARIANCE of the slopes; r0_from_slopes must return r0 for
any slope record whose per-sub-aperture variance is that value -- in particular for slopes that sit on
a static offset (reference slopes not subtracted, static aberrations), since a variance does not depend
on the mean.
"""
import sys
import numpy

from aotools.turbulence import atmos_conversions as ac

failures = []
rng = numpy.random.RandomState(1717)

n_subaps, n_frames = 12, 64

for r0 in (0.05, 0.15, 0.4):
    for wavelength in (500e-9, 1.65e-6):
        for subap_diam in (0.2, 0.5):
            var = ac.slope_variance_from_r0(r0, wavelength, subap_diam)
            sigma = numpy.sqrt(var)

            # +-sigma pattern, shuffled per row: mean exactly 0, population variance exactly sigma^2
            pattern = numpy.empty((2, n_subaps, n_frames))
            base = numpy.tile([1., -1.], n_frames // 2)
            for d in range(2):
                for s in range(n_subaps):
                    pattern[d, s] = rng.permutation(base)
            zero_mean = sigma * pattern

            got = ac.r0_from_slopes(zero_mean, wavelength, subap_diam)
            if not abs(got - r0) / r0 < 1e-9:
                failures.append("zero-mean slopes: r0=%g wvl=%g d=%g -> r0_from_slopes = %r"
                                % (r0, wavelength, subap_diam, got))

            # the same record on a static offset per sub-aperture (0.5 .. 3 sigma): same variance, same r0
            for scale in (0.5, 3.0):
                offsets = scale * sigma * rng.uniform(-1., 1., size=(2, n_subaps, 1))
                shifted = zero_mean + offsets
                v_back = shifted.var(axis=-1)
                assert numpy.allclose(v_back, var, rtol=1e-9), "demo construction error"
                got = ac.r0_from_slopes(shifted, wavelength, subap_diam)
                if not abs(got - r0) / r0 < 1e-6:
                    failures.append("slopes of variance slope_variance_from_r0(r0=%g, wvl=%g, d=%g) on a static "
                                    "offset of up to %g sigma: r0_from_slopes = %r (rel. error %.3g)"
                                    % (r0, wavelength, subap_diam, scale, got, abs(got - r0) / r0))

if failures:
    print("C17 VIOLATED (%d failures)" % len(failures))
    for f in failures[:10]:
        print("  " + f)
    sys.exit(1)
print("C17 holds: r0_from_slopes inverts slope_variance_from_r0 with and without static offsets")
sys.exit(0)
