"""
C04 demo B: a new row of an infinite phase screen must be X = A Z + B b for EVERY stencil content Z and EVERY
innovation vector b that the unit-normal generator delivers (for the Fried variant: A (Z - ref) + B b + ref), with
A and B obeying the conditional von Karman identities.

Part 1 checks A and B against the theoretical covariance.
Part 2 hands the screens chosen innovation vectors (ordinary ones and ones with a 6-sigma component) through a
        stand-in for the random generator and compares the new row with A Z + B b.
Part 3 runs seeded screens with the real generator, only recording what the generator delivers, and compares every
        extruded row with A Z + B b.  (With seed 1292 the 34th row of the 8 pixel wide screen gets a 5.04-sigma deviate.)
Exits 0 if everything agrees, 1 otherwise.
"""
import sys
import warnings

import numpy
from scipy.special import gamma, kv

warnings.filterwarnings("ignore")
from aotools.turbulence import infinitephasescreen as ips


def vk_covariance(r, r0, L0):
    r = numpy.asarray(r, dtype=float)
    x = 2 * numpy.pi * r / L0
    limit = gamma(5. / 6) / 2 ** (1. / 6)
    safe = numpy.where(x > 0, x, 1.)
    shape = numpy.where(x > 0, safe ** (5. / 6) * kv(5. / 6, safe), limit)
    const = 2 ** (-5. / 6) * gamma(11. / 6) / numpy.pi ** (8. / 3) * (24. / 5 * gamma(6. / 5)) ** (5. / 6)
    return (L0 / r0) ** (5. / 3) * const * shape


def matrices_ok(scrn):
    nx = scrn.nx_size
    x_coords = numpy.stack([numpy.full(nx, -1.), numpy.arange(nx, dtype=float)], axis=1)
    pos = numpy.vstack([numpy.asarray(scrn.stencil_coords, dtype=float), x_coords]) * float(scrn.pixel_scale)
    sep = numpy.sqrt(((pos[:, None, :] - pos[None, :, :]) ** 2).sum(axis=2))
    cov = vk_covariance(sep, scrn.r0, scrn.L0)
    n = len(scrn.stencil_coords)
    A, B = scrn.A_mat, scrn.B_mat
    scale = cov[0, 0]
    r1 = numpy.abs(A.dot(cov[:n, :n]) - cov[n:, :n]).max() / scale
    r2 = numpy.abs(A.dot(cov[:n, :n]).dot(A.T) + B.dot(B.T) - cov[n:, n:]).max() / scale
    return max(r1, r2) < 1e-8, max(r1, r2)


class Generator(object):
    """Stands in for the screen's numpy Generator.  Either replays prescribed vectors or passes the calls on to the
    real generator; in both cases it remembers what it delivered."""
    def __init__(self, real=None, replay=None):
        self.real = real
        self.replay = list(replay) if replay is not None else None
        self.delivered = []

    def normal(self, *args, **kwargs):
        if self.replay is not None:
            out = numpy.array(self.replay.pop(0), dtype=float)
        else:
            out = self.real.normal(*args, **kwargs)
        self.delivered.append(numpy.array(out, dtype=float))
        return out

    def __getattr__(self, name):            # anything else goes to the real generator
        return getattr(self.real, name)


def expected_row(scrn, screen_before, b):
    z = screen_before[(scrn.stencil_coords[:, 0], scrn.stencil_coords[:, 1])]
    if isinstance(scrn, ips.PhaseScreenKolmogorov):
        ref = screen_before[scrn.reference_coord]
        return scrn.A_mat.dot(z - ref) + scrn.B_mat.dot(b) + ref
    return scrn.A_mat.dot(z) + scrn.B_mat.dot(b)


failures = []

screens = [
    ("VonKarman nx=8 n_columns=2 seed=1292", lambda: ips.PhaseScreenVonKarman(8, 0.1, 0.2, 20, random_seed=1292, n_columns=2), 60),
    ("VonKarman nx=8 n_columns=3 seed=7   ", lambda: ips.PhaseScreenVonKarman(8, 0.1, 0.2, 20, random_seed=7, n_columns=3), 60),
    ("Fried     nx=6 factor=2    seed=3   ", lambda: ips.PhaseScreenKolmogorov(6, 0.1, 0.2, 20, random_seed=3, stencil_length_factor=2), 60),
]

for name, build, n_rows in screens:
    # ---- part 1: A and B are the conditional von Karman matrices
    scrn = build()
    ok, res = matrices_ok(scrn)
    print("%s : A/B identities, residual %.1e of the phase variance  %s" % (name, res, "ok" if ok else "VIOLATED"))
    if not ok:
        failures.append("%s: A/B identities" % name)

    # ---- part 2: chosen innovation vectors
    nx = scrn.nx_size
    pick = numpy.random.default_rng(11)
    vectors = [pick.normal(size=nx), numpy.zeros(nx), 2.5 * numpy.ones(nx)]
    v = numpy.zeros(nx); v[2] = 6.
    vectors.append(v)
    v = pick.normal(size=nx); v[nx - 1] = -6.5
    vectors.append(v)
    worst = 0.
    for b in vectors:
        scrn._R = Generator(replay=[b])
        before = numpy.array(scrn._scrn, dtype=float)
        row = numpy.asarray(scrn.get_new_row()).ravel()
        err = numpy.abs(row - expected_row(scrn, before, b)).max()
        worst = max(worst, err)
        if err > 1e-9:
            failures.append("%s: innovation vector with max |b| = %.2f gives a row %.3g rad away from A Z + B b"
                            % (name, numpy.abs(b).max(), err))
    print("%s : chosen innovation vectors, worst |row - (A Z + B b)| = %.2e rad" % (name, worst))

    # ---- part 3: seeded run with the real generator, recorded
    scrn = build()
    recorder = Generator(real=scrn._R)
    scrn._R = recorder
    worst, worst_row, biggest = 0., None, 0.
    for k in range(n_rows):
        before = numpy.array(scrn._scrn, dtype=float)
        n_before = len(recorder.delivered)
        scrn.add_row()
        if len(recorder.delivered) != n_before + 1:
            failures.append("%s: row %d drew %d vectors from the generator" % (name, k, len(recorder.delivered) - n_before))
            break
        b = recorder.delivered[-1].ravel()
        biggest = max(biggest, numpy.abs(b).max())
        err = numpy.abs(numpy.asarray(scrn._scrn[0]) - expected_row(scrn, before, b)).max()
        if err > worst:
            worst, worst_row = err, k
    print("%s : %d seeded rows (largest deviate %.2f sigma), worst |row - (A Z + B b)| = %.2e rad at row %s"
          % (name, n_rows, biggest, worst, worst_row))
    if worst > 1e-9:
        failures.append("%s: seeded run, row %d is %.3g rad away from A Z + B b with the unit-normal vector the generator delivered"
                        % (name, worst_row, worst))

if failures:
    print("FAIL:")
    for f in failures:
        print("  " + f)
    sys.exit(1)
print("every new row equals A Z + B b")
sys.exit(0)
