"""
C04 demo A: the A and B matrices of the infinite phase screens must satisfy

    A Cov(Z,Z) = Cov(X,Z)     and     A Cov(Z,Z) A^T + B B^T = Cov(X,X)

with the theoretical von Karman covariance at the true pixel separations, for every pixel scale and L0 for which
the screen can be built -- here also for an outer scale that is 7000 ... 10000 pixels long (1 cm pixels, L0 = 70 - 100 m).
As a consequence the predicted structure function between the new row and the row next to it must be the von Karman
structure function at one pixel.  Exits 0 if all of that holds, 1 otherwise.
"""
import sys
import warnings

import numpy
from scipy.special import gamma, kv

warnings.filterwarnings("ignore")
from aotools.turbulence import infinitephasescreen as ips


def vk_covariance(r, r0, L0):
    """von Karman phase covariance (Assemat & Wilson 2006, eq. 5), written independently of the library."""
    r = numpy.asarray(r, dtype=float)
    x = 2 * numpy.pi * r / L0
    limit = gamma(5. / 6) / 2 ** (1. / 6)          # x^(5/6) K_5/6(x) for x -> 0
    safe = numpy.where(x > 0, x, 1.)
    shape = numpy.where(x > 0, safe ** (5. / 6) * kv(5. / 6, safe), limit)
    const = 2 ** (-5. / 6) * gamma(11. / 6) / numpy.pi ** (8. / 3) * (24. / 5 * gamma(6. / 5)) ** (5. / 6)
    return (L0 / r0) ** (5. / 3) * const * shape


def residuals(scrn):
    # true geometry: stencil pixel (i, j) sits at (i, j) * pixel_scale, the new row at row -1
    nx = scrn.nx_size
    x_coords = numpy.stack([numpy.full(nx, -1.), numpy.arange(nx, dtype=float)], axis=1)
    pos = numpy.vstack([numpy.asarray(scrn.stencil_coords, dtype=float), x_coords]) * float(scrn.pixel_scale)
    sep = numpy.sqrt(((pos[:, None, :] - pos[None, :, :]) ** 2).sum(axis=2))
    cov = vk_covariance(sep, scrn.r0, scrn.L0)
    n = len(scrn.stencil_coords)
    c_zz, c_xz, c_xx = cov[:n, :n], cov[n:, :n], cov[n:, n:]
    A, B = scrn.A_mat, scrn.B_mat

    # everything is measured against the structure function at one pixel, the natural size of pixel-to-pixel phase
    d_pix = 2 * (vk_covariance(0., scrn.r0, scrn.L0) - vk_covariance(scrn.pixel_scale, scrn.r0, scrn.L0))

    res_a = numpy.abs(A.dot(c_zz) - c_xz).max() / d_pix
    res_b = numpy.abs(A.dot(c_zz).dot(A.T) + B.dot(B.T) - c_xx).max() / d_pix

    # predicted <(X_j - Z_(0,j))^2>: new row against the old row right below it
    coords = [tuple(c) for c in numpy.asarray(scrn.stencil_coords).tolist()]
    worst = 0.
    for j in range(nx):
        if (0, j) not in coords:
            continue
        a = A[j].copy()
        a[coords.index((0, j))] -= 1.
        d_pred = a.dot(c_zz).dot(a) + B[j].dot(B[j])
        worst = max(worst, abs(d_pred / d_pix - 1.))
    return res_a, res_b, worst


cases = [
    ("VonKarman nx=16 pixel=0.0625 r0=0.2  L0=50  n_columns=2", lambda: ips.PhaseScreenVonKarman(16, 0.0625, 0.2, 50, n_columns=2)),
    ("VonKarman nx=17 pixel=0.01   r0=0.1  L0=100 n_columns=2", lambda: ips.PhaseScreenVonKarman(17, 0.01, 0.1, 100, n_columns=2)),
    ("VonKarman nx=9  pixel=0.005  r0=0.1  L0=40  n_columns=3", lambda: ips.PhaseScreenVonKarman(9, 0.005, 0.1, 40, n_columns=3)),
    ("VonKarman nx=12 pixel=0.01   r0=0.15 L0=70  n_columns=1", lambda: ips.PhaseScreenVonKarman(12, 0.01, 0.15, 70, n_columns=1)),
    ("Fried     nx=12 pixel=0.01   r0=0.1  L0=100 factor=2   ", lambda: ips.PhaseScreenKolmogorov(12, 0.01, 0.1, 100, stencil_length_factor=2)),
    ("Fried     nx=9  pixel=0.01   r0=0.1  L0=80  factor=1   ", lambda: ips.PhaseScreenKolmogorov(9, 0.01, 0.1, 80, stencil_length_factor=1)),
]

TOL = 2e-3      # of the one-pixel structure function (an unmodified tree is at a few 1e-5 here)
bad = 0
for name, build in cases:
    try:
        scrn = build()
    except Exception as exc:        # construction failed: outside the domain of the property
        print("%s : cannot be built (%s) - skipped" % (name, type(exc).__name__))
        continue
    res_a, res_b, res_d = residuals(scrn)
    ok = max(res_a, res_b, res_d) < TOL
    print("%s : |A Czz - Cxz| = %.2e  |A Czz A^T + B B^T - Cxx| = %.2e  |D_pred/D_vK - 1| = %.2e  (units of D(1 pixel))  %s"
          % (name, res_a, res_b, res_d, "ok" if ok else "VIOLATED"))
    bad += not ok

if bad:
    print("FAIL: %d configuration(s): new rows do not follow the conditional von Karman law" % bad)
    sys.exit(1)
print("all configurations follow the conditional von Karman law")
sys.exit(0)
