"""
C08 demo B: the phase power spectrum used to GENERATE screens describes the same von Karman model
as the closed-form statistics.

Sub-harmonic FFT screens (ft_sh_phase_screen) are generated for an aperture D = 3.2 m and several
outer scales, from L0 < D to L0 >> D.  The ensemble structure function of the screens (fixed seeds,
so the run is deterministic) must agree with the closed forms -- structure_function_vk(r, r0, L0)
and 2 * (C(0) - C(r)) from phase_covariance, i.e. the Hankel transform of the von Karman spectrum
0.023 r0^(-5/3) (f^2 + 1/L0^2)^(-11/6).  The sub-harmonic method is good to ~10-20 % here (finite ensemble included); the
tolerance is 30 %.
Exit 0 if it agrees for every outer scale, 1 otherwise.
"""
import sys
import numpy

from aotools.turbulence.phasescreen import ft_sh_phase_screen
from aotools.turbulence.slopecovariance import structure_function_vk
from aotools.turbulence.turb import phase_covariance

r0 = 0.2
N = 64
delta = 0.05        # D = N * delta = 3.2 m
l0 = 0.01
n_screens = 200
pix = numpy.array([4, 8, 16, 32])
TOL = 0.30

failures = 0
for L0 in (1.0, 3.2, 20., 100.):
    acc = numpy.zeros(len(pix))
    for s in range(n_screens):
        phs = ft_sh_phase_screen(r0, N, delta, L0, l0, seed=5000 + s)
        for k, d in enumerate(pix):
            acc[k] += 0.5 * (numpy.mean((phs[:, d:] - phs[:, :-d]) ** 2)
                             + numpy.mean((phs[d:, :] - phs[:-d, :]) ** 2))
    measured = acc / n_screens
    r = pix * delta
    D_closed = structure_function_vk(r, r0, L0)
    D_from_cov = 2 * (phase_covariance(0., r0, L0) - phase_covariance(r, r0, L0))
    ratio_sf = measured / D_closed
    ratio_cov = measured / D_from_cov
    ok = (numpy.all(numpy.abs(ratio_sf - 1) < TOL) and numpy.all(numpy.abs(ratio_cov - 1) < TOL))
    print("L0 = %6.1f m (L0/D = %5.2f): screens / structure_function_vk = %s   %s"
          % (L0, L0 / (N * delta), numpy.round(ratio_sf, 3), "ok" if ok else "FAIL"))
    if not ok:
        failures += 1
        print("   separations [m]      :", r)
        print("   measured D_phi       :", numpy.round(measured, 3))
        print("   von Karman closed form:", numpy.round(D_closed, 3))

if failures:
    print("screens do not follow the von Karman structure function for %d outer scale(s)" % failures)
    sys.exit(1)
print("OK")
sys.exit(0)
