"""
C08 demo A: the von Karman structure function of a set of points, evaluated for several r0 on
ONE matrix of separations.

Property clauses checked (all on the same separations, as a caller would naturally do):
  * D(0) = 0 and D is the same function of r on every call
  * D scales as r0^(-5/3)
  * D(r) = 2 * (C(0) - C(r)) with C = phase_covariance
  * the matrix of phase covariances between the points is positive semi-definite
Exit 0 if all hold, 1 otherwise.
"""
import sys
import numpy

from aotools.turbulence.slopecovariance import structure_function_vk
from aotools.turbulence.turb import phase_covariance

failures = []


def check(ok, msg):
    if not ok:
        failures.append(msg)
        print("FAIL:", msg)


rng = numpy.random.default_rng(8)
L0 = 25.
r0 = 0.15

# an arbitrary finite point set and the (float64, C-contiguous) matrix of its mutual separations
pts = rng.uniform(-4, 4, size=(12, 2))
seps = numpy.sqrt(((pts[:, None, :] - pts[None, :, :]) ** 2).sum(-1))
numpy.fill_diagonal(seps, 0.)
seps_ref = seps.copy()

# reference values, each computed from a private copy of the separations
D_ref = structure_function_vk(seps_ref.copy(), r0, L0)

# the same separations used for a sequence of evaluations
D_a = structure_function_vk(seps, r0, L0)
D_b = structure_function_vk(seps, 2 * r0, L0)
D_c = structure_function_vk(seps, r0, L0)
cov = phase_covariance(seps, r0, L0)

check(numpy.array_equal(seps, seps_ref),
      "the caller's separations were modified: diagonal is now %r" % (numpy.diag(seps)[:3],))
check(numpy.all(numpy.diag(D_a) == 0), "D(0) != 0 on first evaluation: %r" % (numpy.diag(D_a)[:3],))
check(numpy.all(numpy.diag(D_b) == 0), "D(0) != 0 on the evaluation with 2*r0: %r" % (numpy.diag(D_b)[:3],))
check(numpy.all(numpy.diag(D_c) == 0), "D(0) != 0 on a repeated evaluation: %r" % (numpy.diag(D_c)[:3],))
check(numpy.allclose(D_c, D_a, rtol=1e-12, atol=0),
      "two evaluations with identical arguments differ (max abs diff %g)" % numpy.abs(D_c - D_a).max())
check(numpy.allclose(D_b * 2 ** (5. / 3), D_a, rtol=1e-10, atol=0),
      "D does not scale as r0^(-5/3) (max abs dev %g)" % numpy.abs(D_b * 2 ** (5. / 3) - D_a).max())
check(numpy.allclose(D_a, D_ref, rtol=1e-12, atol=0), "first evaluation differs from reference")

# D = 2 (C(0) - C(r)); the rounded constants of the two closed forms agree to 6e-4
C0 = phase_covariance(0., r0, L0)
check(numpy.allclose(2 * (C0 - cov), D_ref, rtol=2e-3, atol=0),
      "D(r) != 2 (C(0) - C(r)): max abs dev %g" % numpy.abs(2 * (C0 - cov) - D_ref).max())

# covariance matrix of the point set is positive semi-definite
w = numpy.linalg.eigvalsh(0.5 * (cov + cov.T))
check(w.min() > -1e-9 * w.max(), "phase covariance matrix not PSD: min eigenvalue %g (max %g)" % (w.min(), w.max()))

if failures:
    print("%d property violations" % len(failures))
    sys.exit(1)
print("OK")
sys.exit(0)
