"""C09 demo B: ft2/ift2 are linear, obey the shift theorem, are mutual inverses and satisfy
Parseval.  Each of these clauses relates the results of SEVERAL transforms of equally shaped
fields (ft2(x), ft2(y), ft2(a x + b y); ft2(x) and ft2(x shifted); X = ft2(x) and ift2(X)), so
every result has to stay what it was while further transforms are computed."""
import sys
import numpy
import aotools
from aotools import fouriertransform

failures = []


def check(label, ok, detail=""):
    if not ok:
        failures.append("%s %s" % (label, detail))


def relerr(a, b):
    return numpy.abs(a - b).max() / max(numpy.abs(b).max(), 1e-300)


rng = numpy.random.default_rng(99)
for ft2, ift2, where in ((aotools.ft2, aotools.ift2, "aotools"),
                         (fouriertransform.ft2, fouriertransform.ift2, "aotools.fouriertransform")):
    for N in (1, 4, 9, 16):
        for batch in ((), (3,)):
            for delta in (1.0, 0.25):
                label = "[%s N=%d batch=%s delta=%g]" % (where, N, batch, delta)
                delta_f = 1.0 / (N * delta)
                shape = batch + (N, N)
                x = rng.standard_normal(shape) + 1j * rng.standard_normal(shape)
                y = rng.standard_normal(shape) + 1j * rng.standard_normal(shape)
                a, b = 0.7 - 0.2j, -1.3 + 0.4j

                # --- linearity, forward and inverse
                X = ft2(x, delta)
                Y = ft2(y, delta)
                Z = ft2(a * x + b * y, delta)
                e = relerr(Z, a * X + b * Y)
                check(label, e < 1e-10, "ft2(a x + b y) != a ft2(x) + b ft2(y), rel. error %.3g" % e)
                p = ift2(x, delta_f)
                q = ift2(y, delta_f)
                r = ift2(a * x + b * y, delta_f)
                e = relerr(r, a * p + b * q)
                check(label, e < 1e-10, "ift2(a x + b y) != a ift2(x) + b ift2(y), rel. error %.3g" % e)

                # --- shift theorem: x moved by (ky, kx) samples <-> linear phase on the spectrum
                if N > 1:
                    ky, kx = 1, N // 2 - 1 if N > 2 else 1
                    X0 = ft2(x, delta)
                    X1 = ft2(numpy.roll(x, (ky, kx), axis=(-2, -1)), delta)
                    f = (numpy.arange(N) - N // 2) * delta_f
                    phase = numpy.exp(-2j * numpy.pi * delta * (f[:, None] * ky + f[None, :] * kx))
                    e = relerr(X1, X0 * phase)
                    check(label, e < 1e-10, "shift theorem violated, rel. error %.3g" % e)

                # --- inverse pair and Parseval, evaluated once both transforms are done
                X = ft2(x, delta)
                back = ift2(X, delta_f)
                e = relerr(back, x)
                check(label, e < 1e-10, "ift2(ft2(x)) != x, rel. error %.3g" % e)
                lhs = (numpy.abs(x) ** 2).sum(axis=(-1, -2)) * delta ** 2
                rhs = (numpy.abs(X) ** 2).sum(axis=(-1, -2)) * delta_f ** 2
                e = numpy.abs(lhs - rhs).max() / lhs.max()
                check(label, e < 1e-10, "Parseval violated, rel. difference %.3g" % e)

if failures:
    print("C09 VIOLATED: %d failures, first ones:" % len(failures))
    for f in failures[:8]:
        print("  ", f)
    sys.exit(1)
print("C09 holds: linearity, shift theorem, inverse pair and Parseval for ft2/ift2")
sys.exit(0)
