"""C09 demo A: ft/ift must be an exact inverse pair obeying Parseval for *every* real input
and every spacing delta > 0 -- including integer-typed samples (8/16-bit detector rows)
together with an integer-valued spacing (delta = 2, 3 pixels/metres given as Python ints)."""
import sys
import numpy
import aotools
from aotools import fouriertransform

failures = []


def check(label, ok, detail=""):
    if not ok:
        failures.append("%s %s" % (label, detail))


rng = numpy.random.default_rng(9)
for ft, ift, where in ((aotools.ft, aotools.ift, "aotools"),
                       (fouriertransform.ft, fouriertransform.ift, "aotools.fouriertransform")):
    for dtype in (numpy.float64, numpy.uint8, numpy.int16, numpy.int8, numpy.uint16):
        info = numpy.iinfo(dtype) if numpy.issubdtype(dtype, numpy.integer) else None
        for N in (1, 2, 7, 16, 33):
            for batch in ((), (3,), (2, 2)):
                if info is None:
                    x = rng.standard_normal(batch + (N,))
                else:
                    # full-range samples, as a camera delivers them
                    x = rng.integers(info.min, info.max, size=batch + (N,), endpoint=True).astype(dtype)
                x_exact = x.astype(numpy.float64)
                for delta in (1, 2, 3, 0.5, 7):
                    delta_f = 1.0 / (N * delta)
                    label = "[%s dtype=%s N=%d batch=%s delta=%r]" % (
                        where, numpy.dtype(dtype).name, N, batch, delta)
                    X = ft(x, delta)
                    back = ift(X, delta_f)
                    scale = max(1.0, numpy.abs(x_exact).max())
                    # inverse pair
                    err = numpy.abs(back - x_exact).max() / scale
                    check(label, err < 1e-10, "ift(ft(x)) != x, rel. error %.3g" % err)
                    # Parseval
                    lhs = (numpy.abs(x_exact) ** 2).sum() * delta
                    rhs = (numpy.abs(X) ** 2).sum() * delta_f
                    check(label, abs(lhs - rhs) <= 1e-10 * max(lhs, 1.0),
                          "Parseval: sum|x|^2 delta = %.6g but sum|X|^2 delta_f = %.6g" % (lhs, rhs))
                    # the transform is a function of the sample *values*
                    ref = ft(x_exact, float(delta))
                    err = numpy.abs(X - ref).max() / (scale * N * delta)
                    check(label, err < 1e-10,
                          "ft of the integer-typed samples differs from ft of the same values as floats "
                          "(rel. error %.3g)" % err)

if failures:
    print("C09 VIOLATED: %d failures, first ones:" % len(failures))
    for f in failures[:8]:
        print("  ", f)
    sys.exit(1)
print("C09 holds for integer-typed samples with integer spacing")
sys.exit(0)
