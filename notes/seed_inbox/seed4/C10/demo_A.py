"""C10 -- the lens-to-focal-plane propagator is linear and conserves power on
EVERY call, also when it is called repeatedly with the same optical geometry
(the normal way it is used: one lens, many frames)."""
import sys
import numpy
from aotools import opticalpropagation as op

RTOL = 1e-9
failures = []


def power(U, d):
    return float((numpy.abs(U) ** 2).sum() * d ** 2)


def field(rng, N):
    return rng.standard_normal((N, N)) + 1j * rng.standard_normal((N, N))


rng = numpy.random.default_rng(1234)

for (N, wvl, d1, f) in [(32, 633e-9, 1e-4, 0.25), (64, 1.65e-6, 2e-3, -1.5)]:
    d_out = wvl * abs(f) / (N * d1)

    # a short sequence of frames through the same lens
    for frame in range(4):
        a = field(rng, N)
        b = field(rng, N)
        alpha, beta = 0.7 - 1.9j, -2.3 + 0.4j

        a0, b0 = a.copy(), b.copy()
        Ua = op.lensAgainst(a, wvl, d1, f).copy()
        Ub = op.lensAgainst(b, wvl, d1, f).copy()
        Uab = op.lensAgainst(alpha * a + beta * b, wvl, d1, f).copy()

        if not (numpy.array_equal(a, a0) and numpy.array_equal(b, b0)):
            failures.append("N=%d f=%g frame %d: input field modified" % (N, f, frame))

        for name, Uin, Uout in (("a", a, Ua), ("b", b, Ub)):
            p_in, p_out = power(Uin, d1), power(Uout, d_out)
            if not numpy.isfinite(p_out) or abs(p_out - p_in) > RTOL * p_in:
                failures.append(
                    "N=%d f=%g frame %d field %s: power in %.12g, power out %.12g (ratio %.6g)"
                    % (N, f, frame, name, p_in, p_out, p_out / p_in))

        expect = alpha * Ua + beta * Ub
        scale = numpy.abs(expect).max()
        err = numpy.abs(Uab - expect).max() / scale
        if not numpy.isfinite(err) or err > RTOL:
            failures.append(
                "N=%d f=%g frame %d: P(alpha a + beta b) != alpha P(a) + beta P(b), rel. err %.3g"
                % (N, f, frame, err))

if failures:
    print("C10 VIOLATED (lensAgainst):")
    for line in failures[:12]:
        print("  " + line)
    if len(failures) > 12:
        print("  ... %d more" % (len(failures) - 12))
    sys.exit(1)
print("C10 holds for lensAgainst over repeated calls")
sys.exit(0)
