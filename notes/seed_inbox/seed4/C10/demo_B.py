"""C10 -- the angular-spectrum propagator conserves total power and is linear for
any distance of either sign, short or long compared with N*d1*d2/wvl, and any
magnification."""
import sys
import numpy
from aotools import opticalpropagation as op

RTOL = 1e-9
failures = []


def power(U, d):
    return float((numpy.abs(U) ** 2).sum() * d ** 2)


rng = numpy.random.default_rng(99)
N = 64
wvl = 500e-9
d1 = 1e-3
z_ref = N * d1 * d1 / wvl            # 128 m for this grid

for mag in (1.0, 0.5, 2.5):
    d2 = mag * d1
    for zfac in (0.01, 0.3, 0.999, 1.5, 4.0, 37.0):
        for sign in (+1, -1):
            z = sign * zfac * z_ref * mag
            a = rng.standard_normal((N, N)) + 1j * rng.standard_normal((N, N))
            b = rng.standard_normal((N, N)) + 1j * rng.standard_normal((N, N))
            alpha, beta = 1.3 + 0.2j, -0.6 + 2.1j

            Ua = op.angularSpectrum(a.copy(), wvl, d1, d2, z)
            Ub = op.angularSpectrum(b.copy(), wvl, d1, d2, z)
            Uab = op.angularSpectrum(alpha * a + beta * b, wvl, d1, d2, z)

            p_in, p_out = power(a, d1), power(Ua, d2)
            if not numpy.isfinite(p_out) or abs(p_out - p_in) > RTOL * p_in:
                failures.append(
                    "mag=%g z=%+.6g m (%.3g x N d1 d2/wvl): power in %.12g, out %.12g (ratio %.6g)"
                    % (mag, z, zfac, p_in, p_out, p_out / p_in))

            expect = alpha * Ua + beta * Ub
            err = numpy.abs(Uab - expect).max() / numpy.abs(expect).max()
            if not numpy.isfinite(err) or err > RTOL:
                failures.append("mag=%g z=%+.6g m: not linear, rel. err %.3g" % (mag, z, err))

if failures:
    print("C10 VIOLATED (angularSpectrum):")
    for line in failures[:12]:
        print("  " + line)
    if len(failures) > 12:
        print("  ... %d more" % (len(failures) - 12))
    sys.exit(1)
print("C10 holds for angularSpectrum at short and long range")
sys.exit(0)
