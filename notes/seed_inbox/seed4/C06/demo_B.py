"""C06: FFT screens made without a seed differ from each other, and seeded ones are bit-identical, whatever
other (seeded or unseeded) screen calls are interleaved."""
import sys

import numpy
from aotools.turbulence import ft_phase_screen, ft_sh_phase_screen

PAR = dict(r0=0.15, N=32, delta=0.05, L0=25., l0=0.01)
failures = []


def same(a, b):
    return a.shape == b.shape and a.tobytes() == b.tobytes()


for name, make in (("ft_phase_screen", ft_phase_screen), ("ft_sh_phase_screen", ft_sh_phase_screen)):
    # one "trial" of a simulation: a reference screen with a fixed seed, then a free-running one
    def trial(seed):
        reference = make(seed=seed, **PAR)
        free = make(**PAR)
        return reference, free

    ref1, free1 = trial(11)
    numpy.random.seed(1)                      # unrelated: touch NumPy's global state
    ref2, free2 = trial(11)
    ref3, free3 = trial(12)

    if not same(ref1, ref2):
        failures.append("%s: seed 11 not reproduced" % name)
    if same(ref1, ref3):
        failures.append("%s: seeds 11 and 12 gave the same screen" % name)
    if same(free1, free2):
        failures.append("%s: two calls WITHOUT seed returned the identical screen (each one came right "
                        "after a seed=11 call)" % name)
    if same(free1, free3) or same(free2, free3):
        failures.append("%s: unseeded screens identical across trials with different reference seeds" % name)

    # plain back-to-back unseeded calls
    u = [make(**PAR) for _ in range(4)]
    if any(same(u[i], u[j]) for i in range(4) for j in range(i)):
        failures.append("%s: consecutive unseeded calls repeated a screen" % name)

# mixed entry points: unseeded plain screen after a seeded sub-harmonic one and vice versa
ft_sh_phase_screen(seed=5, **PAR)
a = ft_phase_screen(**PAR)
ft_sh_phase_screen(seed=5, **PAR)
b = ft_phase_screen(**PAR)
if same(a, b):
    failures.append("unseeded ft_phase_screen repeats itself after ft_sh_phase_screen(seed=5)")

if failures:
    print("C06 VIOLATED:")
    for f in failures:
        print("  " + f)
    sys.exit(1)
print("ok: unseeded FFT screens always differ; seeded ones reproduce")
sys.exit(0)
