"""C06: a seeded infinite screen (initial screen and every added row) must be bit-identical when it is
rebuilt, no matter which other screen instances were created, used and dropped in between."""
import gc
import sys

from aotools.turbulence import infinitephasescreen as ips

SEED = 20240611
ROWS = 4


def history(nx, seed, **kw):
    """initial screen + ROWS added rows of a seeded von Karman screen, as bytes"""
    scr = ips.PhaseScreenVonKarman(nx, 0.1, 0.2, 20., random_seed=seed, **kw)
    frames = [scr.scrn.tobytes()]
    for _ in range(ROWS):
        frames.append(scr.add_row().tobytes())
    return frames


def first_difference(a, b):
    for k, (fa, fb) in enumerate(zip(a, b)):
        if fa != fb:
            return k
    return None


failures = []
for repeat in range(3):
    for nx in (8, 12, 16, 24, 32, 33, 48, 64):
        for other_cols in (3, 4, 6):
            reference = history(nx, SEED)

            # interleave: another, differently configured screen of the same size lives and dies
            other = ips.PhaseScreenVonKarman(nx, 0.1, 0.2, 20., random_seed=SEED + 1, n_columns=other_cols)
            other.add_row()
            del other
            gc.collect()

            again = history(nx, SEED)
            k = first_difference(reference, again)
            if k is not None:
                what = "initial screen" if k == 0 else "row %d" % k
                failures.append("nx=%d: seed %d rebuilt after a dropped n_columns=%d screen differs from the "
                                "first build (first difference: %s)" % (nx, SEED, other_cols, what))

    # sanity: different seeds still give different screens
    if history(16, SEED) == history(16, SEED + 1):
        failures.append("different seeds gave identical screens")

if failures:
    print("C06 VIOLATED: seeded infinite screen not reproducible / instances not isolated")
    for f in failures[:10]:
        print("  " + f)
    print("  (%d failing cases in total)" % len(failures))
    sys.exit(1)
print("ok: seeded von Karman screens reproduce bit-for-bit irrespective of interleaved instances")
sys.exit(0)
