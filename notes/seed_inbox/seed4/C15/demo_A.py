"""
C15 demo A: the correlation centroid of an image displaced by s from its reference
is displaced by s from the array centre (nx//2, ny//2), for any padding.

A compact spot is placed in the reference and, displaced by (sx, sy), in the image
(always completely inside the frame).  With padding >= 2 the FFT correlation is a
linear one, so the statement has to hold for every such displacement, small or
large; with padding == 1 (circular correlation) only displacements whose
correlation peak does not wrap round the array edge are used.
"""
import sys
import numpy
from aotools.image_processing import centroiders

TOL = 1e-8
rng = numpy.random.RandomState(1234)
failures = []
ncases = 0


def place(shape, y, x, spot):
    a = numpy.zeros(shape)
    a[y:y + spot.shape[0], x:x + spot.shape[1]] = spot
    return a


def check(shape, spot, ref_pos, shift, padding, threshold, stack):
    global ncases
    ny, nx = shape
    ry, rx = ref_pos
    sy, sx = shift
    ref = place(shape, ry, rx, spot)
    im = place(shape, ry + sy, rx + sx, spot)
    # content fully inside the frame
    assert 0 <= ry + sy and ry + sy + spot.shape[0] <= ny and 0 <= rx + sx and rx + sx + spot.shape[1] <= nx
    assert numpy.count_nonzero(im) == numpy.count_nonzero(ref) == spot.size
    if stack:
        im = numpy.array([im, ref, im])
        expect = numpy.array([[nx // 2 + sx, nx // 2, nx // 2 + sx],
                              [ny // 2 + sy, ny // 2, ny // 2 + sy]], dtype=float)
    else:
        expect = numpy.array([[nx // 2 + sx], [ny // 2 + sy]], dtype=float)
    got = centroiders.correlation_centroid(im, ref, threshold=threshold, padding=padding)
    ncases += 1
    if got.shape != expect.shape or not numpy.allclose(got, expect, rtol=0, atol=TOL):
        failures.append(
            "shape=%s padding=%d threshold=%g stack=%s ref spot at (y,x)=%s displaced by (sy,sx)=%s:\n"
            "      expected centre+s = %s\n      got                 %s"
            % (shape, padding, threshold, stack, ref_pos, shift,
               expect.T.tolist(), numpy.asarray(got).T.tolist()))


spot = rng.uniform(0.5, 2.0, size=(3, 3))

for shape in [(16, 16), (15, 15), (12, 18), (17, 11)]:
    ny, nx = shape
    for threshold in (0.0, 0.3):
        for stack in (False, True):
            # small displacements, every padding (also the circular padding == 1)
            for padding in (1, 2, 3, 4):
                for shift in [(0, 0), (1, -2), (-2, 1), (2, 2)]:
                    check(shape, spot, (ny // 2 - 1, nx // 2 - 1), shift, padding, threshold, stack)
            # large displacements: spot near one corner in the reference, near the
            # opposite corner in the image; linear correlation (padding >= 2) only
            for padding in (2, 3, 4):
                for ref_pos, shift in [((1, 1), (ny - 5, nx - 5)),
                                       ((ny - 4, nx - 4), (-(ny - 5), -(nx - 5))),
                                       ((1, nx - 4), (ny - 6, -(nx - 6))),
                                       # centre + s still inside [0, n): only the wing of the
                                       # correlation peak reaches beyond lag n/2
                                       ((1, 1), (ny // 2 - 2, nx // 2 - 2)),
                                       ((ny - 4, nx - 4), (-(ny // 2 - 1), -(nx // 2 - 1))),
                                       ((ny // 2 - 1, 1), (0, nx // 2 + 1)),
                                       ((1, nx // 2 - 1), (ny // 2 + 1, 0))]:
                    check(shape, spot, ref_pos, shift, padding, threshold, stack)

if failures:
    print("C15 VIOLATED: correlation centroid is not 'array centre + displacement' "
          "(%d of %d cases)" % (len(failures), ncases))
    for f in failures[:8]:
        print("  - " + f)
    if len(failures) > 8:
        print("  ... and %d more" % (len(failures) - 8))
    sys.exit(1)

print("OK: correlation centroid = array centre + displacement in all %d cases" % ncases)
sys.exit(0)
