"""
C15 demo B: the brightest-pixel centroid of a single bright pixel is that pixel's
(x, y) for every image size and every fraction that selects at least two pixels,
for single frames and for stacks alike.

The fraction is given the way users of the brightest-pixel algorithm choose it:
"use the k brightest of the ny*nx pixels", i.e. threshold = k / (ny*nx) with
k = 2, 3, 4, 5, plus a few ordinary decimal fractions.
"""
import sys
import numpy
from aotools.image_processing import centroiders

TOL = 1e-9
failures = []
ncases = 0


def positions(ny, nx):
    return sorted({(0, 0), (ny - 1, nx - 1), (0, nx - 1), (ny // 2, nx // 2), (ny - 1, nx // 3)})


def check(ny, nx, threshold, label):
    global ncases
    pos = positions(ny, nx)
    stack = numpy.zeros((len(pos), ny, nx))
    for i, (y, x) in enumerate(pos):
        stack[i, y, x] = (1.0, 1000.0, 0.37)[i % 3]
    expect = numpy.array([[x for (y, x) in pos], [y for (y, x) in pos]], dtype=float)

    # every frame on its own ...
    for i, (y, x) in enumerate(pos):
        got = numpy.asarray(centroiders.brightest_pixel(stack[i], threshold), dtype=float)
        ncases += 1
        if got.shape != (2,) or not numpy.allclose(got, [x, y], rtol=0, atol=TOL):
            failures.append("%dx%d (ny x nx) frame, fraction %s = %r, bright pixel at (x, y) = (%d, %d): got %s"
                            % (ny, nx, label, threshold, x, y, got.tolist()))
    # ... and the whole stack at once
    got = numpy.asarray(centroiders.brightest_pixel(stack, threshold), dtype=float)
    ncases += 1
    if got.shape != expect.shape or not numpy.allclose(got, expect, rtol=0, atol=TOL):
        failures.append("stack of %d %dx%d frames, fraction %s = %r: expected (x, y) %s, got %s"
                        % (len(pos), ny, nx, label, threshold, expect.T.tolist(), got.T.tolist()))


shapes = [(n, n) for n in range(3, 33)] + [(7, 14), (14, 7), (11, 17), (5, 7), (8, 12), (23, 11), (6, 31)]
for ny, nx in shapes:
    npix = ny * nx
    for k in (2, 3, 4, 5):
        if k < npix:
            check(ny, nx, k / npix, "%d/%d" % (k, npix))
    for t in (0.1, 0.25, 0.3, 0.5, 0.9):
        if round(t * npix) >= 2:
            check(ny, nx, t, "%g" % t)

if failures:
    print("C15 VIOLATED: brightest_pixel of a single bright pixel is not that pixel's (x, y) "
          "(%d of %d cases)" % (len(failures), ncases))
    for f in failures[:10]:
        print("  - " + f)
    if len(failures) > 10:
        print("  ... and %d more" % (len(failures) - 10))
    sys.exit(1)

print("OK: brightest_pixel located the single bright pixel in all %d cases" % ncases)
sys.exit(0)
