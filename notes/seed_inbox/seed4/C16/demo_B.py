"""Spline zoom (both entry points zoom and zoom_rbs, orders 1, 3, 5, real and complex data):
 - unchanged size returns the input,
 - when the new grid contains the old nodes the original samples are passed through,
 - polynomials of degree <= order are reproduced exactly,
 - complex data is treated as real + i*imag."""
import sys
import numpy
from aotools import interpolation

TOL = 1e-8
failures = []
rng = numpy.random.RandomState(77)


def err(a, b):
    return float(numpy.abs(numpy.asarray(a) - numpy.asarray(b)).max())


for fname in ("zoom", "zoom_rbs"):
    f = getattr(interpolation, fname)
    for order in (1, 3, 5):
        for n in (8, 11, 16):
            for kind in ("real", "complex"):
                tag = "%s order=%d n=%d %s" % (fname, order, n, kind)
                a = rng.rand(n, n)
                if kind == "complex":
                    a = a + 1j * rng.rand(n, n)

                # unchanged size
                e = err(f(a, n, order), a)
                if e > TOL:
                    failures.append("%s: unchanged size does not return the input (err %.3g)" % (tag, e))
                e = err(f(a, (n, n), order), a)
                if e > TOL:
                    failures.append("%s: unchanged size (tuple) does not return the input (err %.3g)" % (tag, e))

                # new grid contains the old nodes: m = k (n-1) + 1
                for k in (2, 3):
                    m = k * (n - 1) + 1
                    z = f(a, m, order)
                    if z.shape != (m, m):
                        failures.append("%s: shape %r for size %d" % (tag, z.shape, m))
                        continue
                    e = err(z[::k, ::k], a)
                    if e > TOL:
                        failures.append("%s: original samples not passed through at size %d (err %.3g)" % (tag, m, e))

                # polynomial exactness up to the spline order
                for m in (n - 3, n + 5, 2 * n + 1, (n, n + 4)):
                    mx, my = m if isinstance(m, tuple) else (m, m)
                    c = rng.randn(order + 1, order + 1)
                    if kind == "complex":
                        c = c + 1j * rng.randn(order + 1, order + 1)
                    t0 = numpy.arange(n) / (n - 1.)
                    v0 = numpy.vander(t0, order + 1, increasing=True)
                    src = v0.dot(c).dot(v0.T)
                    vx = numpy.vander(numpy.linspace(0, 1, mx), order + 1, increasing=True)
                    vy = numpy.vander(numpy.linspace(0, 1, my), order + 1, increasing=True)
                    want = vx.dot(c).dot(vy.T)
                    z = f(src, m, order)
                    if z.shape != want.shape:
                        failures.append("%s: shape %r for size %r" % (tag, z.shape, m))
                        continue
                    e = err(z, want)
                    if e > 1e-7:
                        failures.append("%s: degree-%d polynomial not reproduced at size %r (err %.3g)"
                                        % (tag, order, m, e))

                # complex = real + i * imag
                if kind == "complex":
                    for m in (n + 6, 3 * n):
                        z = f(a, m, order)
                        want = f(a.real.copy(), m, order) + 1j * f(a.imag.copy(), m, order)
                        e = err(z, want)
                        if e > TOL:
                            failures.append("%s: zoom(c) differs from zoom(re) + i zoom(im) at size %d (err %.3g)"
                                            % (tag, m, e))
                    a64 = a.astype(numpy.complex64)
                    z = f(a64, n + 6, order)
                    want = f(a64.real.astype(float), n + 6, order) + 1j * f(a64.imag.astype(float), n + 6, order)
                    e = err(z, want)
                    if e > 1e-5:
                        failures.append("%s: complex64 zoom differs from zoom(re) + i zoom(im) (err %.3g)" % (tag, e))

if failures:
    print("C16 zoom property violated (%d cases):" % len(failures))
    for msg in failures[:15]:
        print("  -", msg)
    if len(failures) > 15:
        print("  ... and %d more" % (len(failures) - 15))
    sys.exit(1)
print("zoom: identity, pass-through, polynomial exactness and complex handling hold")
sys.exit(0)
