"""Azimuthal average of non-negative even-sized images: a constant image gives that constant, and
every output value lies between the image minimum and maximum (it is an average of pixels).
Checked on flat, random and PSF-like (bright core, faint wings) images."""
import sys
import numpy
from aotools.image_processing import azimuthal_average

RTOL = 1e-9          # an average of pixels may miss the bounds by rounding of the average, not more
failures = []


def check_bounds(name, img):
    avg = azimuthal_average(img)
    lo, hi = float(img.min()), float(img.max())
    if avg.shape != (img.shape[0] // 2,):
        failures.append("%s: output shape %r" % (name, avg.shape))
        return
    if not numpy.all(numpy.isfinite(avg)):
        failures.append("%s: non-finite output" % name)
        return
    below = numpy.nonzero(avg < lo * (1 - RTOL))[0]
    above = numpy.nonzero(avg > hi * (1 + RTOL))[0]
    if len(below):
        k = int(below[0])
        failures.append("%s: ring %d average %.6g is below the image minimum %.6g (%d rings below)"
                        % (name, k, avg[k], lo, len(below)))
    if len(above):
        k = int(above[0])
        failures.append("%s: ring %d average %.6g is above the image maximum %.6g (%d rings above)"
                        % (name, k, avg[k], hi, len(above)))


def check_constant(name, n, c, dtype=float):
    img = numpy.full((n, n), c, dtype=dtype)
    avg = azimuthal_average(img)
    c = float(img[0, 0])
    if not numpy.allclose(avg, c, rtol=RTOL, atol=0):
        failures.append("%s: constant image %g gives %r" % (name, c, avg))


rng = numpy.random.RandomState(2024)

for n in (2, 4, 8, 16, 32, 64, 128):
    for c in (1., 0.1, 3.7, 1e-9, 12345.678, 1e12):
        check_constant("constant %dx%d" % (n, n), n, c)
    check_constant("constant uint16 %dx%d" % (n, n), n, 1000, numpy.uint16)
    check_constant("constant float32 %dx%d" % (n, n), n, 0.3, numpy.float32)

    check_bounds("uniform random %dx%d" % (n, n), rng.rand(n, n))
    check_bounds("poisson frame %dx%d" % (n, n), rng.poisson(20., (n, n)).astype(numpy.uint16))

    yy, xx = numpy.indices((n, n)) + 0.5 - n / 2.
    r = numpy.hypot(xx, yy)

    # diffraction-like core on smooth wings, peak normalised to 1
    check_bounds("lorentzian wings %dx%d" % (n, n), 1. / (1. + r ** 2) ** 1.5)

    # noise-free gaussian PSFs: every pixel is > 0, the wings are just very faint
    for sigma in (1., 1.5, 2., 3.):
        check_bounds("gaussian psf sigma=%g %dx%d" % (sigma, n, n), numpy.exp(-r ** 2 / (2 * sigma ** 2)))

    # bright unresolved source on a flat sky of 0.3 (arbitrary units)
    for peak in (1e3, 1e6, 1e10, 1e13, 1e17):
        img = numpy.full((n, n), 0.3)
        img[r < 1.5] = peak
        check_bounds("source %g on flat sky %dx%d" % (peak, n, n), img)

if failures:
    print("C16 azimuthal-average property violated (%d cases):" % len(failures))
    for f in failures[:15]:
        print("  -", f)
    if len(failures) > 15:
        print("  ... and %d more" % (len(failures) - 15))
    sys.exit(1)
print("azimuthal average: constants reproduced, outputs within [min, max]")
sys.exit(0)
