"""
C04 demo B: extruding an infinite phase screen.  Every call of add_row() must put ONE new row
X = A Z + B b (Fried stencil: relative to the reference pixel) in front of the phase that was there before,
and keep that old phase untouched underneath it -- for the first row and for every later one, however many
rows have been added already.  Only then do the joint statistics of old and new phase stay stationary.
"""
import copy
import sys

import numpy

from aotools.turbulence import infinitephasescreen as ips


def extrude(label, scr, n_rows):
    n = scr.nx_size
    fried = isinstance(scr, ips.PhaseScreenKolmogorov)
    zi = (scr.stencil_coords[:, 0], scr.stencil_coords[:, 1])
    for k in range(1, n_rows + 1):
        before = numpy.array(scr._scrn, copy=True)
        visible_before = numpy.array(scr.scrn, copy=True)
        b = copy.deepcopy(scr._R).normal(0, 1, size=n)
        ref = before[scr.reference_coord] if fried else 0.0
        expect = scr.A_mat.dot(before[zi] - ref) + scr.B_mat.dot(b) + ref

        out = scr.add_row()
        after = numpy.asarray(scr._scrn)

        if after.shape != before.shape:
            return "%s: row %d: screen changed shape %s -> %s" % (label, k, before.shape, after.shape)
        if not numpy.allclose(after[0], expect, rtol=1e-10, atol=1e-10):
            return "%s: row %d: the new row is not A Z + B b of the phase that was in the screen" % (label, k)
        if not numpy.array_equal(after[1:], before[:-1]):
            bad = numpy.flatnonzero((after[1:] != before[:-1]).any(axis=1))
            return ("%s: row %d: old phase was not kept under the new row (old rows %s changed or went missing)"
                    % (label, k, [int(i) for i in bad[:5]]))
        m = scr.requested_nx_size
        if not numpy.array_equal(numpy.asarray(out)[1:], visible_before[:m - 1]) \
                or not numpy.array_equal(numpy.asarray(out)[0], after[0, :m]):
            return "%s: row %d: add_row() did not return the extruded screen" % (label, k)
    return None


def check_matrices(label, scr):
    """ A Cov_zz = Cov_xz and A Cov_zz A^T + B B^T = Cov_xx on the covariance the screen was built with """
    czz, cxz, cxx = scr.cov_mat_zz, scr.cov_mat_xz, scr.cov_mat_xx
    s = cxx.max()
    e1 = numpy.abs(scr.A_mat.dot(czz) - cxz).max() / s
    e2 = numpy.abs(scr.A_mat.dot(czz).dot(scr.A_mat.T) + scr.B_mat.dot(scr.B_mat.T) - cxx).max() / s
    if not (e1 < 1e-7 and e2 < 1e-7):
        return "%s: A/B identities violated (%.2g, %.2g)" % (label, e1, e2)
    return None


if __name__ == "__main__":
    screens = [
        ("VonKarman nx=8 n_columns=2", ips.PhaseScreenVonKarman(8, 0.25, 0.3, 10., random_seed=5, n_columns=2)),
        ("VonKarman nx=13 n_columns=3", ips.PhaseScreenVonKarman(13, 0.1, 0.2, 8., random_seed=6, n_columns=3)),
        ("Fried nx=5 stencil_length_factor=2",
         ips.PhaseScreenKolmogorov(5, 0.25, 0.3, 10., random_seed=7, stencil_length_factor=2)),
        ("Fried nx=7 (-> 9) stencil_length_factor=4",
         ips.PhaseScreenKolmogorov(7, 0.2, 0.25, 12., random_seed=8, stencil_length_factor=4)),
    ]
    problems = []
    for label, scr in screens:
        p = check_matrices(label, scr)
        if p is None:
            # long enough to go several times round the length of the stored screen
            p = extrude(label, scr, 3 * scr.stencil_length + 5)
        if p is not None:
            problems.append(p)
    if problems:
        print("C04 VIOLATED:")
        for p in problems:
            print("  " + p)
        sys.exit(1)
    print("C04 holds: %d screens extruded row by row, old phase kept and each new row = A Z + B b" % len(screens))
    sys.exit(0)
