"""
C04 demo A: the A and B matrices of an infinite phase screen must satisfy
    A Cov(Z,Z) = Cov(X,Z)   and   A Cov(Z,Z) A^T + B B^T = Cov(X,X)
with Cov the theoretical von Karman covariance at the TRUE pixel separations, for every pixel scale --
whatever numeric type the pixel scale is given in (1 and 1.0 describe the same screen).
"""
import copy
import sys

import numpy
from scipy.special import gamma, kv

from aotools.turbulence import infinitephasescreen as ips


def von_karman_cov(r, r0, L0):
    r = numpy.asarray(r, dtype=float)
    x = 2 * numpy.pi * numpy.where(r == 0, 1e-30, r) / L0
    c = (L0 / r0) ** (5. / 3) * 2 ** (-5. / 6) * gamma(11. / 6) / numpy.pi ** (8. / 3) \
        * ((24. / 5) * gamma(6. / 5)) ** (5. / 6)
    return c * x ** (5. / 6) * kv(5. / 6, x)


def check(label, cls, nx, pixel_scale, r0, L0, **kw):
    problems = []
    try:
        scr = cls(nx, pixel_scale, r0, L0, random_seed=3, **kw)
    except Exception as exc:
        return ["%s: construction failed: %r" % (label, exc)]

    n = scr.nx_size
    z = numpy.asarray(scr.stencil_coords, dtype=float)
    x = numpy.column_stack((numpy.full(n, -1.0), numpy.arange(n, dtype=float)))
    pos = numpy.concatenate((z, x)) * float(pixel_scale)
    sep = numpy.sqrt(((pos[:, None, :] - pos[None, :, :]) ** 2).sum(-1))
    cov = von_karman_cov(sep, r0, L0)
    nz = len(z)
    czz, cxz, cxx = cov[:nz, :nz], cov[nz:, :nz], cov[nz:, nz:]

    A, B = scr.A_mat, scr.B_mat
    scale = cxx.max()
    e1 = numpy.abs(A.dot(czz) - cxz).max() / scale
    e2 = numpy.abs(A.dot(czz).dot(A.T) + B.dot(B.T) - cxx).max() / scale
    if not e1 < 1e-7:
        problems.append("%s: A Cov_zz != Cov_xz  (relative error %.3g)" % (label, e1))
    if not e2 < 1e-7:
        problems.append("%s: A Cov_zz A^T + B B^T != Cov_xx  (relative error %.3g)" % (label, e2))

    # and the row that is really produced is A Z + B b (relative to the reference pixel for the Fried stencil)
    rng = copy.deepcopy(scr._R)
    b = rng.normal(0, 1, size=n)
    Z = scr._scrn[(scr.stencil_coords[:, 0], scr.stencil_coords[:, 1])].copy()
    ref = scr._scrn[scr.reference_coord] if isinstance(scr, ips.PhaseScreenKolmogorov) else 0.0
    expect = A.dot(Z - ref) + B.dot(b) + ref
    got = numpy.asarray(scr.get_new_row()).ravel()
    if not numpy.allclose(got, expect, rtol=1e-9, atol=1e-9):
        problems.append("%s: new row is not A Z + B b" % label)
    return problems


CASES = [
    ("VonKarman nx=9  pixel_scale=1.0 n_columns=1", ips.PhaseScreenVonKarman, 9, 1.0, 0.5, 25., dict(n_columns=1)),
    ("VonKarman nx=9  pixel_scale=1   n_columns=1", ips.PhaseScreenVonKarman, 9, 1, 0.5, 25., dict(n_columns=1)),
    ("VonKarman nx=8  pixel_scale=0.5 n_columns=2", ips.PhaseScreenVonKarman, 8, 0.5, 0.5, 5., dict(n_columns=2)),
    ("VonKarman nx=8  pixel_scale=2.0 n_columns=2", ips.PhaseScreenVonKarman, 8, 2.0, 0.5, 5., dict(n_columns=2)),
    ("VonKarman nx=8  pixel_scale=2   n_columns=2", ips.PhaseScreenVonKarman, 8, 2, 0.5, 5., dict(n_columns=2)),
    ("VonKarman nx=12 pixel_scale=3   n_columns=3", ips.PhaseScreenVonKarman, 12, 3, 0.4, 20., dict(n_columns=3)),
    ("Fried     nx=9  pixel_scale=1.0", ips.PhaseScreenKolmogorov, 9, 1.0, 0.5, 5., dict()),
    ("Fried     nx=9  pixel_scale=1", ips.PhaseScreenKolmogorov, 9, 1, 0.5, 5., dict()),
    ("Fried     nx=7  pixel_scale=numpy.int64(2)", ips.PhaseScreenKolmogorov, 7, numpy.int64(2), 0.5, 5.,
     dict(stencil_length_factor=2)),
]

if __name__ == "__main__":
    problems = []
    for case in CASES:
        label, cls, nx, ps, r0, L0, kw = case
        problems += check(label, cls, nx, ps, r0, L0, **kw)
    if problems:
        print("C04 VIOLATED:")
        for p in problems:
            print("  " + p)
        sys.exit(1)
    print("C04 holds for %d screens (float and integer pixel scales)" % len(CASES))
    sys.exit(0)
