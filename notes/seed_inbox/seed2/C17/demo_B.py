"""
C17 demo B: magnitude <-> photon flux is an inverse pair in EVERY one of the twelve bands of the
table (Johnson U B V R I J H K and Sloan g r i z), five magnitudes are a factor 100 in flux, and
photons_per_band is the composition magnitude_to_flux x collecting area x exposure time
(hence proportional to area and to exposure time).

Exits 0 if every clause holds, 1 (with a report) otherwise.
"""
import sys
import numpy
from aotools import astronomy, circle

failures = []


def close(a, b, rtol=1e-10):
    return abs(a - b) <= rtol * max(abs(a), abs(b))


bands = list(astronomy.FLUX_DICTIONARY.keys())
if sorted(bands) != sorted("UBVRIJHKgriz"):
    failures.append("band table is not the twelve documented bands: %s" % bands)

magnitudes = [-26.74, -1.46, 0.0, 0.03, 5.56, 9, 12.5, 17.25, 24.0, 30.0]
mask = circle(8, 20)
pxl = 0.21
t_exp = 0.004

for band in bands:
    for mag in magnitudes:
        flux = astronomy.magnitude_to_flux(mag, band)

        # magnitude -> flux -> magnitude
        back = astronomy.flux_to_magnitude(flux, band)
        if abs(back - mag) > 1e-9:
            failures.append("band %r: flux_to_magnitude(magnitude_to_flux(%g)) = %.12g (off by %+.6f mag)"
                            % (band, mag, back, back - mag))

        # flux -> magnitude -> flux
        flux_back = astronomy.magnitude_to_flux(astronomy.flux_to_magnitude(flux, band), band)
        if not close(flux_back, flux):
            failures.append("band %r, mag %g: magnitude_to_flux(flux_to_magnitude(F)) / F = %.12g"
                            % (band, mag, flux_back / flux))

        # five magnitudes = factor 100 in flux, in both directions
        if not close(astronomy.magnitude_to_flux(mag + 5, band) * 100., flux):
            failures.append("band %r, mag %g: flux(m) / flux(m+5) = %.12g, not 100"
                            % (band, mag, flux / astronomy.magnitude_to_flux(mag + 5, band)))
        dm = astronomy.flux_to_magnitude(flux / 100., band) - astronomy.flux_to_magnitude(flux, band)
        if abs(dm - 5.) > 1e-9:
            failures.append("band %r, mag %g: a flux 100x fainter is %.12g mag fainter, not 5" % (band, mag, dm))

        # composite == composition; proportional to area and exposure time
        n = astronomy.photons_per_band(mag, mask, pxl, t_exp, band)
        if not close(n, flux * mask.sum() * pxl ** 2 * t_exp):
            failures.append("band %r, mag %g: photons_per_band != magnitude_to_flux * area * time" % (band, mag))
        if not close(astronomy.photons_per_band(mag, mask, pxl, 3 * t_exp, band), 3 * n):
            failures.append("band %r, mag %g: photons not proportional to exposure time" % (band, mag))
        if not close(astronomy.photons_per_band(mag, mask, 2 * pxl, t_exp, band), 4 * n):
            failures.append("band %r, mag %g: photons not proportional to collecting area (pixel scale)" % (band, mag))
        if not close(astronomy.photons_per_band(mag, numpy.hstack([mask, mask]), pxl, t_exp, band), 2 * n):
            failures.append("band %r, mag %g: photons not proportional to collecting area (mask)" % (band, mag))

        # the magnitude recovered from the photon count of a known aperture is the one put in
        m_from_counts = astronomy.flux_to_magnitude(n / (mask.sum() * pxl ** 2 * t_exp), band)
        if abs(m_from_counts - mag) > 1e-9:
            failures.append("band %r: magnitude recovered from photons_per_band(%g) is %.12g"
                            % (band, mag, m_from_counts))

if failures:
    print("C17 VIOLATED: %d check(s) failed" % len(failures))
    for f in failures[:12]:
        print("  - " + f)
    if len(failures) > 12:
        print("  ... and %d more" % (len(failures) - 12))
    bad_bands = sorted(set(f.split("'")[1] for f in failures if f.startswith("band '")))
    print("  bands affected: %s" % bad_bands)
    sys.exit(1)

print("C17 holds: magnitude/flux converters are inverse pairs in all %d bands, 5 mag = x100, "
      "photon counts scale with area and time" % len(bands))
sys.exit(0)
