"""
C17 demo A: seeing <-> r0 <-> Cn2 are inverse pairs, composites equal the composition of the
elementary converters, and r0 / seeing scale as lambda^(6/5) / lambda^(-1/5) -- checked for
scalar inputs AND for vectors of seeing values (one value per night, say), at several wavelengths.

Exits 0 if every clause holds, 1 (with a report) otherwise.
"""
import sys
import numpy
from aotools.turbulence import atmos_conversions as ac

RTOL = 1e-12
failures = []


def check(name, got, want):
    got = numpy.asarray(got, dtype=float)
    want = numpy.asarray(want, dtype=float)
    if got.shape != want.shape or not numpy.allclose(got, want, rtol=RTOL, atol=0):
        err = numpy.max(numpy.abs(got / want - 1)) if got.shape == want.shape else numpy.nan
        failures.append("%s: max relative error %.3g\n      got  %s\n      want %s" % (name, err, got, want))


wavelengths = [500e-9, 589e-9, 1.65e-6, 2.2e-6]

inputs = {
    "scalar": lambda: 0.8,
    "int array": lambda: numpy.array([1, 2, 3]),
    "float64 array": lambda: numpy.array([0.4, 0.8, 1.3, 2.1]),
    "float64 2-d array": lambda: numpy.array([[0.4, 0.8], [1.3, 2.1]]),
}

for label, make in inputs.items():
    for lam in wavelengths:
        tag = "[%s, lambda=%g]" % (label, lam)
        reference = numpy.asarray(make(), dtype=float)   # the numbers the user put in

        # -- inverse pair seeing -> r0 -> seeing, compared with the user's own variable
        seeing = make()
        r0 = ac.seeing_to_r0(seeing, lam)
        back = ac.r0_to_seeing(r0, lam)
        check("r0_to_seeing(seeing_to_r0(s)) == s " + tag, back, seeing)

        # -- inverse pair through Cn2, again against the user's variable
        seeing = make()
        cn2 = ac.seeing_to_cn2(seeing, lam)
        back = ac.cn2_to_seeing(cn2, lam)
        check("cn2_to_seeing(seeing_to_cn2(s)) == s " + tag, back, seeing)

        # -- composite == composition of the elementary converters, same argument for both
        seeing = make()
        composite = ac.seeing_to_cn2(seeing, lam)
        composed = ac.r0_to_cn2(ac.seeing_to_r0(seeing, lam), lam)
        check("seeing_to_cn2 == r0_to_cn2 o seeing_to_r0 " + tag, composite, composed)

        # -- the same seeing at two wavelengths: r0 is linear in lambda at fixed seeing angle,
        #    and converting via Cn2 to the other wavelength gives seeing ~ lambda^(-1/5)
        seeing = make()
        r0_a = ac.seeing_to_r0(seeing, lam)
        r0_b = ac.seeing_to_r0(seeing, 2 * lam)
        check("seeing_to_r0(s, 2 lambda) == 2 seeing_to_r0(s, lambda) " + tag, r0_b, 2 * numpy.asarray(r0_a))

        seeing = make()
        cn2 = ac.seeing_to_cn2(seeing, lam)
        check("r0 ~ lambda^(6/5) " + tag, ac.cn2_to_r0(cn2, 2 * lam),
              2 ** 1.2 * numpy.asarray(ac.seeing_to_r0(seeing, lam)))
        check("seeing ~ lambda^(-1/5) " + tag, ac.cn2_to_seeing(cn2, 2 * lam),
              2 ** -0.2 * reference)

        # -- the values fed in are still the values fed in
        check("input seeing left as given " + tag, seeing, reference)

if failures:
    print("C17 VIOLATED: %d check(s) failed" % len(failures))
    for f in failures[:12]:
        print("  - " + f)
    if len(failures) > 12:
        print("  ... and %d more" % (len(failures) - 12))
    sys.exit(1)

print("C17 holds: seeing/r0/Cn2 converters are inverse pairs, compose, and scale correctly "
      "for scalar and array inputs")
sys.exit(0)
