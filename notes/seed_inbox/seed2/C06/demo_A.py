"""
C06 demo A: unseeded infinite phase screens must differ from each other, whatever happens to NumPy's
global random state between the two constructions (a user script that calls numpy.random.seed(...) for
its own noise model before every run is an ordinary interleaving).  Seeded screens must stay bit-identical
under the same schedule.
"""
import sys
import numpy
from aotools.turbulence import infinitephasescreen as ips

failures = []


def history(screen, n_rows):
    out = [screen.scrn.copy()]
    for _ in range(n_rows):
        out.append(screen.add_row().copy())
    return numpy.array(out)


cases = [
    ("PhaseScreenVonKarman", lambda seed: ips.PhaseScreenVonKarman(32, 4. / 32, 0.16, 25., random_seed=seed, n_columns=2)),
    ("PhaseScreenKolmogorov", lambda seed: ips.PhaseScreenKolmogorov(17, 4. / 16, 0.2, 40., random_seed=seed, stencil_length_factor=2)),
]

for name, make in cases:
    for global_seed in (0, 1234, 2 ** 32 - 1):
        # two unseeded screens; the application resets the global NumPy state before each of them
        numpy.random.seed(global_seed)
        user_noise_1 = numpy.random.normal(size=3)      # the application's own use of the global state
        h1 = history(make(None), 5)

        numpy.random.seed(global_seed)
        user_noise_2 = numpy.random.normal(size=3)
        h2 = history(make(None), 5)

        if numpy.array_equal(h1[0], h2[0]):
            failures.append("%s: two UNSEEDED screens are identical when numpy.random.seed(%d) is called before "
                            "each construction (initial screens equal)" % (name, global_seed))
        if numpy.array_equal(h1[1:, 0], h2[1:, 0]):
            failures.append("%s: two UNSEEDED screens add identical rows when numpy.random.seed(%d) is called "
                            "before each construction" % (name, global_seed))

    # unseeded screens built back to back, no interference: must differ as well
    if numpy.array_equal(history(make(None), 2), history(make(None), 2)):
        failures.append("%s: two unseeded screens built back to back are identical" % name)

    # seeded screens: bit-identical, whatever the global state is doing in between
    numpy.random.seed(1)
    ref = history(make(77), 5)
    numpy.random.seed(2)
    numpy.random.normal(size=11)
    again = history(make(77), 5)
    if ref.tobytes() != again.tobytes():
        failures.append("%s: seeded screen not reproducible across a change of the global NumPy state" % name)
    if numpy.array_equal(ref, history(make(78), 5)):
        failures.append("%s: different seeds gave the same screen" % name)

if failures:
    print("C06 VIOLATED:")
    for f in failures:
        print("  - " + f)
    sys.exit(1)
print("C06 demo A: OK")
sys.exit(0)
