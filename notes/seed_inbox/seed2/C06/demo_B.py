"""
C06 demo B: a seeded infinite phase screen, including every row added afterwards, must be bit-identical
however operations on OTHER live screen objects are interleaved with it (instances are isolated).

Reference history: one seeded screen, alone, rows added one after the other.
Reproductions:     the same seeded screen, with
                     (1) add_row() calls of a second live screen interleaved,
                     (2) a second screen constructed half way through,
                     (3) a second live screen of a different size / class stepping in between,
                     (4) nothing in between (plain sequential reproduction).
"""
import sys
import numpy
from aotools.turbulence import infinitephasescreen as ips

N_ROWS = 12
failures = []


def vk(seed, n=24):
    return ips.PhaseScreenVonKarman(n, 4. / 32, 0.16, 25., random_seed=seed, n_columns=2)


def kol(seed, n=17):
    return ips.PhaseScreenKolmogorov(n, 4. / 16, 0.2, 40., random_seed=seed, stencil_length_factor=2)


def alone(make, seed):
    s = make(seed)
    out = [s.scrn.copy()]
    for _ in range(N_ROWS):
        out.append(s.add_row().copy())
    return numpy.array(out)


def interleaved(make, seed, make_other, other_seed):
    s = make(seed)
    other = make_other(other_seed)
    out = [s.scrn.copy()]
    for i in range(N_ROWS):
        other.add_row()
        out.append(s.add_row().copy())
        if i % 3 == 0:
            other.add_row()
    return numpy.array(out)


def constructed_between(make, seed, make_other, other_seed):
    s = make(seed)
    out = [s.scrn.copy()]
    for i in range(N_ROWS):
        if i == N_ROWS // 2:
            make_other(other_seed)          # an unrelated screen is built; it is never even stepped
        out.append(s.add_row().copy())
    return numpy.array(out)


def first_difference(a, b):
    for i in range(len(a)):
        if a[i].tobytes() != b[i].tobytes():
            return i
    return None


def check(label, ref, thunk):
    try:
        got = thunk()
    except Exception as e:   # cross-talk between screens of different size may even raise
        failures.append("%s: raised %s: %s" % (label, type(e).__name__, e))
        return
    if got.shape != ref.shape or got.tobytes() != ref.tobytes():
        i = first_difference(ref, got)
        failures.append("%s: history differs from the same seeded screen run alone, first at step %s "
                        "(0 = initial screen, k = after k-th add_row); max |diff| = %.3g"
                        % (label, i, numpy.abs(ref - got).max() if got.shape == ref.shape else float('nan')))


for name, make in (("PhaseScreenVonKarman", vk), ("PhaseScreenKolmogorov", kol)):
    for seed in (0, 5, 2 ** 40 + 3):
        ref = alone(make, seed)
        check("%s seed=%d, sequential reproduction" % (name, seed), ref, lambda: alone(make, seed))
        check("%s seed=%d, add_row of a second same-size screen (seed 99) interleaved" % (name, seed), ref,
              lambda: interleaved(make, seed, make, 99))
        check("%s seed=%d, add_row of a second same-size UNSEEDED screen interleaved" % (name, seed), ref,
              lambda: interleaved(make, seed, make, None))
        check("%s seed=%d, second screen constructed between two add_row calls" % (name, seed), ref,
              lambda: constructed_between(make, seed, make, 99))
        other = kol if make is vk else vk
        check("%s seed=%d, add_row of a live screen of the other class/size interleaved" % (name, seed), ref,
              lambda: interleaved(make, seed, other, 3))

    if numpy.array_equal(alone(make, 1), alone(make, 2)):
        failures.append("%s: different seeds gave the same screen" % name)
    if numpy.array_equal(alone(make, None), alone(make, None)):
        failures.append("%s: unseeded screens are identical" % name)

if failures:
    print("C06 VIOLATED:")
    for f in failures:
        print("  - " + f)
    sys.exit(1)
print("C06 demo B: OK")
sys.exit(0)
