"""C19 demo B: the temporal power spectrum is |DFT along the frame axis|^2 averaged
over sub-apertures, for ANY frame count: it matches the DFT definition, peaks at
the bin of a pure sinusoid and obeys Parseval's identity."""
import sys
import numpy
from aotools import turbulence

failures = []
rng = numpy.random.RandomState(11)


def dft_power(x):
    """|sum_t x[t] exp(-2 pi i k t / n)|^2 for all k, along axis -2 (by definition)."""
    n = x.shape[-2]
    t = numpy.arange(n)
    W = numpy.exp(-2j * numpy.pi * numpy.outer(t, t) / n)       # (k, t)
    X = numpy.einsum('kt,...ts->...ks', W, x)
    return abs(X) ** 2


frame_counts = [8, 12, 15, 16, 21, 13, 17, 26, 34, 38, 101]
for n in frame_counts:
    nsub = 6
    half = n // 2

    # 1. definition, with a leading axis
    x = rng.randn(2, n, nsub)
    tps, err = turbulence.calc_slope_temporalps(x)
    full = dft_power(x)
    want = full[..., :half, :].mean(-1)
    if tps.shape != want.shape:
        failures.append("n_frames=%d: spectrum shape %r, expected %r" % (n, tps.shape, want.shape))
        continue
    if not numpy.allclose(tps, want, rtol=1e-9, atol=1e-9):
        k = numpy.unravel_index(numpy.argmax(abs(tps - want)), tps.shape)
        failures.append("n_frames=%d: tps%r=%r but |DFT|^2 averaged over sub-apertures is %r"
                        % (n, list(k), tps[k], want[k]))

    # 2. Parseval: the half spectrum carries all the energy of a real signal
    #    (bins 1..half-1 counted twice, + the mirrored middle bin(s) taken from the definition)
    y = x[0]
    tps1, _ = turbulence.calc_slope_temporalps(y)
    rest = dft_power(y)[half:n - half + 1, :].mean(-1).sum()  # Nyquist bin (even n) / the two centre bins (odd n)
    lhs = tps1[0] + 2 * tps1[1:].sum() + rest
    rhs = n * (y ** 2).sum(0).mean()
    if not numpy.isclose(lhs, rhs, rtol=1e-9):
        failures.append("n_frames=%d: Parseval fails: spectral energy %r vs n*sum(x^2) %r" % (n, lhs, rhs))

    # 3. pure sinusoid at bin k0 peaks at bin k0 with power (A n / 2)^2; 4. quadratic in amplitude
    k0 = max(1, half // 2)
    t = numpy.arange(n)[:, None]
    phases = rng.uniform(0, 2 * numpy.pi, nsub)[None, :]
    s = 1.5 * numpy.cos(2 * numpy.pi * k0 * t / n + phases)
    ps, _ = turbulence.calc_slope_temporalps(s)
    if int(numpy.argmax(ps)) != k0:
        failures.append("n_frames=%d: sinusoid at bin %d peaks at bin %d" % (n, k0, int(numpy.argmax(ps))))
    if not numpy.isclose(ps[k0], (1.5 * n / 2) ** 2, rtol=1e-9):
        failures.append("n_frames=%d: sinusoid peak power %r, expected (A n/2)^2 = %r" % (n, ps[k0], (1.5 * n / 2) ** 2))
    off = numpy.delete(ps, k0)
    if off.size and off.max() > 1e-9 * ps[k0]:
        failures.append("n_frames=%d: sinusoid on an exact bin leaks %r of its power into other bins"
                        % (n, off.max() / ps[k0]))
    ps3, _ = turbulence.calc_slope_temporalps(3.0 * x)
    if not numpy.allclose(ps3, 9.0 * tps, rtol=1e-9):
        failures.append("n_frames=%d: not quadratic in amplitude" % n)

    # frequency axis
    f = turbulence.get_tps_time_axis(250.0, n)
    if not numpy.allclose(f, numpy.arange(half) * 250.0 / n, rtol=1e-12, atol=0):
        failures.append("n_frames=%d: frequency axis is not k*frame_rate/n_frames" % n)

if failures:
    print("C19 VIOLATED (temporal power spectrum is not |DFT over frames|^2):")
    for f in failures:
        print("  -", f)
    sys.exit(1)
print("C19 demo B: ok")
sys.exit(0)
