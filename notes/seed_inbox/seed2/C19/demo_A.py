"""C19 demo A: the structure-function estimator is the mean squared difference of
the phase with itself shifted by j*step along axis 0.  It therefore does not depend
on a constant offset (piston) of the phase, and is exact for a ramp:
D[j] = a^2 (j*step)^2 -- whatever the piston of the ramp is."""
import sys
import numpy
from aotools.turbulence.slopecovariance import calculate_structure_function

failures = []


def brute(phase, npts, step):
    phase = numpy.asarray(phase, dtype=float)
    out = numpy.zeros(npts)
    for j in range(1, npts):
        s = j * step
        d = phase[:-s, :] - phase[s:, :]
        out[j] = numpy.mean(d * d)
    return out


n = 64
rows = numpy.arange(n, dtype=float)[:, None] * numpy.ones((1, n))
rng = numpy.random.RandomState(3)
rough = rng.randn(n, n)

for piston in (0.0, 1.0e3, 1.0e6, 1.0e8):
    for a in (0.5, 1.0, 3.0):
        for step in (1, 2):
            phase = piston + a * rows          # ramp of slope a along axis 0
            sf = calculate_structure_function(phase, nbOfPoint=12, step=step)
            j = numpy.arange(len(sf))
            want = a ** 2 * (j * step) ** 2
            if sf[0] != 0:
                failures.append("ramp piston=%g a=%g step=%d: sf[0]=%r != 0" % (piston, a, step, sf[0]))
            if not numpy.allclose(sf, want, rtol=1e-9, atol=0):
                k = int(numpy.argmax(abs(sf - want)))
                failures.append("ramp piston=%g a=%g step=%d: sf[%d]=%r, closed form a^2 (j step)^2=%r"
                                % (piston, a, step, k, sf[k], want[k]))

    # general screens: definition + piston invariance
    phase = piston + rough
    sf = calculate_structure_function(phase, nbOfPoint=10, step=1)
    want = brute(phase, len(sf), 1)
    ref = calculate_structure_function(rough, nbOfPoint=10, step=1)
    if not numpy.allclose(sf, want, rtol=1e-9, atol=0):
        k = int(numpy.argmax(abs(sf - want)))
        failures.append("random screen piston=%g: sf[%d]=%r but mean squared difference is %r"
                        % (piston, k, sf[k], want[k]))
    if not numpy.allclose(sf, ref, rtol=1e-6, atol=0):
        k = int(numpy.argmax(abs(sf - ref)))
        failures.append("random screen: adding piston %g changed sf[%d] from %r to %r"
                        % (piston, k, ref[k], sf[k]))
    if numpy.any(sf < 0):
        failures.append("random screen piston=%g: negative structure function values %r" % (piston, sf[sf < 0]))

if failures:
    print("C19 VIOLATED (structure function is not the mean squared difference):")
    for f in failures:
        print("  -", f)
    sys.exit(1)
print("C19 demo A: ok")
sys.exit(0)
