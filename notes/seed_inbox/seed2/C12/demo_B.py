"""C12: a phase built from a coefficient vector c is exactly sum_k c[k] * Z_{k+1}
(Noll index k+1), for every coefficient vector, grid size and normalisation."""
import sys
import numpy
from aotools import functions

rng = numpy.random.RandomState(12)
bad = []


def coefficient_vectors():
    # dense vectors
    for n in (1, 3, 7, 15):
        yield "dense random len %d" % n, rng.normal(size=n)
    yield "dense ints", [1, 2, 3, 4, 5]
    yield "negative", [-1.0, -0.5, -2.0]
    # trailing zeros
    yield "trailing zeros", [0.7, -0.2, 0.0, 0.0]
    # all zeros
    yield "all zeros", [0.0, 0.0, 0.0]
    # single pure modes (no piston term): unit vectors e_k
    for k in range(8):
        c = numpy.zeros(k + 1)
        c[k] = 1.0
        yield "pure mode j=%d" % (k + 1), c
    # piston-and-tilt-free aberration vectors
    yield "no piston", [0, 0.3, -0.4, 1.0]
    yield "no piston/tip/tilt", [0, 0, 0, 0.5, -0.25, 0.125]
    yield "zeros both ends", [0, 0, 1.5, 0, -2.0, 0, 0]
    # interior zeros only
    yield "interior zeros", [1.0, 0, 0, 2.0]
    # as tuple / ndarray
    yield "tuple", (0.0, 1.0, 2.0)
    yield "float32 ndarray", numpy.array([0, 0, 1, 2], dtype=numpy.float32)


for N in (16, 17, 32, 33):
    for norm in ("noll", "rms", "p2v"):
        for label, c in coefficient_vectors():
            n = len(c)
            modes = functions.zernikeArray(n, N, norm=norm)
            expected = numpy.zeros((N, N))
            for k in range(n):
                expected += float(c[k]) * modes[k]
            if norm == "noll":
                # independent of zernikeArray as well
                direct = sum(float(c[k]) * functions.zernike_noll(k + 1, N) for k in range(n))
                if not numpy.allclose(direct, expected, rtol=0, atol=1e-12):
                    bad.append("N=%d: zernikeArray and zernike_noll disagree for %s" % (N, label))
            got = functions.phaseFromZernikes(c, N, norm=norm)
            if got.shape != (N, N):
                bad.append("N=%d norm=%s %s: shape %s" % (N, norm, label, got.shape))
                continue
            err = numpy.abs(got - expected).max()
            if not err < 1e-11:
                bad.append("N=%d norm=%s coeffs=%s (%s): phase differs from sum c_k Z_k by %.3g"
                           % (N, norm, [float(x) for x in c], label, err))

if bad:
    print("C12 VIOLATED: %d cases where phaseFromZernikes is not the linear combination" % len(bad))
    for line in bad[:15]:
        print("  " + line)
    if len(bad) > 15:
        print("  ... (%d more)" % (len(bad) - 15))
    sys.exit(1)

print("C12 ok: phaseFromZernikes(c) == sum_k c[k] Z_(k+1) for all tested coefficient vectors")
sys.exit(0)
