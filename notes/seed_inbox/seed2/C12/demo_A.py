"""C12: under norm="rms" every generated Zernike mode has unit RMS over the inscribed pupil
(and under norm="p2v" unit peak-to-valley), for odd and even grid sizes alike."""
import sys
import numpy
from aotools import functions

NMODES = 28
TOL = 1e-10
bad = []

for N in list(range(16, 41)) + [63, 64, 65, 128, 129]:
    pupil = functions.circle(N / 2., N)
    npix = pupil.sum()

    Zr = functions.zernikeArray(NMODES, N, norm="rms")
    for j in range(1, NMODES + 1):
        Z = Zr[j - 1]
        if numpy.any(Z[pupil == 0] != 0):
            bad.append("N=%d j=%d: rms-normalised mode is non-zero outside the pupil" % (N, j))
        rms = numpy.sqrt(numpy.sum(Z ** 2) / npix)
        if not abs(rms - 1.0) < TOL:
            bad.append("N=%d (%s) j=%d (n,m)=%s: RMS over pupil = %.12f, expected 1"
                       % (N, "odd" if N % 2 else "even", j, tuple(functions.zernIndex(j)), rms))

    Zp = functions.zernikeArray(NMODES, N, norm="p2v")
    for j in range(1, NMODES + 1):
        p2v = Zp[j - 1].max() - Zp[j - 1].min()
        if not abs(p2v - 1.0) < TOL:
            bad.append("N=%d j=%d: peak-to-valley = %.12f, expected 1" % (N, j, p2v))

if bad:
    print("C12 VIOLATED: %d normalisation failures" % len(bad))
    for line in bad[:20]:
        print("  " + line)
    if len(bad) > 20:
        print("  ... (%d more)" % (len(bad) - 20))
    sys.exit(1)

print("C12 ok: unit RMS / unit P2V for %d modes on all tested odd and even grids" % NMODES)
sys.exit(0)
