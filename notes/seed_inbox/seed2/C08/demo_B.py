"""C08 demo B: the structure function that the Karhunen-Loeve code actually puts into its covariance
kernel must be the same von Karman statistic as the slope-covariance copy and as 2 * (B(0) - B(r)).

gkl_kernel stores, for every pair of radii (i, j) of the polar grid, the azimuthal Fourier transform of
D(|p_i - p_j(theta_k)|), theta_k = 2 pi k / nth.  The transform is inverted here and the recovered values are
compared with the other copies of the statistic evaluated at the true separations of those points."""
import sys
import warnings
import numpy

warnings.simplefilter("ignore")

import aotools
from aotools.functions import karhunenLoeve as KL
from aotools.turbulence.slopecovariance import structure_function_vk, structure_function_kolmogorov

failures = []
TOL = 2e-3      # the copies use constants rounded differently (6.88 / 6.8839 / 0.17253): agree to < 0.1 %


def recovered_structure_function(ri, nr, stf, outerscale):
    rad = KL.gkl_radii(ri, nr)
    kernel = KL.gkl_kernel(ri, nr, rad, stf, outerscale)
    nth = kernel.shape[2]
    fnorm = 1. / 2. * (-1) / (2 * numpy.pi * (1 - ri ** 2))
    sf = numpy.fft.ifft(kernel, axis=2).real / (fnorm * 2 * numpy.pi / nth)
    return rad, sf, nth


def true_separations(rad, nth):
    # points at radius rad (pupil radius = 1, i.e. diameter = 2): positions in units of the diameter
    theta = 2 * numpy.pi * numpy.arange(nth) / nth
    xi, yi = 0.5 * rad[:, None, None], 0.
    xj = 0.5 * rad[None, :, None] * numpy.cos(theta)[None, None, :]
    yj = 0.5 * rad[None, :, None] * numpy.sin(theta)[None, None, :]
    return numpy.hypot(xj - xi, yj - yi)


def compare(label, got, want, scale, tol=TOL):
    err = numpy.max(numpy.abs(got - want)) / scale
    if not err < tol:
        failures.append("%s: max deviation %.3g of %.3g (tolerance %.1g)" % (label, err, scale, tol))


for nr in (6, 7, 8, 9, 11, 12):
    for ri in (0.0, 0.25):
        for L0 in (0.5, 3., 20.):          # outer scale in telescope diameters; separations are in units of D, r0 = 1
            rad, sf, nth = recovered_structure_function(ri, nr, 'vonKarman', L0)
            seps = true_separations(rad, nth)
            tag = "nr=%d ri=%g L0=%g" % (nr, ri, L0)
            sat = 2 * float(aotools.phase_covariance(0., 1., L0))
            compare(tag + " KL-kernel D vs slope-covariance D_vk", sf, structure_function_vk(seps, 1., L0), sat)
            compare(tag + " KL-kernel D vs 2*(B(0)-B(r))", sf,
                    2 * (aotools.phase_covariance(0., 1., L0) - aotools.phase_covariance(seps, 1., L0)), sat)
            diag0 = sf[numpy.arange(nr), numpy.arange(nr), 0]
            if not numpy.all(numpy.abs(diag0) < 1e-9 * sat):
                failures.append(tag + " KL-kernel D(0) != 0: %s" % diag0[:3])
        # Kolmogorov limit
        rad, sf, nth = recovered_structure_function(ri, nr, 'kolmogorov', None)
        seps = true_separations(rad, nth)
        want = structure_function_kolmogorov(seps, 1.)
        compare("nr=%d ri=%g KL-kernel Kolmogorov D vs 6.88 r^(5/3)" % (nr, ri), sf, want, want.max())
        # von Karman approaches Kolmogorov like 1.485 (r / L0)^(1/3): within 0.4 % for r <= 1, L0 = 1e8
        rad, sf_big, nth = recovered_structure_function(ri, nr, 'vk', 1e8)
        compare("nr=%d ri=%g KL-kernel von Karman with L0=1e8 vs Kolmogorov law" % (nr, ri), sf_big, want,
                want.max(), tol=5e-3)

# the two closed-form copies themselves
r = numpy.concatenate(([0.], numpy.logspace(-4, 3, 200)))
for L0 in (0.5, 3., 20.):
    compare("stf_vonKarman vs structure_function_vk, L0=%g" % L0, KL.stf_vonKarman(r, L0),
            structure_function_vk(r, 1., L0), 2 * float(aotools.phase_covariance(0., 1., L0)))

if failures:
    print("C08 VIOLATED (%d checks):" % len(failures))
    for f in failures[:25]:
        print("  -", f)
    sys.exit(1)
print("C08 demo B: the structure function inside the KL kernel agrees with the other copies")
sys.exit(0)
