"""C08 demo A: the von Karman structure function of a matrix of separations between a finite set of
points must be 0 on the zero separations, finite everywhere, equal to 2 * (B(0) - B(r)) with B the phase
covariance, and identical whatever the memory layout / shape in which the separations are handed over."""
import sys
import warnings
import numpy

warnings.simplefilter("ignore")

import aotools
from aotools.turbulence.slopecovariance import structure_function_vk

failures = []


def check(label, seps, r0, L0):
    seps_ref = numpy.array(seps, dtype=float, order="C")          # pristine copy of the values
    D = numpy.asarray(structure_function_vk(seps, r0, L0))
    if D.shape != seps_ref.shape:
        failures.append("%s: shape %s instead of %s" % (label, D.shape, seps_ref.shape))
        return
    sat = 2 * float(aotools.phase_covariance(0., r0, L0))
    # reference 1: twice the covariance difference
    D_cov = 2 * (aotools.phase_covariance(0., r0, L0) - aotools.phase_covariance(seps_ref, r0, L0))
    # reference 2: one separation at a time (plain scalars)
    D_one = numpy.array([float(structure_function_vk(float(s), r0, L0)) for s in seps_ref.ravel()]
                        ).reshape(seps_ref.shape)
    if not numpy.all(numpy.isfinite(D)):
        failures.append("%s: %d non-finite structure-function values (r0=%g, L0=%g)"
                        % (label, numpy.sum(~numpy.isfinite(D)), r0, L0))
    at_zero = D[seps_ref == 0]
    if at_zero.size and not numpy.all(at_zero == 0):
        failures.append("%s: D(0) != 0, got %s" % (label, at_zero[:4]))
    err = numpy.nanmax(numpy.abs(numpy.where(numpy.isfinite(D), D, numpy.inf) - D_cov)) / sat
    if not err < 2e-3:
        failures.append("%s: D(r) differs from 2*(B(0)-B(r)) by %.3g of the saturation value" % (label, err))
    if not numpy.array_equal(numpy.nan_to_num(D, nan=-1.), D_one):
        failures.append("%s: array evaluation differs from evaluating the same separations one by one" % label)
    if numpy.nanmax(D) > sat * (1 + 2e-3) or numpy.nanmin(D) < 0:
        failures.append("%s: D outside [0, 2 * variance]" % label)


rng = numpy.random.default_rng(8)
for r0, L0 in [(0.1, 25.), (0.2, 3.), (1.3, 100.)]:
    pts = rng.uniform(-L0, L0, size=(9, 2))
    pts[3] = pts[1]                                      # two coincident points as well as the diagonal
    diff = pts[:, None, :] - pts[None, :, :]
    seps = numpy.hypot(diff[..., 0], diff[..., 1])       # C-ordered, symmetric, zero diagonal
    rect = seps[:, :6]
    check("C-ordered matrix", seps, r0, L0)
    check("transposed matrix", seps.T, r0, L0)
    check("Fortran-ordered matrix", numpy.asfortranarray(seps), r0, L0)
    check("non-square C", numpy.ascontiguousarray(rect), r0, L0)
    check("non-square transposed", rect.T, r0, L0)
    check("strided view", seps[::2, ::3], r0, L0)
    check("reversed view", seps[::-1, ::-1], r0, L0)
    check("1-d", seps.ravel(), r0, L0)
    check("stack of matrices, axes moved", numpy.moveaxis(numpy.stack([seps, 2 * seps, 50 * seps]), 0, -1), r0, L0)
    check("stack of matrices, Fortran", numpy.asfortranarray(numpy.stack([seps, 3 * seps])), r0, L0)
    check("integer separations, Fortran", numpy.asfortranarray(numpy.arange(12).reshape(3, 4) % 5), r0, L0)
    check("scalar 0", 0., r0, L0)
    check("scalar", 0.37, r0, L0)
    check("scalar r >> L0", 1e4 * L0, r0, L0)

if failures:
    print("C08 VIOLATED:")
    for f in failures:
        print("  -", f)
    sys.exit(1)
print("C08 demo A: structure function consistent for every layout")
sys.exit(0)
