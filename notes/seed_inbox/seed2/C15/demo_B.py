"""C15, location / scale / shift / batch clauses, over the pixel types camera frames come in.

 * centre-of-gravity and brightest-pixel centroid of a single bright pixel are that pixel's (x, y);
 * multiplying the image by a positive constant leaves the centroid unchanged;
 * moving the content by k pixels (away from the borders) moves the centroid by exactly k;
 * a stack gives the same answers as its frames processed one at a time.

All images are non-negative and every value (also after scaling) is representable in the image's
own type.  Exits 0 if everything holds, 1 (listing the violations) otherwise.
"""
import sys
import numpy
from aotools import image_processing

cog = image_processing.centre_of_gravity
bpx = image_processing.brightest_pixel
TOL = 1e-6

# dtype -> (bright value used for the single pixel, peak of the blob, scale factor)
DTYPES = [
    ("float64", 1.0e4, 1000., 7.),
    ("float32", 1.0e4, 1000., 7.),
    ("int64", 50000, 1000, 7),
    ("int32", 50000, 1000, 7),
    ("int16", 30000, 1000, 7),
    ("uint16", 60000, 1000, 7),
    ("uint8", 250, 30, 7),
]
SIZES = [(6, 6), (9, 9), (8, 12), (11, 7), (16, 16)]

failures = []
nchecks = 0


def check(ok, msg):
    global nchecks
    nchecks += 1
    if not ok:
        failures.append(msg)


def close(a, b):
    return numpy.allclose(numpy.asarray(a, dtype=float).ravel(), numpy.asarray(b, dtype=float).ravel(),
                          atol=TOL, rtol=0)


def blob(ny, nx, peak, dtype, y0, x0):
    """Small asymmetric spot with its brightest pixel at (y0, x0), zero background."""
    img = numpy.zeros((ny, nx), dtype=dtype)
    img[y0, x0] = peak
    img[y0, x0 + 1] = peak // 2 if numpy.issubdtype(img.dtype, numpy.integer) else peak / 2
    img[y0 + 1, x0] = peak // 5 if numpy.issubdtype(img.dtype, numpy.integer) else peak / 5
    img[y0 - 1, x0 - 1] = peak // 10 if numpy.issubdtype(img.dtype, numpy.integer) else peak / 10
    return img


for dtype, bright, peak, k in DTYPES:
    for ny, nx in SIZES:
        # --- single bright pixel is found where it is -------------------------------------------
        for y, x in [(0, 0), (1, 2), (ny // 2, nx // 2), (ny - 2, nx - 1), (ny - 1, nx - 1)]:
            img = numpy.zeros((ny, nx), dtype=dtype)
            img[y, x] = bright
            got = cog(img)
            check(close(got, (x, y)),
                  "%s %dx%d: centre_of_gravity of one pixel of value %s at (x=%d, y=%d) -> (%.4f, %.4f)"
                  % (dtype, ny, nx, bright, x, y, got[0], got[1]))
            got = bpx(img, 2.2 / (ny * nx))          # two brightest pixels
            check(close(got, (x, y)),
                  "%s %dx%d: brightest_pixel of one pixel of value %s at (x=%d, y=%d) -> (%.4f, %.4f)"
                  % (dtype, ny, nx, bright, x, y, got[0], got[1]))
            got = cog(numpy.array([img, img]), 0.3)
            check(close(got[:, 1], (x, y)),
                  "%s %dx%d: thresholded stack centre_of_gravity of one pixel at (x=%d, y=%d) -> (%.4f, %.4f)"
                  % (dtype, ny, nx, x, y, got[0, 1], got[1, 1]))

        # --- scale, shift and batch on a small spot ----------------------------------------------
        base = blob(ny, nx, peak, dtype, 2, 2)
        for thr in (0, 0.15):
            c0 = cog(base, thr)
            ck = cog(base * numpy.asarray(k, dtype=base.dtype), thr)
            check(close(c0, ck),
                  "%s %dx%d thr=%s: centre_of_gravity changes under x%s: (%.4f, %.4f) -> (%.4f, %.4f)"
                  % (dtype, ny, nx, thr, k, c0[0], c0[1], ck[0], ck[1]))
            for dy, dx in [(1, 0), (0, 2), (ny - 5, nx - 5)]:
                moved = blob(ny, nx, peak, dtype, 2 + dy, 2 + dx)
                cm = cog(moved, thr)
                check(close(cm - c0, (dx, dy)),
                      "%s %dx%d thr=%s: content moved by (dx=%d, dy=%d) but centre_of_gravity moved by (%.4f, %.4f)"
                      % (dtype, ny, nx, thr, dx, dy, cm[0] - c0[0], cm[1] - c0[1]))
            far = blob(ny, nx, peak, dtype, ny - 3, nx - 3)
            stack = numpy.array([base, far, base * numpy.asarray(k, dtype=base.dtype)])
            cs = cog(stack, thr)
            for i in range(len(stack)):
                ci = cog(stack[i], thr)
                check(close(cs[:, i], ci),
                      "%s %dx%d thr=%s: frame %d in a stack -> (%.4f, %.4f), alone -> (%.4f, %.4f)"
                      % (dtype, ny, nx, thr, i, cs[0, i], cs[1, i], ci[0], ci[1]))

if failures:
    print("C15 VIOLATED in %d of %d checks" % (len(failures), nchecks))
    for line in failures[:14]:
        print("  " + line)
    if len(failures) > 14:
        print("  ... (%d more)" % (len(failures) - 14))
    sys.exit(1)

print("C15 location/scale/shift/batch clauses hold on %d checks" % nchecks)
sys.exit(0)
