"""C15, correlation clause: the correlation centroid of an image displaced by s from its
reference is displaced by s from the array centre, for every image size and every padding.

Exits 0 if the clause holds on the whole grid below, 1 (listing the violations) otherwise.
"""
import sys
import numpy
from aotools import image_processing

TOL = 1e-8


def spot(ny, nx):
    """Compact, asymmetric, non-negative blob around the array centre."""
    ref = numpy.zeros((ny, nx))
    cy, cx = ny // 2, nx // 2
    ref[cy, cx] = 4.
    ref[cy, cx + 1] = 2.
    ref[cy + 1, cx] = 1.
    ref[cy - 1, cx - 1] = .5
    return ref


failures = []
ncases = 0
for ny, nx in [(8, 8), (10, 10), (7, 7), (9, 9), (8, 12), (12, 8), (8, 7), (7, 8), (9, 11), (11, 10), (13, 13)]:
    ref = spot(ny, nx)
    for padding in (1, 2, 3, 4, 5):
        for sy, sx in [(0, 0), (1, 0), (0, 1), (1, -1), (-1, 1), (-1, -1), (1, 1)]:
            im = numpy.roll(ref, (sy, sx), (0, 1))      # content stays well inside the frame
            expected = numpy.array([nx // 2 + sx, ny // 2 + sy], dtype=float)
            for label, frames in (("2d", im), ("stack", numpy.array([ref, im, im]))):
                ncases += 1
                got = image_processing.correlation_centroid(frames, ref, padding=padding)
                got = got[:, -1]
                if not numpy.allclose(got, expected, atol=TOL, rtol=0):
                    failures.append(
                        "size (ny=%d, nx=%d) padding=%d shift (sx=%d, sy=%d) [%s]: centroid (%.6f, %.6f), "
                        "expected centre + shift = (%.1f, %.1f)"
                        % (ny, nx, padding, sx, sy, label, got[0], got[1], expected[0], expected[1]))

if failures:
    print("C15 VIOLATED: correlation centroid is not 'array centre + displacement' in %d of %d cases"
          % (len(failures), ncases))
    for line in failures[:12]:
        print("  " + line)
    if len(failures) > 12:
        print("  ... (%d more)" % (len(failures) - 12))
    sys.exit(1)

print("C15 correlation clause holds on %d cases" % ncases)
sys.exit(0)
