"""
C01 demo B: slope covariance matrix for guide-star directions given as a float ndarray, several layers at altitude.

Two off-axis wavefront sensors (one NGS, one LGS) look through three layers, two of them at altitude.  All parameters
are passed as NumPy arrays (the documented types).  Every entry of the returned matrix is compared with an independent
brute-force evaluation of

    Cov(s_a, s_b) = lambda_a lambda_b / (4 pi^2 d_a d_b) * 1/2 * [ -D(a+ - b+) - D(a- - b-) + D(a+ - b-) + D(a- - b+) ]

(covariance of two finite-difference slopes of a von Karman phase at the projected sub-aperture positions), summed over
layers; the matrix is also required to be symmetric and positive semi-definite, and building it a second time from the
same parameter arrays must give the same matrix.  Exit 0 = property holds, exit 1 = violated.
"""
import sys

import numpy
import scipy.special

import aotools


def d_vk(r, r0, L0):
    r = numpy.asarray(r, dtype=float)
    out = numpy.zeros_like(r)
    nz = r > 0
    x = 2 * numpy.pi * r[nz] / L0
    out[nz] = 0.17253 * (L0 / r0) ** (5. / 3) * (
        1 - 2 ** (1. / 6) / scipy.special.gamma(5. / 6) * x ** (5. / 6) * scipy.special.kv(5. / 6, x))
    return out


def reference(masks, tel_diam, subap_diams, gs_alts, gs_pos, wavelengths, layer_alts, layer_r0s, layer_L0s):
    """Brute force: one list of slope measurements (sensor, axis, sub-aperture), one covariance per pair."""
    n_sub = [int(numpy.sum(m == 1)) for m in masks]
    total = 2 * sum(n_sub)
    cov = numpy.zeros((total, total))
    for h, r0, L0 in zip(layer_alts, layer_r0s, layer_L0s):
        plus, minus, scale = [], [], []
        for w, mask in enumerate(masks):
            d = subap_diams[w]
            centres = numpy.argwhere(mask == 1) * d - tel_diam / 2. - d / 2.
            k = 1. if gs_alts[w] == 0 else 1. - h / gs_alts[w]
            centres = k * centres + numpy.asarray(gs_pos[w], dtype=float) * numpy.pi / 180 / 3600 * h
            dd = k * d
            for axis in (0, 1):               # all x slopes of the sensor, then all y slopes
                e = numpy.zeros(2)
                e[axis] = dd / 2.
                for c in centres:
                    plus.append(c + e)
                    minus.append(c - e)
                    scale.append(wavelengths[w] / (2 * numpy.pi * dd))
        plus, minus, scale = numpy.array(plus), numpy.array(minus), numpy.array(scale)

        def dist(a, b):
            return numpy.sqrt(((a[:, None, :] - b[None, :, :]) ** 2).sum(-1))

        cov += 0.5 * numpy.outer(scale, scale) * (
            - d_vk(dist(plus, plus), r0, L0) - d_vk(dist(minus, minus), r0, L0)
            + d_vk(dist(plus, minus), r0, L0) + d_vk(dist(minus, plus), r0, L0))
    return cov


def check(tag, cov, ref):
    ok = True
    scale = numpy.abs(ref).max()
    if cov.shape != ref.shape:
        print("FAIL [{}]: shape {} instead of {}".format(tag, cov.shape, ref.shape))
        return False
    asym = numpy.abs(cov - cov.T).max() / scale
    if asym > 0:
        print("FAIL [{}]: matrix not symmetric (max asymmetry {:.3g} of the largest entry)".format(tag, asym))
        ok = False
    err = numpy.abs(cov - ref) / scale
    if err.max() > 1e-5:
        i, j = numpy.unravel_index(err.argmax(), err.shape)
        print("FAIL [{}]: entry ({}, {}) is {:.6g}, covariance of the two slopes is {:.6g} "
              "(max error {:.3g} of the largest entry, {} entries off)".format(
                  tag, i, j, cov[i, j], ref[i, j], err.max(), int((err > 1e-5).sum())))
        ok = False
    eig = numpy.linalg.eigvalsh((cov + cov.T) / 2.)
    if eig.min() < -1e-5 * eig.max():
        print("FAIL [{}]: not positive semi-definite, min eigenvalue {:.3g} (max {:.3g})".format(
            tag, eig.min(), eig.max()))
        ok = False
    if ok:
        print("ok   [{}]: max error {:.2g} of the largest entry".format(tag, err.max()))
    return ok


def main():
    tel_diam = 4.
    mask = numpy.ones((4, 4))
    mask[0, 0] = mask[0, 3] = mask[3, 0] = 0           # not point-symmetric
    masks = numpy.array([mask, mask])
    n_wfs = 2
    subap_diams = numpy.array([1., 1.])
    gs_alts = numpy.array([0., 90000.])
    gs_pos = numpy.array([[20., -35.], [-40., 10.]])   # arcsec, float64 ndarray
    wavelengths = numpy.array([600e-9, 589e-9])
    layer_alts = numpy.array([0., 5000., 12000.])
    layer_r0s = numpy.array([0.2, 0.4, 0.6])
    layer_L0s = numpy.array([25., 30., 50.])

    # the specification of the problem, kept apart from what is handed to the library
    spec = [numpy.array(a, copy=True) for a in
            (masks, subap_diams, gs_alts, gs_pos, wavelengths, layer_alts, layer_r0s, layer_L0s)]
    ref = reference(spec[0], tel_diam, *spec[1:])

    def build():
        builder = aotools.CovarianceMatrix(
            n_wfs, masks, tel_diam, subap_diams, gs_alts, gs_pos, wavelengths,
            len(layer_alts), layer_alts, layer_r0s, layer_L0s)
        return numpy.asarray(builder.make_covariance_matrix(), dtype=float)

    first = build()
    ok = check("first build", first, ref)
    second = build()
    ok = check("second build, same parameter arrays", second, ref) and ok
    if not numpy.array_equal(first, second):
        print("FAIL: two builds from the same parameters differ by up to {:.3g} of the largest entry".format(
            numpy.abs(first - second).max() / numpy.abs(ref).max()))
        ok = False

    if ok:
        print("OK: ndarray-parameterised 2-sensor, 3-layer matrix equals the slope covariances")
        return 0
    return 1


if __name__ == "__main__":
    sys.exit(main())
