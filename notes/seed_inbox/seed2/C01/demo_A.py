"""
C01 demo A: slope covariance matrix of sensors with DIFFERENT numbers of active sub-apertures.

Builds the matrix for three wavefront sensors whose (non point-symmetric) masks have 13, 16 and 10 active
sub-apertures and compares every entry with an independent brute-force evaluation of

    Cov(s_a, s_b) = lambda_a lambda_b / (4 pi^2 d_a d_b) * 1/2 * [ -D(a+ - b+) - D(a- - b-) + D(a+ - b-) + D(a- - b+) ]

(the covariance of two finite-difference slopes of a von Karman phase, D = von Karman structure function), summed
over layers, with the rows/columns ordered per sensor as all x-slopes then all y-slopes.  Also checks symmetry and
positive semi-definiteness.  Exit 0 = property holds, exit 1 = violated.
"""
import sys

import numpy
import scipy.special

import aotools


def d_vk(r, r0, L0):
    r = numpy.asarray(r, dtype=float)
    out = numpy.zeros_like(r)
    nz = r > 0
    x = 2 * numpy.pi * r[nz] / L0
    out[nz] = 0.17253 * (L0 / r0) ** (5. / 3) * (
        1 - 2 ** (1. / 6) / scipy.special.gamma(5. / 6) * x ** (5. / 6) * scipy.special.kv(5. / 6, x))
    return out


def reference(masks, tel_diam, subap_diams, gs_alts, gs_pos, wavelengths, layer_alts, layer_r0s, layer_L0s):
    """Brute force: one list of slope measurements (sensor, axis, sub-aperture), one covariance per pair."""
    n_sub = [int(numpy.sum(m == 1)) for m in masks]
    total = 2 * sum(n_sub)
    cov = numpy.zeros((total, total))
    for h, r0, L0 in zip(layer_alts, layer_r0s, layer_L0s):
        plus, minus, scale = [], [], []
        for w, mask in enumerate(masks):
            d = subap_diams[w]
            centres = numpy.argwhere(mask == 1) * d - tel_diam / 2. - d / 2.
            k = 1. if gs_alts[w] == 0 else 1. - h / gs_alts[w]
            centres = k * centres + numpy.asarray(gs_pos[w], dtype=float) * numpy.pi / 180 / 3600 * h
            dd = k * d
            for axis in (0, 1):               # all x slopes of the sensor, then all y slopes
                e = numpy.zeros(2)
                e[axis] = dd / 2.
                for c in centres:
                    plus.append(c + e)
                    minus.append(c - e)
                    scale.append(wavelengths[w] / (2 * numpy.pi * dd))
        plus, minus, scale = numpy.array(plus), numpy.array(minus), numpy.array(scale)

        def dist(a, b):
            return numpy.sqrt(((a[:, None, :] - b[None, :, :]) ** 2).sum(-1))

        cov += 0.5 * numpy.outer(scale, scale) * (
            - d_vk(dist(plus, plus), r0, L0) - d_vk(dist(minus, minus), r0, L0)
            + d_vk(dist(plus, minus), r0, L0) + d_vk(dist(minus, plus), r0, L0))
    return cov


def main():
    tel_diam = 4.
    m0 = numpy.ones((4, 4))
    m0[0, 0] = m0[0, 1] = m0[3, 0] = 0                 # 13 sub-apertures, not point-symmetric
    m1 = numpy.ones((4, 4))                            # 16 sub-apertures
    m2 = numpy.ones((4, 4))
    m2[0, :] = 0
    m2[1, 3] = m2[2, 3] = 0                            # 10 sub-apertures
    masks = [m0, m1, m2]
    n_wfs = 3
    subap_diams = [1., 1., 1.]
    gs_alts = [0, 90000., 0]
    gs_pos = [[0., 0.], [12., -7.], [-9., 15.]]
    wavelengths = [500e-9, 589e-9, 1650e-9]
    layer_alts = [0., 4000., 11000.]
    layer_r0s = [0.2, 0.45, 0.7]
    layer_L0s = [25., 40., 12.]

    builder = aotools.CovarianceMatrix(
        n_wfs, masks, tel_diam, subap_diams, gs_alts, gs_pos, wavelengths,
        len(layer_alts), layer_alts, layer_r0s, layer_L0s)
    cov = numpy.asarray(builder.make_covariance_matrix(), dtype=float)
    ref = reference(masks, tel_diam, subap_diams, gs_alts, gs_pos, wavelengths, layer_alts, layer_r0s, layer_L0s)

    ok = True
    if cov.shape != ref.shape:
        print("FAIL: shape {} instead of {}".format(cov.shape, ref.shape))
        return 1
    scale = numpy.abs(ref).max()

    asym = numpy.abs(cov - cov.T).max() / scale
    if asym > 0:
        print("FAIL: matrix not symmetric (max asymmetry {:.3g} of the largest entry)".format(asym))
        ok = False

    err = numpy.abs(cov - ref) / scale
    if err.max() > 1e-5:
        i, j = numpy.unravel_index(err.argmax(), err.shape)
        print("FAIL: entry ({}, {}) is {:.6g}, covariance of the two slopes is {:.6g} "
              "(max error {:.3g} of the largest entry, {} entries off)".format(
                  i, j, cov[i, j], ref[i, j], err.max(), int((err > 1e-5).sum())))
        ok = False

    eig = numpy.linalg.eigvalsh((cov + cov.T) / 2.)
    if eig.min() < -1e-5 * eig.max():
        print("FAIL: not positive semi-definite, min eigenvalue {:.3g} (max {:.3g})".format(eig.min(), eig.max()))
        ok = False

    if ok:
        print("OK: {}x{} matrix of sensors with {} sub-apertures matches the slope covariances "
              "(max error {:.2g} of the largest entry)".format(cov.shape[0], cov.shape[1], builder.n_subaps.tolist(), err.max()))
        return 0
    return 1


if __name__ == "__main__":
    sys.exit(main())
