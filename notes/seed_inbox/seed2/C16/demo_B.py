"""
C16 demo B: spline zoom, for BOTH entry points (zoom and zoom_rbs) and spline orders 1, 3, 5
  * returns the input when the size is unchanged,
  * passes through the original samples when the new grid contains the old nodes,
  * is exact for polynomials up to the requested spline order,
  * treats complex data as real + i*imag.

Exits 0 if the property holds, 1 (with a message) otherwise.
"""
import itertools
import sys

import numpy

from aotools import interpolation

TOL = 1e-9   # relative to the data scale (values are O(1))


def poly2d(coeffs, tx, ty):
    """sum_ij c[i, j] tx^i ty^j on the outer grid of tx, ty (tx, ty in [0, 1])"""
    out = numpy.zeros((len(tx), len(ty)))
    for i, j in itertools.product(range(coeffs.shape[0]), range(coeffs.shape[1])):
        out += coeffs[i, j] * numpy.outer(tx ** i, ty ** j)
    return out


def main():
    rng = numpy.random.RandomState(1605)
    failures = []
    entry_points = [("zoom", interpolation.zoom), ("zoom_rbs", interpolation.zoom_rbs)]

    for (name, fn), order in itertools.product(entry_points, (1, 3, 5)):
        for N in (8, 13):
            data = rng.normal(size=(N, N))

            # unchanged size -> the input
            same = fn(data, (N, N), order=order)
            if same.shape != (N, N) or numpy.abs(same - data).max() > TOL:
                failures.append("%s order=%d N=%d: same-size zoom is not the input" % (name, order, N))

            # new grid contains the old nodes -> original samples are passed through
            for k in (2, 3):
                M = k * (N - 1) + 1
                up = fn(data, M, order=order)
                if up.shape != (M, M) or numpy.abs(up[::k, ::k] - data).max() > TOL:
                    failures.append("%s order=%d N=%d->%d: original samples not passed through"
                                    % (name, order, N, M))

            # exact for polynomials of every degree up to the spline order
            t_old = numpy.linspace(0, 1, N)
            for M in (N + 5, 2 * N + 3):
                t_new = numpy.linspace(0, 1, M)
                for deg in range(order + 1):
                    coeffs = numpy.zeros((deg + 1, deg + 1))
                    coeffs[:, :] = rng.uniform(-1, 1, coeffs.shape)
                    coeffs[deg, deg] = 1.0       # make sure the top degree is really present
                    got = fn(poly2d(coeffs, t_old, t_old), (M, M), order=order)
                    want = poly2d(coeffs, t_new, t_new)
                    err = numpy.abs(got - want).max()
                    if err > TOL:
                        failures.append(
                            "%s order=%d N=%d->%d: degree-%d polynomial not reproduced (max error %.3g)"
                            % (name, order, N, M, deg, err))

            # complex data = real + i * imag
            for ctype in (numpy.complex128, numpy.complex64):
                z = (rng.normal(size=(N, N)) + 1j * rng.normal(size=(N, N))).astype(ctype)
                M = N + 7
                got = fn(z, (M, M), order=order)
                want = (fn(numpy.array(z.real, dtype=float), (M, M), order=order)
                        + 1j * fn(numpy.array(z.imag, dtype=float), (M, M), order=order))
                if not numpy.iscomplexobj(got) or numpy.abs(got - want).max() > TOL:
                    failures.append("%s order=%d N=%d %s: complex zoom is not real + i*imag"
                                    % (name, order, N, numpy.dtype(ctype).name))

    if failures:
        print("C16 VIOLATED: spline zoom does not preserve image content")
        for f in failures:
            print("  - " + f)
        return 1
    print("C16 ok: zoom / zoom_rbs identity, node pass-through, polynomial exactness, complex handling")
    return 0


if __name__ == "__main__":
    sys.exit(main())
