"""
C16 demo A: binning by n returns exactly the n x n block sums (flux preserved),
for single images and for stacks -- also when the image has a large dynamic range
(a bright star on a faint sky background).

Exits 0 if the property holds, 1 (with a message) otherwise.
"""
import math
import sys

import numpy

from aotools import interpolation

RTOL = 1e-9   # per-block relative tolerance: far above float64 rounding of a handful of additions


def reference_bin(img, n):
    """n x n block sums, every block summed on its own with exact (fsum) arithmetic"""
    h, w = img.shape
    out = numpy.zeros((h // n, w // n))
    for r in range(h // n):
        for c in range(w // n):
            out[r, c] = math.fsum(img[r * n:(r + 1) * n, c * n:(c + 1) * n].ravel().tolist())
    return out


def check(name, img, n, failures):
    got = interpolation.binImgs(img, n)
    if img.ndim == 2:
        ref = reference_bin(img, n)
    else:
        ref = numpy.array([reference_bin(frame, n) for frame in img])
    if got.shape != ref.shape:
        failures.append("%s n=%d: shape %s, expected %s" % (name, n, got.shape, ref.shape))
        return
    err = numpy.abs(got - ref)
    bad = err > RTOL * numpy.abs(ref)
    if bad.any():
        idx = numpy.unravel_index(numpy.argmax(err / numpy.maximum(numpy.abs(ref), 1e-300)), ref.shape)
        failures.append(
            "%s n=%d: %d of %d bins are not the block sum; worst bin %s: got %r, block sum is %r"
            % (name, n, bad.sum(), bad.size, tuple(int(i) for i in idx), float(got[idx]), float(ref[idx])))
    flux_in = math.fsum(img.ravel().tolist())
    flux_out = math.fsum(numpy.asarray(got, dtype=float).ravel().tolist())
    if abs(flux_in - flux_out) > 1e-12 * abs(flux_in):
        failures.append("%s n=%d: total flux %r became %r" % (name, n, flux_in, flux_out))


def main():
    rng = numpy.random.RandomState(16)
    failures = []

    # ordinary images: modest dynamic range, square and non-square, image and stack
    flat = rng.uniform(0.0, 1.0, (48, 48))
    for n in (1, 2, 3, 4, 6):
        check("uniform 48x48", flat, n, failures)
    check("uniform 30x42", rng.uniform(0.0, 1.0, (30, 42)), 6, failures)
    check("uniform stack 3x24x36", rng.uniform(0.0, 1.0, (3, 24, 36)), 4, failures)

    # integer valued counts
    counts = rng.poisson(50.0, (40, 40)).astype(float)
    check("poisson counts 40x40", counts, 5, failures)

    # a bright (1e14 counts peak) star on a sky background of order one count per pixel
    yy, xx = numpy.mgrid[0:64, 0:64]
    star = 1e14 * numpy.exp(-((xx - 21.3) ** 2 + (yy - 17.8) ** 2) / (2 * 1.5 ** 2))
    sky = rng.uniform(0.5, 1.5, (64, 64))
    bright = star + sky
    for n in (2, 4, 8):
        check("bright star 64x64", bright, n, failures)
    stack = numpy.array([sky, bright, sky[::-1].copy()])
    check("stack with one bright frame", stack, 4, failures)

    # one saturated / hot pixel in the first corner
    hot = rng.uniform(0.0, 1.0, (32, 32))
    hot[0, 0] = 1e17
    check("hot pixel 32x32", hot, 4, failures)

    if failures:
        print("C16 VIOLATED: binImgs does not return the n x n block sums")
        for f in failures:
            print("  - " + f)
        return 1
    print("C16 ok: binImgs returns the block sums (flux preserved) on all cases")
    return 0


if __name__ == "__main__":
    sys.exit(main())
