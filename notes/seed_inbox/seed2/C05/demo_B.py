"""C05 demo B: reading the screen, or printing it (repr / str / print), never alters the screen or the random
stream.  A screen that is read and printed between add_row steps must stay bit-identical to an identically seeded
twin that is only stepped -- for both variants, for sizes below and exactly at the internal working size, and at
any point of the history (before the first row, after some rows)."""
import sys
import warnings
import numpy
from aotools.turbulence import infinitephasescreen as ips

warnings.simplefilter("ignore")

CASES = [
    (ips.PhaseScreenVonKarman, (16, 0.1, 0.2, 30.), dict(n_columns=2)),
    (ips.PhaseScreenVonKarman, (17, 0.1, 0.2, 30.), dict(n_columns=3)),
    (ips.PhaseScreenKolmogorov, (16, 0.1, 0.2, 30.), dict()),                         # working size 17 > 16
    (ips.PhaseScreenKolmogorov, (17, 0.1, 0.2, 30.), dict()),                         # working size == requested
    (ips.PhaseScreenKolmogorov, (30, 0.1, 0.2, 30.), dict(stencil_length_factor=2)),  # working size 33 > 30
    (ips.PhaseScreenKolmogorov, (33, 0.1, 0.2, 30.), dict(stencil_length_factor=2)),
    (ips.PhaseScreenKolmogorov, (9, 0.1, 0.2, 30.), dict(stencil_length_factor=1)),
]


def look_at(scrn):
    """Every read-only way of looking at the screen."""
    a = scrn.scrn
    a.sum()
    repr(scrn)
    str(scrn)
    "%s" % (scrn,)
    numpy.array(scrn.scrn)


failures = []
for cls, args, kwargs in CASES:
    label = "%s%r %r" % (cls.__name__, args, kwargs)
    n = args[0]
    watched = cls(*args, random_seed=11, **kwargs)
    twin = cls(*args, random_seed=11, **kwargs)
    ok = True
    for step in range(0, 13):
        if step:
            watched.add_row()
            twin.add_row()
        before = numpy.array(watched.scrn)
        look_at(watched)
        after = numpy.array(watched.scrn)
        if after.shape != (n, n):
            failures.append("%s: step %d: shape %r after looking" % (label, step, after.shape))
            ok = False
        elif not numpy.array_equal(before, after):
            failures.append("%s: after %d add_row steps, printing changed the screen (max |change| %.3g rad)"
                            % (label, step, abs(before - after).max()))
            ok = False
        elif not numpy.array_equal(after, twin.scrn):
            failures.append("%s: after %d add_row steps the watched screen differs from its unwatched twin "
                            "(max |diff| %.3g rad)" % (label, step, abs(after - twin.scrn).max()))
            ok = False
        if not ok:
            break

if failures:
    print("C05 VIOLATED:")
    for f in failures:
        print("  " + f)
    sys.exit(1)
print("C05 (read/print purity) holds on all %d cases" % len(CASES))
sys.exit(0)
