"""C05 demo A: after any number of add_row steps the exposed screen is N x N, finite, and equals the previous
screen shifted down by one row -- for both variants and for all parameters, including a very large outer scale
(the usual way of asking for "Kolmogorov" turbulence) and fine pixel scales."""
import sys
import warnings
import numpy
from aotools.turbulence import infinitephasescreen as ips

warnings.simplefilter("ignore")

CASES = [
    # (class, args, kwargs)
    (ips.PhaseScreenVonKarman, (32, 0.25, 0.2, 40.), dict(n_columns=2)),
    (ips.PhaseScreenVonKarman, (33, 0.05, 0.15, 100.), dict(n_columns=4)),
    (ips.PhaseScreenVonKarman, (32, 0.05, 0.15, 1e4), dict(n_columns=2)),
    (ips.PhaseScreenVonKarman, (64, 0.02, 0.15, 1e4), dict(n_columns=2)),
    (ips.PhaseScreenVonKarman, (32, 0.01, 0.15, 1e5), dict(n_columns=4)),
    (ips.PhaseScreenKolmogorov, (32, 0.25, 0.2, 40.), dict()),
    (ips.PhaseScreenKolmogorov, (30, 0.05, 0.15, 100.), dict(stencil_length_factor=2)),
    (ips.PhaseScreenKolmogorov, (17, 0.05, 0.15, 1e5), dict()),
    (ips.PhaseScreenKolmogorov, (40, 0.05, 0.15, 1e5), dict()),
    (ips.PhaseScreenKolmogorov, (33, 0.01, 0.15, 1e5), dict(stencil_length_factor=1)),
]

failures = []
for cls, args, kwargs in CASES:
    label = "%s%r %r" % (cls.__name__, args, kwargs)
    n = args[0]
    scrn = cls(*args, random_seed=5, **kwargs)
    prev = numpy.array(scrn.scrn)
    if prev.shape != (n, n) or not numpy.isfinite(prev).all():
        failures.append("%s: initial screen shape %r / finite %s" % (label, prev.shape, numpy.isfinite(prev).all()))
        continue
    for step in range(1, 41):
        out = scrn.add_row()
        cur = numpy.array(scrn.scrn)
        if cur.shape != (n, n) or numpy.shape(out) != (n, n):
            failures.append("%s: step %d shape %r" % (label, step, cur.shape))
            break
        if not numpy.isfinite(cur).all():
            failures.append("%s: step %d: %d non-finite values in the exposed screen (row 0: %r ...)"
                            % (label, step, (~numpy.isfinite(cur)).sum(), cur[0, :4]))
            break
        if not numpy.array_equal(cur[1:], prev[:-1]):
            failures.append("%s: step %d: old rows are not the previous screen shifted by one" % (label, step))
            break
        prev = cur

if failures:
    print("C05 VIOLATED:")
    for f in failures:
        print("  " + f)
    sys.exit(1)
print("C05 holds on all %d cases" % len(CASES))
sys.exit(0)
