"""C13 demo B: Karhunen-Loeve modes must diagonalise the Kolmogorov phase covariance
for EVERY radial sampling nr (even or odd), every obscuration and mode count.

For each basis the polar functions K_i are taken on their native (equal-area) polar grid and

    C_ij = -1/2 * < < K_i(x) D(|x - x'|) K_j(x') > >       (double pupil average)

with the Kolmogorov structure function D(rho) = 6.88 (rho / r0)^(5/3), D/r0 = 1, is compared with
diag(returned variances).  Orthonormality, zero mean and the ordering of the variances are
checked as well.  Exit 0 when every case holds, 1 otherwise.
"""
import contextlib
import io
import sys
import warnings

import numpy as np

warnings.simplefilter("ignore")
from aotools.functions import karhunenLoeve as KL  # noqa: E402


def quiet(f, *a, **k):
    with contextlib.redirect_stdout(io.StringIO()):
        return f(*a, **k)


def check_basis(tag, bas, variances, rtol):
    """return list of failure strings for one polar basis"""
    fails = []
    nr, npp, nf, ri = bas['nr'], bas['np'], bas['nfunc'], bas['ri']
    K = np.array([KL.gkl_sfi(bas, i) for i in range(nf)]).reshape(nf, -1)
    npts = nr * npp

    # native polar grid: equal-area rings (plain mean == pupil average)
    r = np.asarray(bas['radp'])
    th = np.arange(npp) * 2 * np.pi / npp
    x = (r[:, None] * np.cos(th)[None, :]).ravel()
    y = (r[:, None] * np.sin(th)[None, :]).ravel()
    if not (np.all(r > ri) and np.all(r < 1)):
        fails.append("%s: polar radii outside the annulus" % tag)

    gram = K @ K.T / npts
    e = np.abs(gram - np.eye(nf)).max()
    if e > 1e-8:
        fails.append("%s: not orthonormal, max |<KiKj> - delta| = %.3g" % (tag, e))
    e = np.abs(K.mean(axis=1)).max()
    if e > 1e-8:
        fails.append("%s: not piston free, max |mean| = %.3g" % (tag, e))

    v = np.asarray(variances)
    if not np.all(v > 0):
        fails.append("%s: non-positive variance" % tag)
    if not np.all(np.diff(v) <= 1e-12 * v[0]):
        fails.append("%s: variances not in non-increasing order" % tag)
    if nf >= 2 and abs(v[0] - v[1]) > 1e-12 * v[0]:
        fails.append("%s: tip and tilt variances differ" % tag)

    # separations in units of the diameter (pupil radius is 1)
    rho = 0.5 * np.hypot(x[:, None] - x[None, :], y[:, None] - y[None, :])
    D = 6.88 * rho ** (5. / 3)
    C = -0.5 * (K @ D @ K.T) / npts ** 2
    err = np.abs(C - np.diag(v))
    scale = np.sqrt(np.outer(v, v))          # natural size of entry (i, j)
    rel = (err / scale).max()
    i, j = np.unravel_index(np.argmax(err / scale), err.shape)
    if rel > rtol:
        fails.append("%s: covariance NOT diagonalised to the returned variances: "
                     "entry (%d,%d) = %.6g, expected %.6g (rel. dev. %.3g > %.3g)"
                     % (tag, i, j, C[i, j], np.diag(v)[i, j], rel, rtol))
    return fails, rel


def main():
    fails = []
    # (ri, nr, nmax) -- even and odd radial samplings
    cases = [(0.2, 10, 12), (0.2, 11, 12), (0.5, 12, 10), (0.5, 13, 10),
             (0.35, 14, 15), (0.35, 15, 15), (0.7, 9, 8), (0.1, 17, 14)]
    for ri, nr, nmax in cases:
        # (a) polar basis with the default azimuthal sampling
        bas = quiet(KL.gkl_basis, ri, nr, None, nmax)
        f, rel_a = check_basis("gkl_basis(ri=%g, nr=%d, nfunc=%d)" % (ri, nr, nmax),
                               bas, bas['evals'], 2e-3)
        fails += f
        # (b) the basis make_kl returns (azimuthal sampling int(2 pi nr))
        kl, var, pupil, pb = quiet(KL.make_kl, nmax, 32, ri=ri, nr=nr)
        f, rel_b = check_basis("make_kl(nmax=%d, dim=32, ri=%g, nr=%d)" % (nmax, ri, nr),
                               pb, var, 5e-3)
        fails += f
        print("ri=%-5g nr=%-3d nmax=%-3d  max rel. deviation of covariance from diag(var): "
              "gkl_basis %.2e   make_kl %.2e" % (ri, nr, nmax, rel_a, rel_b))

    if fails:
        print("\nPROPERTY C13 VIOLATED:")
        for f in fails:
            print("  -", f)
        return 1
    print("all Karhunen-Loeve bases orthonormal, piston free and diagonalise the Kolmogorov covariance")
    return 0


if __name__ == "__main__":
    sys.exit(main())
