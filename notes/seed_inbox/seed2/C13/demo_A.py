"""C13 demo A: the Cartesian rendering of the Karhunen-Loeve modes.

For every call make_kl(nmax, dim, ri, nr) -- whatever was computed before in the same process --
  * the returned pupil is the indicator of the annulus ri <= r <= 1 on the pixel-centre grid,
  * the (masked) modes vanish outside that annulus,
  * inside, each mode follows its polar function (values on the native polar grid, returned in
    polar_base) at the pixel's (r, theta), to within the resampling error,
  * the polar functions themselves are orthonormal and piston free.
A few bases with different obscurations are generated one after the other, as a program
comparing telescopes would do.  Exit 0 when all hold, 1 otherwise.
"""
import contextlib
import io
import sys
import warnings

import numpy as np

warnings.simplefilter("ignore")
from aotools.functions import karhunenLoeve as KL  # noqa: E402


def quiet(f, *a, **k):
    with contextlib.redirect_stdout(io.StringIO()):
        return f(*a, **k)


def polar_at(bas, i, r, theta):
    """bilinear (periodic in theta) evaluation of polar mode i at the points (r, theta)"""
    nr, npp = bas['nr'], bas['np']
    f = KL.gkl_sfi(bas, i)                      # (nr, npp) on the native grid
    r2 = np.asarray(bas['radp']) ** 2           # equally spaced in r^2
    u = np.clip((r ** 2 - r2[0]) / (r2[1] - r2[0]), 0, nr - 1)
    i0 = np.minimum(u.astype(int), nr - 2)
    fu = u - i0
    t = (theta % (2 * np.pi)) / (2 * np.pi) * npp
    j0 = np.floor(t).astype(int) % npp
    ft = t - np.floor(t)
    j1 = (j0 + 1) % npp
    return ((1 - fu) * (1 - ft) * f[i0, j0] + fu * (1 - ft) * f[i0 + 1, j0]
            + (1 - fu) * ft * f[i0, j1] + fu * ft * f[i0 + 1, j1])


def check_call(nmax, dim, ri, nr):
    tag = "make_kl(nmax=%d, dim=%d, ri=%g, nr=%d)" % (nmax, dim, ri, nr)
    fails = []
    kl, var, pupil, bas = quiet(KL.make_kl, nmax, dim, ri=ri, nr=nr)

    # pixel-centre coordinates, pupil radius = dim / 2 pixels (x along the second axis)
    c = (np.arange(dim) - 0.5 * (dim - 1)) / (0.5 * dim)
    x, y = np.meshgrid(c, c)
    rr = np.hypot(x, y)
    th = np.arctan2(y, x)
    # leave out pixels within rounding of the edges
    sure_in = (rr > ri + 1e-9) & (rr < 1 - 1e-9)
    sure_out = (rr < ri - 1e-9) | (rr > 1 + 1e-9)

    bad = int(np.sum(pupil[sure_in] != 1) + np.sum(pupil[sure_out] != 0))
    if bad:
        fails.append("%s: returned pupil differs from the annulus indicator at %d pixels "
                     "(pupil has %d pixels, annulus %d)"
                     % (tag, bad, int(pupil.sum()), int(np.sum(rr >= ri) - np.sum(rr > 1))))
    leak = np.abs(kl[:, sure_out]).max()
    if leak > 0:
        fails.append("%s: masked modes are non-zero outside the annulus (max |kl| = %.3g)"
                     % (tag, leak))

    # modes have unit rms over the pupil: compare rendering and polar function in rms
    # (pixels well inside the annulus: the outermost / innermost ring is extrapolated)
    d = (1 - ri ** 2) / nr
    core = (rr ** 2 > ri ** 2 + d) & (rr ** 2 < 1 - 2 * d)
    worst, wi = 0., -1
    for i in range(nmax):
        want = polar_at(bas, i, rr[core], th[core])
        got = kl[i][core]
        e = np.sqrt(np.mean((got - want) ** 2))
        if e > worst:
            worst, wi = e, i
    if worst > 0.08:
        fails.append("%s: Cartesian mode %d does not follow its polar function: "
                     "rms difference %.3g (modes have unit rms)" % (tag, wi, worst))

    # the polar functions themselves
    K = np.array([KL.gkl_sfi(bas, i) for i in range(nmax)]).reshape(nmax, -1)
    g = np.abs(K @ K.T / K.shape[1] - np.eye(nmax)).max()
    m = np.abs(K.mean(axis=1)).max()
    if g > 1e-8 or m > 1e-8:
        fails.append("%s: polar functions not orthonormal / piston free (%.3g, %.3g)" % (tag, g, m))
    if not (np.all(var > 0) and np.all(np.diff(var) <= 1e-12)):
        fails.append("%s: variances not positive and non-increasing" % tag)
    print("%-46s pupil mismatches %-5d leak %.2e  worst rms(render - polar) %.3f"
          % (tag, bad, leak, worst))
    return fails


def main():
    fails = []
    # (nmax, dim, ri, nr), generated one after the other in the same process
    sequence = [(12, 48, 0.2, 16), (12, 48, 0.5, 16), (12, 48, 0.35, 16),
                (10, 33, 0.6, 12), (10, 33, 0.15, 12), (12, 48, 0.2, 16)]
    for nmax, dim, ri, nr in sequence:
        fails += check_call(nmax, dim, ri, nr)
    if fails:
        print("\nPROPERTY C13 VIOLATED:")
        for f in fails:
            print("  -", f)
        return 1
    print("pupil, masking and Cartesian rendering are right for every basis of the sequence")
    return 0


if __name__ == "__main__":
    sys.exit(main())
