"""
C02 demo A -- every reconstructor handed out by CovarianceMatrix.make_tomographic_reconstructor must be the
minimum-variance estimator of the covariance matrix the object currently holds, however the object got there.

A CovarianceMatrix object is re-used for a sequence of asterisms (the public geometry attributes are changed and
make_covariance_matrix() is called again, as the library's own multithreading test does with `threads`).  After every
rebuild the returned R is checked against the property:

  * normal equations  R * C_off,off = C_on,off  on the covariance matrix just built (zero conditioning, well
    conditioned C_off,off -> equality to single-precision rounding), and, with conditioning, on the retained
    singular subspace;
  * in the last configuration the on-axis sensor duplicates off-axis sensor 1 (same direction, mask, wavelength), so
    R must reproduce that sensor's slopes and give zero weight to the others.

The sequence is run with the serial builder (threads=1) and with the multiprocessing builder (threads=2).

Exit status 0 = property holds, 1 = violated.
"""
import sys

import numpy

import aotools
from aotools.turbulence.slopecovariance import CovarianceMatrix

NX = 6
TEL_DIAM = 4.2
N_WFS = 3

ASTERISMS = [
    [[0., 0.], [25., 0.], [-25., 0.]],
    [[0., 0.], [0., 12.], [9., -9.]],
    [[5., 5.], [5., 5.], [-20., 10.]],      # on-axis direction duplicated by off-axis sensor 1
]


def normal_equation_residual(recon, cov, n_on, conditioning):
    cov = numpy.asarray(cov, dtype=float)
    recon = numpy.asarray(recon, dtype=float)
    c_onoff = cov[:n_on, n_on:]
    c_offoff = cov[n_on:, n_on:]
    # projector on the singular subspace that the conditioning retains
    u, s, vt = numpy.linalg.svd(c_offoff)
    keep = s > conditioning * s.max()
    proj = (u[:, keep]).dot(u[:, keep].T)
    res = (recon.dot(c_offoff) - c_onoff).dot(proj)
    return numpy.linalg.norm(res) / numpy.linalg.norm(c_onoff)


def run_sequence(threads):
    failures = []
    mask = aotools.circle(NX / 2., NX)
    system = CovarianceMatrix(
        N_WFS, [mask] * N_WFS, TEL_DIAM, [TEL_DIAM / NX] * N_WFS, [90000.] * N_WFS, ASTERISMS[0],
        [500e-9] * N_WFS, 2, [0., 8000.], [0.15, 0.3], [25., 25.], threads)
    n_on = 2 * int(system.n_subaps[0])

    for step, asterism in enumerate(ASTERISMS):
        system.gs_positions = asterism
        cov = system.make_covariance_matrix()
        for conditioning in (0, 1e-3):
            recon = system.make_tomographic_reconstructor(svd_conditioning=conditioning)
            rel = normal_equation_residual(recon, cov, n_on, conditioning)
            print("threads=%d  asterism %d  conditioning %-6g  normal-equation residual %.3e"
                  % (threads, step, conditioning, rel))
            if not rel < 2e-3:
                failures.append(
                    "threads=%d, asterism %d, conditioning %g: R does not satisfy the normal equations of the "
                    "current covariance matrix (rel. residual %.3e)" % (threads, step, conditioning, rel))

    # last asterism: duplicated direction
    recon = numpy.asarray(system.make_tomographic_reconstructor(), dtype=float)
    expected = numpy.zeros_like(recon)
    expected[:, :n_on] = numpy.eye(n_on)
    err = abs(recon - expected).max()
    print("threads=%d  duplicated direction: max |R - [I 0]| = %.3e" % (threads, err))
    if not err < 2e-3:
        failures.append("threads=%d: on-axis sensor duplicating off-axis sensor 1 is not reproduced "
                        "(max deviation from [I 0] %.3e)" % (threads, err))
    return failures


def main():
    failures = []
    for threads in (1, 2):
        failures += run_sequence(threads)

    if failures:
        print("PROPERTY C02 VIOLATED:")
        for f in failures:
            print("  - " + f)
        return 1
    print("PROPERTY C02 holds")
    return 0


if __name__ == "__main__":
    sys.exit(main())
