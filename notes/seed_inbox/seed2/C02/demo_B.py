"""
C02 demo B -- the tomographic reconstructor built end-to-end through CovarianceMatrix must be the minimum-variance
estimator for the geometry it was given, including natural-guide-star sensors (gs_altitude == 0) observing through
an atmosphere with several elevated layers.

Two checks of the property, neither of which looks at how the builder is implemented:

 1. Turbulence layers are statistically independent, so the true slope covariance of a multi-layer atmosphere is the
    sum of the single-layer covariances.  The reconstructor returned for the multi-layer system must therefore satisfy
    the normal equations  R * C_off,off = C_on,off  of that summed covariance (zero conditioning, C_off,off well
    conditioned -> equality to single-precision rounding).

 2. Duplicate clause: the on-axis sensor is a natural guide star; off-axis sensor 1 looks in exactly the same direction
    with the same mask and wavelength (its source altitude is given explicitly as a very large number instead of the
    "0 means infinity" shorthand).  R must reproduce that sensor's slopes and give zero weight to the other sensors.

Exit status 0 = property holds, 1 = violated.
"""
import sys

import numpy

import aotools
from aotools.turbulence.slopecovariance import CovarianceMatrix

NX = 6
TEL_DIAM = 4.2
WAVELENGTH = 500e-9


def build(gs_altitudes, gs_positions, layer_altitudes, layer_r0s, layer_L0s):
    n_wfs = len(gs_altitudes)
    mask = aotools.circle(NX / 2., NX)
    cov = CovarianceMatrix(
        n_wfs, [mask] * n_wfs, TEL_DIAM, [TEL_DIAM / NX] * n_wfs, gs_altitudes, gs_positions,
        [WAVELENGTH] * n_wfs, len(layer_altitudes), layer_altitudes, layer_r0s, layer_L0s, 1)
    cov.make_covariance_matrix()
    return cov


def main():
    failures = []

    layer_altitudes = [4000., 9000.]
    layer_r0s = [0.2, 0.3]
    layer_L0s = [25., 30.]

    # ---- check 1: normal equations against the layer-by-layer (independent layers) covariance, all-NGS asterism
    gs_positions = [[0., 0.], [20., 0.], [-10., 17.], [-10., -17.]]
    gs_altitudes = [0, 0, 0, 0]
    system = build(gs_altitudes, gs_positions, layer_altitudes, layer_r0s, layer_L0s)
    n_on = 2 * int(system.n_subaps[0])
    recon = numpy.asarray(system.make_tomographic_reconstructor(), dtype=float)

    cov_true = numpy.zeros(system.covariance_matrix.shape)
    for alt, r0, L0 in zip(layer_altitudes, layer_r0s, layer_L0s):
        cov_true += build(gs_altitudes, gs_positions, [alt], [r0], [L0]).covariance_matrix

    c_onoff = cov_true[:n_on, n_on:]
    c_offoff = cov_true[n_on:, n_on:]
    rel = numpy.linalg.norm(recon.dot(c_offoff) - c_onoff) / numpy.linalg.norm(c_onoff)
    print("check 1: |R C_off,off - C_on,off| / |C_on,off| = %.3e   (cond C_off,off = %.1e)"
          % (rel, numpy.linalg.cond(c_offoff)))
    if not rel < 2e-3:
        failures.append("normal equations violated for an NGS asterism above two elevated layers (rel. residual %.3e)"
                        % rel)

    # the estimator must not be beaten by the least-squares solution of the true statistics
    best = c_onoff.dot(numpy.linalg.pinv(c_offoff))
    c_onon = cov_true[:n_on, :n_on]

    def residual_variance(r):
        return numpy.trace(c_onon - r.dot(c_onoff.T) - c_onoff.dot(r.T) + r.dot(c_offoff).dot(r.T))

    v_recon, v_best = residual_variance(recon), residual_variance(best)
    print("         residual variance  returned R: %.6e   optimum: %.6e" % (v_recon, v_best))
    if not v_recon <= v_best * (1 + 1e-3):
        failures.append("returned R is not minimum variance: residual %.6e > optimum %.6e" % (v_recon, v_best))

    # ---- check 2: on-axis NGS duplicated by an off-axis sensor in the same direction
    gs_positions = [[12., -7.], [12., -7.], [-10., 17.], [-10., -17.]]
    gs_altitudes = [0, 1e15, 0, 0]
    system = build(gs_altitudes, gs_positions, layer_altitudes, layer_r0s, layer_L0s)
    n_on = 2 * int(system.n_subaps[0])
    recon = numpy.asarray(system.make_tomographic_reconstructor(), dtype=float)
    expected = numpy.zeros_like(recon)
    expected[:, :n_on] = numpy.eye(n_on)
    err = abs(recon - expected).max()
    print("check 2: max |R - [I 0 0]| for a duplicated direction = %.3e" % err)
    if not err < 2e-3:
        failures.append("on-axis NGS duplicated by an off-axis sensor is not reproduced (max dev. %.3e)" % err)

    if failures:
        print("PROPERTY C02 VIOLATED:")
        for f in failures:
            print("  - " + f)
        return 1
    print("PROPERTY C02 holds")
    return 0


if __name__ == "__main__":
    sys.exit(main())
