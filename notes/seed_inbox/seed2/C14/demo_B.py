"""C14 -- findActiveSubaps must return exactly the grid cells whose mean mask value is
>= threshold, for every threshold (in particular thresholds that coincide with a cell's
own fill factor, e.g. "keep the N best-lit sub-apertures"), the set must shrink
monotonically with the threshold, and the fills must agree with computeFillFactor."""
import sys
import numpy
from aotools import circle, wfs


def oracle(mask, subaps, threshold):
    """Cells (row-major) whose mean mask value is >= threshold; mask size is a multiple of subaps."""
    cx = mask.shape[0] // subaps
    cy = mask.shape[1] // subaps
    means = numpy.array([[mask[i * cx:(i + 1) * cx, j * cy:(j + 1) * cy].mean()
                          for j in range(subaps)] for i in range(subaps)])
    sel = means >= threshold
    ii, jj = numpy.nonzero(sel)
    coords = numpy.stack([ii * float(cx), jj * float(cy)], axis=1) if len(ii) else numpy.zeros((0, 2))
    return coords, means[sel], means


def geometries():
    # (label, mask, subaps) -- all with mask size a multiple of the sub-aperture count
    yield "circle(50,100), 10x10 subaps", circle(50, 100), 10
    yield "circle(32,64), 8x8 subaps", circle(32, 64), 8
    yield "circle(20,40), 8x8 subaps", circle(20, 40), 8
    yield "annulus 70px, 7x7 subaps", circle(35, 70) - circle(9, 70), 7
    yield "off-centre circle(23.5,50,(1.5,-2)), 10x10", circle(23.5, 50, (1.5, -2)), 10
    for r in (21.0, 22.5, 24.0, 25.0):
        yield "circle(%g,50), 10x10 subaps" % r, circle(r, 50), 10
    for r in (44.0, 47.5, 49.0):
        yield "circle(%g,100), 10x10 subaps" % r, circle(r, 100), 10
    yield "circle(30,60), 6x6 subaps", circle(30, 60), 6


def main():
    failures = []
    for label, mask, subaps in geometries():
        spacing = mask.shape[0] // subaps
        _, _, means = oracle(mask, subaps, 0.0)
        fills_present = numpy.unique(means)
        mids = 0.5 * (fills_present[1:] + fills_present[:-1])
        thresholds = numpy.unique(numpy.concatenate([fills_present, mids, [0.0, 0.25, 0.5, 0.75, 1.0]]))

        prev = None
        for t in thresholds:                      # increasing
            want_xy, want_fill, _ = oracle(mask, subaps, t)
            got_xy, got_fill = wfs.findActiveSubaps(subaps, mask, t, returnFill=True)
            got_xy = numpy.asarray(got_xy).reshape(-1, 2)
            if got_xy.shape != want_xy.shape or not numpy.array_equal(got_xy, want_xy):
                missing = sorted(set(map(tuple, want_xy.tolist())) - set(map(tuple, got_xy.tolist())))
                extra = sorted(set(map(tuple, got_xy.tolist())) - set(map(tuple, want_xy.tolist())))
                failures.append("%s, threshold=%r: selected %d cells, %d cells have mean >= threshold "
                                "(missing %s, extra %s)" % (label, float(t), len(got_xy), len(want_xy),
                                                           missing[:4], extra[:4]))
            else:
                if not numpy.array_equal(got_fill, want_fill):
                    failures.append("%s, threshold=%r: fill factors differ from the cell means" % (label, float(t)))
                if len(got_xy):
                    again = wfs.computeFillFactor(mask, got_xy, spacing)
                    if not numpy.array_equal(again, got_fill):
                        failures.append("%s, threshold=%r: fills != computeFillFactor" % (label, float(t)))
            cur = set(map(tuple, got_xy.tolist()))
            if prev is not None and not cur <= prev:
                failures.append("%s: set at threshold %r is not contained in the set at the previous "
                                "(lower) threshold" % (label, float(t)))
            prev = cur

        # a cell reported with fill f must be selected when the threshold is exactly f
        xy0, f0 = wfs.findActiveSubaps(subaps, mask, 0.0, returnFill=True)
        for (x, y), f in zip(xy0, f0):
            sel = numpy.asarray(wfs.findActiveSubaps(subaps, mask, f)).reshape(-1, 2)
            if not any((sx == x and sy == y) for sx, sy in sel):
                failures.append("%s: cell at (%g,%g) has fill %r but is NOT selected with threshold=%r"
                                % (label, x, y, float(f), float(f)))

    if failures:
        print("C14 VIOLATED: sub-aperture selection is not the exact 'mean >= threshold' indicator")
        for f in failures[:20]:
            print("  -", f)
        if len(failures) > 20:
            print("  ... and %d more" % (len(failures) - 20))
        return 1
    print("ok: selection == {cells with mean >= threshold} for all geometries/thresholds tried")
    return 0


if __name__ == "__main__":
    sys.exit(main())
