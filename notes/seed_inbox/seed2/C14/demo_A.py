"""C14 -- scattering slopes into the 2-D sub-aperture map and reading them back
through the mask must be the identity, for every kind of 0/1 mask (float, integer,
boolean, any memory layout) and every slope array."""
import sys
import numpy
from aotools import circle, wfs


def masks():
    base = circle(4, 10)                                    # float64 0/1 (what the docs use)
    off = circle(3.5, 9, (0.5, -1))                         # odd size, off-centre
    ring = circle(6, 12) - circle(2, 12)                    # annulus
    yield "float64 circle", base
    yield "float64 off-centre", off
    yield "float64 annulus", ring
    yield "float32 circle", base.astype(numpy.float32)
    yield "int64 circle", base.astype(numpy.int64)
    yield "uint8 annulus", ring.astype(numpy.uint8)
    yield "bool off-centre", off.astype(bool)
    yield "bool from fill-factor cut", (circle(20, 40).reshape(10, 4, 10, 4).mean(axis=(1, 3)) >= 0.5)
    yield "fortran-order float64", numpy.asfortranarray(off)
    yield "transposed int32 view", off.astype(numpy.int32).T


def slope_sets(n_sub, rng):
    yield "float64", rng.standard_normal((3, 2, n_sub))
    yield "float32", rng.standard_normal((3, 2, n_sub)).astype(numpy.float32)
    yield "float64 small", 1e-3 * rng.standard_normal((1, 2, n_sub))
    yield "int32", rng.integers(-1000, 1000, size=(2, 2, n_sub)).astype(numpy.int32)


def main():
    rng = numpy.random.default_rng(14)
    failures = []
    for mname, mask in masks():
        valid = numpy.asarray(mask) == 1
        n_sub = int(valid.sum())
        for dname, data in slope_sets(n_sub, rng):
            out = wfs.make_subaps_2d(data, mask)
            if out.shape != (data.shape[0], 2) + mask.shape:
                failures.append("%s / %s: wrong shape %s" % (mname, dname, out.shape))
                continue
            back = out[:, :, valid]              # read back through the mask (row-major order)
            if back.shape != data.shape or not numpy.array_equal(back, data):
                err = numpy.abs(numpy.asarray(back, dtype=float) - data).max()
                failures.append("mask[%s] slopes[%s]: read-back differs from the slopes put in "
                                "(max abs error %.3g, map dtype %s)" % (mname, dname, err, out.dtype))
            if numpy.any(out[:, :, ~valid] != 0):
                failures.append("mask[%s] slopes[%s]: non-zero values outside the mask" % (mname, dname))

    if failures:
        print("C14 VIOLATED: make_subaps_2d scatter / read-back is not the identity")
        for f in failures:
            print("  -", f)
        return 1
    print("ok: scatter/read-back identity holds for all masks and slope arrays tried")
    return 0


if __name__ == "__main__":
    sys.exit(main())
