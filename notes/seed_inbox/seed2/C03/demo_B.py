"""
C03: single-process and multi-process builds of the slope covariance matrix must be bit-identical
for every sensor configuration -- here for systems whose wavefront sensors do NOT all have the same
sub-aperture geometry (a high-order LGS WFS next to low-order NGS WFSs, annular masks, LGS/NGS mixes).
Both fresh builds and rebuilds with the ``threads`` attribute toggled (1 -> k -> 1) are compared.
"""
import sys

import numpy

import aotools
from aotools.turbulence import slopecovariance

TEL_DIAM = 4.2


def annulus(nx, inner):
    return aotools.circle(nx / 2., nx) - aotools.circle(inner, nx)


CONFIGS = {
    # name: list of (pupil mask, guide-star altitude (0 = NGS), guide-star position / arcsec, wavelength)
    "8x8 LGS + 4x4 NGS": [
        (aotools.circle(4, 8), 90000., [10., 0.], 589e-9),
        (aotools.circle(2, 4), 0., [-5., 8.], 700e-9)],
    "4x4 NGS + 8x8 LGS": [
        (aotools.circle(2, 4), 0., [-5., 8.], 700e-9),
        (aotools.circle(4, 8), 90000., [10., 0.], 589e-9)],
    "7x7 annular LGS + 2x2 NGS + 5x5 NGS": [
        (annulus(7, 1.2), 90000., [0., 0.], 589e-9),
        (numpy.ones((2, 2)), 0., [20., -3.], 800e-9),
        (aotools.circle(2.5, 5), 0., [-7., -7.], 650e-9)],
    "two 6x6 WFSs of the same geometry, one LGS one NGS": [
        (aotools.circle(3, 6), 90000., [12., 0.], 589e-9),
        (aotools.circle(3, 6), 0., [-6., 10.], 589e-9)],
    "three identical 6x6 LGS": [
        (aotools.circle(3, 6), 90000., [12., 0.], 589e-9),
        (aotools.circle(3, 6), 90000., [-6., 10.], 589e-9),
        (aotools.circle(3, 6), 90000., [-6., -10.], 589e-9)],
}


def make(config, threads):
    masks = [c[0] for c in config]
    n_layers = 3
    return slopecovariance.CovarianceMatrix(
        len(config), masks, TEL_DIAM, [TEL_DIAM / m.shape[0] for m in masks],
        [c[1] for c in config], [c[2] for c in config], [c[3] for c in config],
        n_layers, numpy.array([0., 4000., 11000.]), [0.9, 1.3, 2.0], [25., 30., 50.], threads)


def same_bits(a, b):
    return a.shape == b.shape and a.dtype == b.dtype and a.tobytes() == b.tobytes()


def build(obj):
    try:
        return obj.make_covariance_matrix()
    except Exception as exc:     # a build that blows up is not "the same matrix" either
        return exc


def describe(a, b):
    if isinstance(a, Exception):
        return "single-process build raised %r" % (a,)
    if isinstance(b, Exception):
        return "multi-process build raised %r" % (b,)
    bad = a != b
    return "%d of %d elements differ (max abs diff %.3g)" % (
        bad.sum(), bad.size, abs(a.astype(float) - b.astype(float)).max())


def main():
    failures = []
    for name, config in CONFIGS.items():
        single = build(make(config, 1))
        for threads in (2, 3):
            multi = build(make(config, threads))
            if isinstance(single, Exception) or isinstance(multi, Exception) or not same_bits(single, multi):
                failures.append("[%s] threads=1 vs threads=%d (fresh objects): %s"
                                % (name, threads, describe(single, multi)))

        # one object, thread count toggled 1 -> 2 -> 1: every build must give the same matrix
        obj = make(config, 1)
        history = []
        for threads in (1, 2, 1):
            obj.threads = threads
            history.append(build(obj))
        for step, (threads, mat) in enumerate(zip((1, 2, 1), history)):
            if isinstance(mat, Exception) or isinstance(history[0], Exception) or not same_bits(mat, history[0]):
                if step:
                    failures.append("[%s] rebuild #%d (threads=%d) differs from the first build: %s"
                                    % (name, step, threads, describe(history[0], mat)))

    if failures:
        print("C03 VIOLATED: single- and multi-process covariance matrices are not bit-identical")
        for f in failures:
            print("  " + f)
        return 1
    print("C03 holds: %d configurations, threads 1/2/3 and toggled rebuilds all bit-identical" % len(CONFIGS))
    return 0


if __name__ == "__main__":
    sys.exit(main())
