"""
C03: the slope covariance matrix must not depend on the number of worker processes.

For a two-WFS, multi-layer LGS system the matrix is built once single-process and then with every
worker count 1..8, each on a fresh object and again as a rebuild on one long-lived object whose
``threads`` attribute is toggled.  Every build must be bit-identical to the single-process one.
"""
import sys

import numpy

import aotools
from aotools.turbulence import slopecovariance


def make(n_wfs, nx_subaps, n_layers, threads):
    telescope_diameter = 4.2
    mask = aotools.circle(nx_subaps / 2., nx_subaps)
    r = 12.
    gs_positions = [[r * numpy.cos(2 * numpy.pi * k / n_wfs), r * numpy.sin(2 * numpy.pi * k / n_wfs)]
                    for k in range(n_wfs)]
    return slopecovariance.CovarianceMatrix(
        n_wfs, [mask] * n_wfs, telescope_diameter, [telescope_diameter / nx_subaps] * n_wfs,
        [90000.] * n_wfs, gs_positions, [600e-9] * n_wfs,
        n_layers, numpy.linspace(0, 15000, n_layers), numpy.linspace(0.6, 1.4, n_layers),
        numpy.linspace(20., 40., n_layers), threads)


def same_bits(a, b):
    return a.shape == b.shape and a.dtype == b.dtype and a.tobytes() == b.tobytes()


def main():
    failures = []
    max_workers = 8
    for n_wfs, nx_subaps, n_layers in [(2, 6, 4), (1, 7, 3)]:
        reference = make(n_wfs, nx_subaps, n_layers, 1).make_covariance_matrix()

        long_lived = make(n_wfs, nx_subaps, n_layers, 1)
        for threads in range(1, max_workers + 1):
            fresh = make(n_wfs, nx_subaps, n_layers, threads).make_covariance_matrix()
            if not same_bits(fresh, reference):
                n_bad = int((fresh != reference).sum()) if fresh.shape == reference.shape else -1
                failures.append(
                    "n_wfs=%d n_layers=%d: fresh build with %d processes differs from the single-process "
                    "matrix in %d elements (max abs diff %.3g)" % (
                        n_wfs, n_layers, threads, n_bad,
                        abs(fresh.astype(float) - reference).max() if n_bad >= 0 else float("nan")))

            long_lived.threads = threads
            rebuilt = long_lived.make_covariance_matrix()
            if not same_bits(rebuilt, reference):
                failures.append("n_wfs=%d n_layers=%d: rebuild with threads=%d differs from the single-process matrix"
                                % (n_wfs, n_layers, threads))
            long_lived.threads = 1
            if not same_bits(long_lived.make_covariance_matrix(), reference):
                failures.append("n_wfs=%d n_layers=%d: single-process rebuild after threads=%d differs"
                                % (n_wfs, n_layers, threads))

    if failures:
        print("C03 VIOLATED: covariance matrix depends on the process count")
        for f in failures:
            print("  " + f)
        return 1
    print("C03 holds: builds with 1..%d processes are bit-identical to the single-process matrix" % max_workers)
    return 0


if __name__ == "__main__":
    sys.exit(main())
