"""C10 demo B: the single-FFT propagators (one-step Fresnel, two-step Fresnel, lens
to focal plane) must be linear over the COMPLEX numbers,

    f(a*x + b*y) == a*f(x) + b*f(y)      for complex a, b and complex fields x, y,

and conserve power, sum|U_out|^2*d_out^2 == sum|U_in|^2*d_in^2, for propagation
distances / focal lengths of either sign.

Exits 0 if the property holds on every case, 1 (with a report) otherwise.
"""
import sys
import numpy
from aotools import opticalpropagation as op

TOL = 1e-9


def power(U, d):
    return float((numpy.abs(U) ** 2).sum() * d ** 2)


def check(name, params, f, d_in, d_out, x, y, coeffs, failures):
    fx, fy = f(x.copy()), f(y.copy())

    p_in, p_out = power(x, d_in), power(fx, d_out)
    if not abs(p_out - p_in) <= TOL * p_in:
        failures.append("%s %s: power not conserved, P_in=%.12g P_out=%.12g"
                        % (name, params, p_in, p_out))

    for a, b in coeffs:
        fc = f(a * x + b * y)
        ref = a * fx + b * fy
        err = numpy.abs(fc - ref).max()
        scale = numpy.abs(ref).max()
        if not err <= TOL * scale:
            failures.append(
                "%s %s: not linear for a=%s b=%s, max|f(ax+by)-(a f(x)+b f(y))|=%.3g (field scale %.3g)"
                % (name, params, a, b, err, scale))


def main():
    rng = numpy.random.default_rng(1010)
    failures = []
    ncases = 0

    # real, imaginary and general complex coefficients
    coeffs = [(1.0, 1.0), (2.5, -0.75), (1j, 1.0), (0.3 - 1.2j, -0.8 + 0.45j)]

    for N, d1 in ((16, 0.01), (32, 2e-3), (48, 0.05)):
        x = rng.normal(size=(N, N)) + 1j * rng.normal(size=(N, N))
        y = rng.normal(size=(N, N)) + 1j * rng.normal(size=(N, N))
        for wvl in (500e-9, 2.2e-6):
            for z in (10000.0, -10000.0, 120.0, -120.0, 0.7, -0.7):
                ncases += 1
                d_out = wvl * z / (N * d1)
                check("oneStepFresnel", "N=%d wvl=%g d1=%g z=%g" % (N, wvl, d1, z),
                      lambda U: op.oneStepFresnel(U, wvl, d1, z),
                      d1, d_out, x, y, coeffs, failures)

                for mag in (0.5, 1.0, 3.0):
                    ncases += 1
                    d2 = d1 * mag
                    check("twoStepFresnel", "N=%d wvl=%g d1=%g d2=%g z=%g" % (N, wvl, d1, d2, z),
                          lambda U: op.twoStepFresnel(U, wvl, d1, d2, z),
                          d1, d2, x, y, coeffs, failures)

            for f in (0.3, -0.3, 25.0, -25.0):
                ncases += 1
                d_out = wvl * f / (N * d1)
                check("lensAgainst", "N=%d wvl=%g d1=%g f=%g" % (N, wvl, d1, f),
                      lambda U: op.lensAgainst(U, wvl, d1, f),
                      d1, d_out, x, y, coeffs, failures)

    if failures:
        print("C10 VIOLATED (%d failed checks over %d propagator configurations):"
              % (len(failures), ncases))
        for msg in failures[:12]:
            print("  " + msg)
        if len(failures) > 12:
            print("  ... and %d more" % (len(failures) - 12))
        return 1
    print("C10 holds: Fresnel/lens propagators are complex-linear and conserve power "
          "in all %d configurations" % ncases)
    return 0


if __name__ == "__main__":
    sys.exit(main())
