"""C10 demo A: the angular-spectrum propagator must conserve power and be linear
for every non-zero propagation distance, however short, and every magnification.

    sum |U_out|^2 * d_out^2  ==  sum |U_in|^2 * d_in^2

Exits 0 if the property holds on every case, 1 (with a report) otherwise.
"""
import sys
import numpy
from aotools import opticalpropagation as op

RTOL = 1e-9


def power(U, d):
    return float((numpy.abs(U) ** 2).sum() * d ** 2)


def main():
    rng = numpy.random.default_rng(10)
    failures = []
    ncases = 0

    wvls = (500e-9, 1.65e-6)
    grids = ((16, 0.01), (32, 2e-3), (64, 0.05))
    mags = (1.0, 0.5, 2.0, 1.25)
    # ordinary distances and very short ones (thin gaps between conjugated planes,
    # altitude differences that are nearly but not exactly zero), both signs
    distances = (1e4, -1e4, 35.0, -0.2, 1e-3, -1e-6, 5e-9, -5e-9, 1e-10, -3e-12)

    for wvl in wvls:
        for N, d1 in grids:
            x = rng.normal(size=(N, N)) + 1j * rng.normal(size=(N, N))
            y = rng.normal(size=(N, N)) + 1j * rng.normal(size=(N, N))
            a = complex(rng.normal(), rng.normal())
            b = complex(rng.normal(), rng.normal())
            comb = a * x + b * y
            p_in = power(x, d1)
            for mag in mags:
                d2 = d1 * mag
                for z in distances:
                    ncases += 1
                    fx = op.angularSpectrum(x.copy(), wvl, d1, d2, z)
                    fy = op.angularSpectrum(y.copy(), wvl, d1, d2, z)
                    fc = op.angularSpectrum(comb.copy(), wvl, d1, d2, z)

                    p_out = power(fx, d2)
                    if not abs(p_out - p_in) <= RTOL * p_in:
                        failures.append(
                            "power not conserved: N=%d wvl=%g d_in=%g d_out=%g z=%g : "
                            "P_in=%.12g P_out=%.12g (ratio %.6g)"
                            % (N, wvl, d1, d2, z, p_in, p_out, p_out / p_in))

                    ref = a * fx + b * fy
                    err = numpy.abs(fc - ref).max()
                    scale = numpy.abs(ref).max()
                    if not err <= 1e-9 * scale:
                        failures.append(
                            "not linear: N=%d wvl=%g d_in=%g d_out=%g z=%g : "
                            "max|f(ax+by)-(a f(x)+b f(y))|=%.3g (scale %.3g)"
                            % (N, wvl, d1, d2, z, err, scale))

    if failures:
        print("C10 VIOLATED in %d of %d angularSpectrum cases:" % (len(failures), ncases))
        for f in failures[:12]:
            print("  " + f)
        if len(failures) > 12:
            print("  ... and %d more" % (len(failures) - 12))
        return 1
    print("C10 holds: angularSpectrum conserves power and is linear in all %d cases" % ncases)
    return 0


if __name__ == "__main__":
    sys.exit(main())
