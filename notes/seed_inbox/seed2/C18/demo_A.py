"""C18: equivalent_layers must conserve total Cn2, the 5/3 height moment and -- when wind is
given -- the 5/3 wind moment (coherence time), whatever the numeric type of the wind column."""
import sys
import numpy
from aotools import turbulence

RTOL = 1e-9
failures = []


def check(tag, h, p, w, L):
    h_L, p_L, w_L = turbulence.equivalent_layers(h, p, L, w=w)
    if not (len(h_L) == len(p_L) == len(w_L) == L):
        failures.append("%s L=%d: wrong number of layers" % (tag, L))
        return
    if (numpy.asarray(p_L) < 0).any():
        failures.append("%s L=%d: negative strength" % (tag, L))
    pf, hf, wf = (numpy.asarray(a, dtype=float) for a in (p, h, w))
    pairs = [
        ("total Cn2", pf.sum(), numpy.sum(p_L)),
        ("5/3 height moment", (pf * hf ** (5 / 3)).sum(), numpy.sum(p_L * numpy.asarray(h_L, float) ** (5 / 3))),
        ("5/3 wind moment", (pf * wf ** (5 / 3)).sum(), numpy.sum(p_L * numpy.asarray(w_L, float) ** (5 / 3))),
    ]
    for name, ref, got in pairs:
        if not abs(got / ref - 1) <= RTOL:
            failures.append("%s L=%d: %s not conserved: input %.12g, compressed %.12g (rel. err %.3g)"
                            % (tag, L, name, ref, got, got / ref - 1))


# a 12-layer profile with irregular heights, strong ground layer and a jet-stream wind peak
h = numpy.array([30., 140., 290., 560., 1130., 2250., 4500., 7750., 11000., 12750., 14500., 17500.])
p = numpy.array([22.6, 11.2, 10.1, 6.4, 4.15, 4.15, 4.15, 3.1, 2.26, 1.13, 2.21, 1.33]) * 1e-14
w_float = numpy.array([5.5, 5.5, 5.1, 5.5, 5.6, 5.7, 5.8, 9.0, 25.0, 32.0, 27.0, 14.5])
# the same kind of wind table as it comes out of an integer-valued radiosonde column (m/s)
w_int = numpy.array([5, 6, 5, 6, 6, 7, 8, 10, 25, 32, 27, 14])

for L in (1, 2, 3, 4, 5):
    check("float wind", h, p, w_float, L)
    check("integer wind", h, p, w_int, L)

if failures:
    print("C18 VIOLATED (equivalent_layers):")
    for f in failures:
        print("  " + f)
    sys.exit(1)
print("C18 holds: equivalent_layers conserved Cn2, height moment and wind moment for every case")
sys.exit(0)
