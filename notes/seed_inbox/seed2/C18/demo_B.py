"""C18: GCTM must return L non-negative layers that reproduce the first 2L-1 moments of the
profile it was given -- on every call, also when one profile is compressed to several layer
counts in a row (the usual way of choosing L)."""
import sys
import numpy
from aotools import turbulence

RTOL = 0.15     # optimiser accuracy: the unmodified optimiser is within a few per cent here
failures = []


def moments(h, p, L):
    return numpy.array([(p * h ** k).sum() for k in range(2 * L - 1)])


# 35-layer profile: exponential ground layer plus a jet-stream bump (float heights in metres)
N = 35
H = [0.0 + 20000.0 * i / (N - 1) for i in range(N)]
P = [1e-15 * (numpy.exp(-x / 1500.0) + 0.3 * numpy.exp(-((x - 11000.0) / 2500.0) ** 2)) for x in H]

h = numpy.array(H)
p = numpy.array(P)
h_true = numpy.array(H)      # independent record of what the profile is
p_true = numpy.array(P)

for L in (1, 2, 3, 2, 1):
    h_L, p_L = turbulence.GCTM(h, p, L)
    tag = "GCTM L=%d" % L
    if len(h_L) != L or len(p_L) != L:
        failures.append("%s: returned %d/%d layers" % (tag, len(h_L), len(p_L)))
        continue
    if (p_L < 0).any() or (h_L < 0).any():
        failures.append("%s: negative output" % tag)
    m_in = moments(h_true / 1e4, p_true, L)
    m_out = moments(h_L / 1e4, p_L, L)
    err = numpy.abs(m_out / m_in - 1)
    if not (err <= RTOL).all():
        failures.append("%s: moments not reproduced, relative errors %s" % (tag, numpy.array2string(err, precision=3)))

# the other two methods on the very same arrays afterwards: total Cn2 must still be that of the profile
for name, (h_L, p_L) in (("equivalent_layers", turbulence.equivalent_layers(h, p, 4)),
                         ("optimal_grouping", turbulence.optimal_grouping(2, 4, h, p))):
    if not abs(p_L.sum() / p_true.sum() - 1) <= 1e-9:
        failures.append("%s after GCTM: total Cn2 %.6g, profile has %.6g" % (name, p_L.sum(), p_true.sum()))

if failures:
    print("C18 VIOLATED:")
    for f in failures:
        print("  " + f)
    sys.exit(1)
print("C18 holds: every GCTM call reproduced the profile's moments; totals conserved afterwards")
sys.exit(0)
