"""
C09 demo B: the scaled 2-D transforms are an inverse pair obeying Parseval and
linearity for EVERY real or complex input array the caller may hold, whatever
its dtype or memory layout:

  * ift2(ft2(x, delta), delta_f) == x                    with delta_f = 1/(N*delta)
  * sum|x|^2 * delta^2 == sum|X|^2 * delta_f^2           with X = ft2(x, delta)
  * ft2(a*x + b*y) == a*ft2(x) + b*ft2(y)
  * transforming the same array twice gives the same spectrum

The identities are evaluated the way a user would write them, on the arrays the
user passed in (float64 / float32 / int / complex64 / complex128, C-ordered,
Fortran-ordered, strided views, batched), for odd and even N and several
spacings, through `aotools.<f>` and `aotools.fouriertransform.<f>`.

Exit status 0 = property holds, 1 = violated.
"""
import sys

import numpy

import aotools
from aotools import fouriertransform

failures = []


def close(a, b, tol):
    a = numpy.asarray(a)
    b = numpy.asarray(b)
    if a.shape != b.shape:
        return False
    scale = max(1e-300, float(numpy.max(numpy.abs(b))))
    return bool(numpy.all(numpy.abs(a - b) <= tol * scale))


def make_inputs(rng, shape):
    """Same kind of random field in the dtypes / layouts a caller may hold."""
    def real():
        return rng.standard_normal(shape)

    def cplx():
        return rng.standard_normal(shape) + 1j * rng.standard_normal(shape)

    big = rng.standard_normal(shape[:-2] + (2 * shape[-2], 2 * shape[-1])) + 0j
    big += 1j * rng.standard_normal(big.shape)
    yield "float64", real(), 1e-10
    yield "float32", real().astype(numpy.float32), 1e-4
    yield "int64", rng.integers(-50, 50, size=shape), 1e-10
    yield "complex64", cplx().astype(numpy.complex64), 1e-4
    yield "complex128 C-order", numpy.ascontiguousarray(cplx()), 1e-10
    yield "complex128 F-order", numpy.asfortranarray(cplx()), 1e-10
    yield "complex128 strided view", big[..., ::2, ::2], 1e-10


def check(ns_name, ns, N, delta, batch, rng):
    delta_f = 1.0 / (N * delta)
    shape = batch + (N, N)
    for (kind, x, tol), (_, y, _) in zip(make_inputs(rng, shape), make_inputs(rng, shape)):
        where = "%s N=%d delta=%g batch=%s input=%s" % (ns_name, N, delta, batch, kind)

        # inverse pair
        X = ns.ft2(x, delta)
        back = ns.ift2(X, delta_f)
        if not close(back, x, tol):
            failures.append(where + ": ift2(ft2(x)) != x   (max |diff| = %.3g, max |x| = %.3g)"
                            % (numpy.max(numpy.abs(back - x)), numpy.max(numpy.abs(x))))

        # Parseval
        X = ns.ft2(x, delta)
        e_x = numpy.sum(numpy.abs(x) ** 2.0) * delta ** 2
        e_X = numpy.sum(numpy.abs(X) ** 2.0) * delta_f ** 2
        if not close(e_X, e_x, tol):
            failures.append(where + ": Parseval fails, sum|x|^2 d^2 = %.6g but sum|X|^2 df^2 = %.6g"
                            % (e_x, e_X))

        # same input, same output
        X1 = ns.ft2(x, delta)
        X2 = ns.ft2(x, delta)
        if not close(X2, X1, tol):
            failures.append(where + ": two successive ft2(x) calls on the same array disagree")
        x1 = ns.ift2(X1, delta_f)
        x2 = ns.ift2(X1, delta_f)
        if not close(x2, x1, tol):
            failures.append(where + ": two successive ift2(X) calls on the same array disagree")

        # linearity
        a, b = 2.0, -3.0
        FX = ns.ft2(x, delta)
        FY = ns.ft2(y, delta)
        FZ = ns.ft2(a * x + b * y, delta)
        if not close(FZ, a * FX + b * FY, 10 * tol):
            failures.append(where + ": ft2(a x + b y) != a ft2(x) + b ft2(y)")


def main():
    rng = numpy.random.default_rng(9092)
    for ns_name, ns in (("aotools", aotools), ("aotools.fouriertransform", fouriertransform)):
        for N in (1, 2, 5, 8, 11):
            for delta in (1.0, 0.02, 12.5):
                for batch in ((), (3,)):
                    check(ns_name, ns, N, delta, batch, rng)

    if failures:
        print("C09 VIOLATED (%d failures), first few:" % len(failures))
        for f in failures[:10]:
            print("  " + f)
        return 1
    print("C09 holds: ft2/ift2 are inverse, Parseval-preserving, linear for all input dtypes/layouts")
    return 0


if __name__ == "__main__":
    sys.exit(main())
