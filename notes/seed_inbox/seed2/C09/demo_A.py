"""
C09 demo A: the scaled transforms must treat every leading (batch) axis as an
independent stack of signals.  For each signal of a batch, taken on its own,

  * ift(ft(x))  == x   and  irft(rft(x)) == x        (inverse pair)
  * sum|x|^2 * delta == sum w|X|^2 * delta_f           (Parseval; w = 1 for the
    full spectrum, w = 1,2,...,2,1 on the DC..Nyquist half-spectrum)
  * transforming the batch and picking signal i gives the transform of signal i

Checked for several even lengths N (the real variants only support even N),
several spacings and several batch shapes, through both `aotools.<f>` and
`aotools.fouriertransform.<f>`.

Exit status 0 = property holds, 1 = violated.
"""
import itertools
import sys

import numpy

import aotools
from aotools import fouriertransform

RTOL = 1e-10
failures = []


def close(a, b):
    a = numpy.asarray(a)
    b = numpy.asarray(b)
    if a.shape != b.shape:
        return False
    scale = max(1.0, float(numpy.max(numpy.abs(b))) if b.size else 1.0)
    return bool(numpy.all(numpy.abs(a - b) <= RTOL * scale))


def half_weights(N):
    """Parseval weights of the half spectrum in the layout returned by rft
    (rfft bins DC..Nyquist, passed through fftshift)."""
    w = numpy.full(N // 2 + 1, 2.0)
    w[0] = 1.0
    w[-1] = 1.0
    return numpy.fft.fftshift(w)


def check(namespace_name, ns, N, delta, batch, rng):
    delta_f = 1.0 / (N * delta)
    where = "%s N=%d delta=%g batch=%s" % (namespace_name, N, delta, batch)

    # signals of clearly different energy so that a mix-up of rows is visible
    amp = 1.0 + numpy.arange(int(numpy.prod(batch, dtype=int))).reshape(batch)
    xr = rng.standard_normal(batch + (N,)) * amp[..., None]
    xc = (rng.standard_normal(batch + (N,)) + 1j * rng.standard_normal(batch + (N,))) * amp[..., None]

    # ---- complex pair -------------------------------------------------
    X = ns.ft(xc, delta)
    if not close(ns.ift(X, delta_f), xc):
        failures.append(where + ": ift(ft(x)) != x")
    e_x = numpy.sum(numpy.abs(xc) ** 2, axis=-1) * delta
    e_X = numpy.sum(numpy.abs(X) ** 2, axis=-1) * delta_f
    if not close(e_X, e_x):
        failures.append(where + ": per-signal Parseval fails for ft")
    for idx in itertools.product(*[range(b) for b in batch]):
        if not close(X[idx], ns.ft(xc[idx], delta)):
            failures.append(where + ": ft(batch)[%s] != ft(batch[%s])" % (idx, idx))
            break

    # ---- real pair ----------------------------------------------------
    H = ns.rft(xr, delta)
    back = ns.irft(H, delta_f)
    if not close(back, xr):
        failures.append(where + ": irft(rft(x)) != x")
    w = half_weights(N)
    e_x = numpy.sum(xr ** 2, axis=-1) * delta
    e_H = numpy.sum(w * numpy.abs(H) ** 2, axis=-1) * delta_f
    if not close(e_H, e_x):
        failures.append(where + ": per-signal Parseval fails for rft "
                        "(signal energies %s, spectrum energies %s)"
                        % (numpy.round(e_x.ravel(), 6), numpy.round(e_H.ravel(), 6)))
    for idx in itertools.product(*[range(b) for b in batch]):
        if not close(H[idx], ns.rft(xr[idx], delta)):
            failures.append(where + ": rft(batch)[%s] != rft(batch[%s])" % (idx, idx))
            break
    for idx in itertools.product(*[range(b) for b in batch]):
        if not close(ns.irft(H, delta_f)[idx], ns.irft(ns.rft(xr[idx], delta), delta_f)):
            failures.append(where + ": irft(batch)[%s] != irft(batch[%s])" % (idx, idx))
            break


def main():
    rng = numpy.random.default_rng(909)
    batches = [(), (1,), (2,), (3,), (4,), (5,), (2, 3), (3, 2), (1, 7)]
    for name, ns in (("aotools", aotools), ("aotools.fouriertransform", fouriertransform)):
        for N in (2, 4, 8, 16, 30):
            for delta in (1.0, 0.05, 7.5):
                for batch in batches:
                    check(name, ns, N, delta, batch, rng)

    if failures:
        print("C09 VIOLATED (%d failures), first few:" % len(failures))
        for f in failures[:8]:
            print("  " + f)
        return 1
    print("C09 holds: batched ft/ift and rft/irft are per-signal inverse pairs obeying Parseval")
    return 0


if __name__ == "__main__":
    sys.exit(main())
