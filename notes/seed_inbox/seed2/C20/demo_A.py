"""
C20 (purity / no hidden state): CovarianceMatrix.make_covariance_matrix() called twice on the
same object, with nothing changed in between, must return the same matrix, and the same matrix
as a freshly constructed object with equal arguments.  Checked for laser guide stars (finite
altitude) and for natural guide stars (gs_altitude 0, i.e. at infinity) seen off-axis.
"""
import sys
import copy
import numpy
import aotools


def build(gs_altitudes):
    n_wfs = 2
    nx_subaps = 4
    telescope_diameter = 4.
    args = dict(
        n_wfs=n_wfs,
        pupil_masks=[aotools.circle(nx_subaps / 2., nx_subaps)] * n_wfs,
        telescope_diameter=telescope_diameter,
        subap_diameters=[telescope_diameter / nx_subaps] * n_wfs,
        gs_altitudes=list(gs_altitudes),
        gs_positions=[[0., 0.], [20., 10.]],
        wfs_wavelengths=[550e-9] * n_wfs,
        n_layers=2,
        layer_altitudes=numpy.array([4000., 9000.]),
        layer_r0s=[0.2, 0.4],
        layer_L0s=[25., 25.],
        threads=1)
    return args


def same(a, b):
    return a.shape == b.shape and numpy.array_equal(a, b)


failures = []
for label, alts in [("LGS, 90 km", [90000., 90000.]),
                    ("NGS (altitude 0 = infinity), off-axis", [0, 0]),
                    ("mixed LGS + off-axis NGS", [90000., 0])]:
    args = build(alts)
    frozen = copy.deepcopy(args)

    obj = aotools.CovarianceMatrix(**args)
    first = numpy.array(obj.make_covariance_matrix(), copy=True)
    second = numpy.array(obj.make_covariance_matrix(), copy=True)
    third = numpy.array(obj.make_covariance_matrix(), copy=True)
    fresh = numpy.array(aotools.CovarianceMatrix(**build(alts)).make_covariance_matrix(), copy=True)

    if not same(first, second) or not same(first, third):
        d = max(abs(first - second).max(), abs(first - third).max())
        failures.append("%s: repeated make_covariance_matrix() on the same object differ "
                        "(max |diff| = %.3e, scale %.3e)" % (label, d, abs(first).max()))
    if not same(fresh, second):
        failures.append("%s: 2nd call on a used object differs from the 1st call on a fresh object "
                        "(max |diff| = %.3e)" % (label, abs(fresh - second).max()))
    if not same(fresh, first):
        failures.append("%s: first call differs between two equal objects" % label)

    # arguments handed to the constructor are left alone
    for k in frozen:
        a, b = frozen[k], args[k]
        if isinstance(a, (list, numpy.ndarray)):
            if not all(numpy.array_equal(x, y) for x, y in zip(numpy.asarray(a), numpy.asarray(b))):
                failures.append("%s: constructor argument %s was modified" % (label, k))

if failures:
    print("C20 VIOLATED:")
    for f in failures:
        print("  -", f)
    sys.exit(1)
print("ok: make_covariance_matrix is repeatable and leaves its inputs alone")
sys.exit(0)
