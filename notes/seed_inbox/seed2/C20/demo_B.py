"""
C20 (purity / per-item batch semantics) for image_processing.brightest_pixel:

  * the image array handed in is left bit-identical;
  * equal arguments give equal results -- an image is the same argument whether it happens to be
    stored C-ordered, Fortran-ordered, or is a transposed / axis-moved view of another array;
  * for a stack, item i of the result is what the single-image call returns for frame i,
    also when the stack is a (t, y, x) view of a cube stored as (y, x, t).
"""
import sys
import numpy
from aotools.image_processing import centroiders

TOL = dict(rtol=1e-9, atol=1e-9)
failures = []


def spot(ny, nx, cy, cx, rng):
    y, x = numpy.indices((ny, nx))
    im = 50. * numpy.exp(-((y - cy) ** 2 + (x - cx) ** 2) / 3.)
    return im + rng.uniform(5., 15., size=(ny, nx))     # background well above zero


def call(img, frac):
    before = img.copy(order='K')
    info = (img.shape, img.dtype, img.strides)
    out = centroiders.brightest_pixel(img, frac)
    if (img.shape, img.dtype, img.strides) != info or not numpy.array_equal(img, before):
        failures.append("argument modified by brightest_pixel (shape %s)" % (img.shape,))
    return numpy.asarray(out)


rng = numpy.random.default_rng(20)
frac = 0.2

# ---- single image, same values in different memory layouts -------------------------------
for (ny, nx) in [(12, 12), (9, 14)]:
    base = spot(ny, nx, 3.3, 7.6, rng)
    ref = call(numpy.ascontiguousarray(base), frac)
    big = numpy.zeros((2 * ny, 2 * nx))
    big[::2, ::2] = base
    variants = {
        "C-ordered copy": base.copy(order='C'),
        "Fortran-ordered copy": numpy.asfortranarray(base),
        "transpose of the stored transposed image": numpy.ascontiguousarray(base.T).T,
        "strided view into a larger array": big[::2, ::2],
    }
    for name, arr in variants.items():
        assert arr.shape == base.shape and arr.dtype == base.dtype and numpy.array_equal(arr, base)
        got = call(arr, frac)
        again = call(arr, frac)
        if not numpy.array_equal(got, again):
            failures.append("%dx%d %s: two identical calls differ" % (ny, nx, name))
        if not numpy.allclose(got, ref, **TOL):
            failures.append("%dx%d image, %s: centroid %s but the equal C-ordered image gives %s"
                            % (ny, nx, name, got.tolist(), ref.tolist()))

# ---- stacks: per item == single-image call ------------------------------------------------
nt, ny, nx = 5, 10, 10
frames = [spot(ny, nx, 2.5 + 0.9 * i, 6.5 - 0.7 * i, rng) for i in range(nt)]
single = numpy.array([call(numpy.ascontiguousarray(f), frac) for f in frames]).T     # (2, nt)

cube_yxt = numpy.ascontiguousarray(numpy.dstack(frames))          # stored (y, x, t)
cube_xyt = numpy.ascontiguousarray(numpy.dstack([f.T for f in frames]))   # stored (x, y, t)
stacks = {
    "contiguous (t, y, x) stack": numpy.array(frames),
    "(t, y, x) view of a cube stored (y, x, t)": numpy.moveaxis(cube_yxt, -1, 0),
    "(t, y, x) view of a cube stored (x, y, t)": cube_xyt.T,
    "Fortran-ordered (t, y, x) stack": numpy.asfortranarray(numpy.array(frames)),
    "(2, t, y, x) stack of stacks": numpy.array([frames, frames]),
}
for name, st in stacks.items():
    got = call(st, frac)
    want = single if st.ndim == 3 else numpy.stack([single, single], axis=1)
    if got.shape != want.shape:
        failures.append("%s: result shape %s, expected %s" % (name, got.shape, want.shape))
    elif not numpy.allclose(got, want, **TOL):
        bad = numpy.argwhere(~numpy.isclose(got, want, **TOL))[0]
        failures.append("%s: per-item result differs from the single-image call, e.g. index %s: "
                        "%.6f vs %.6f" % (name, tuple(bad.tolist()), got[tuple(bad)], want[tuple(bad)]))

if failures:
    print("C20 VIOLATED:")
    for f in failures:
        print("  -", f)
    sys.exit(1)
print("ok: brightest_pixel is pure, layout independent and per-item consistent")
sys.exit(0)
