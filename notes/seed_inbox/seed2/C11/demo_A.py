"""
C11 demo A: angular-spectrum propagation at unit magnification is a one-parameter group
for EVERY distance, not just short ones.

For a fixed grid (N samples, spacing dx) and wavelength we sweep the distance z from well
below to well above N*dx**2/wvl and check, for arbitrary (speckle-like) input fields:

  * -z undoes +z                                  U(-z) U(z) E == E
  * distances add for any split                   U(z2) U(z1) E == U(z1+z2) E
  * the propagator is unitary (energy preserved)  sum|U(z)E|^2 == sum|E|^2
  * a programme of many steps equals one step     U(z/8)^8 E == U(z) E
  * magnified: back with 1/m recovers the input up to a constant phase

Exit 0 if all hold, 1 otherwise.
"""
import sys
import numpy
from aotools import opticalpropagation as op

failures = []


def relerr(a, b):
    return numpy.abs(a - b).max() / numpy.abs(b).max()


def check(name, err, tol=1e-9):
    if not (err < tol):
        failures.append("%s: relative error %.3e (tolerance %.0e)" % (name, err, tol))


def fields(N, rng):
    # a band-filling speckle field and an apertured beam with a tilt
    yield "speckle", rng.standard_normal((N, N)) + 1j * rng.standard_normal((N, N))
    y, x = numpy.mgrid[-N // 2:N // 2, -N // 2:N // 2]
    yield "tilted aperture", ((x ** 2 + y ** 2) < (N / 5.) ** 2) * numpy.exp(2j * numpy.pi * (3 * x + 5 * y) / N)
    yield "phase screen", numpy.exp(1j * rng.standard_normal((N, N)))


rng = numpy.random.RandomState(20240611)
for N, dx, wvl in [(64, 1e-3, 500e-9), (128, 2e-3, 1.65e-6), (96, 5e-4, 633e-9)]:
    zc = N * dx ** 2 / wvl
    for fname, E in fields(N, rng):
        E0 = E.copy()
        for frac in [0.01, 0.3, 0.9, 1.5, 4.0, 25.0]:
            z = frac * zc
            tag = "N=%d dx=%g wvl=%g z=%.4g (%.2f N dx^2/wvl) %s" % (N, dx, wvl, z, frac, fname)

            fwd = op.angularSpectrum(E, wvl, dx, dx, z)
            back = op.angularSpectrum(fwd, wvl, dx, dx, -z)
            check("inverse  " + tag, relerr(back, E0))

            check("unitary  " + tag,
                  abs((numpy.abs(fwd) ** 2).sum() / (numpy.abs(E0) ** 2).sum() - 1))

            for split in [0.5, 0.137, 1.75, -0.6]:
                z1 = split * z
                z2 = z - z1
                two = op.angularSpectrum(op.angularSpectrum(E, wvl, dx, dx, z1), wvl, dx, dx, z2)
                check("additive split=%g  " % split + tag, relerr(two, fwd))

            step = E
            for i in range(8):
                step = op.angularSpectrum(step, wvl, dx, dx, z / 8.)
            check("8 steps  " + tag, relerr(step, fwd))

            for m in [2.0, 0.5]:
                out = op.angularSpectrum(E, wvl, dx, m * dx, z)
                rec = op.angularSpectrum(out, wvl, m * dx, dx, -z)
                phase = numpy.vdot(E0, rec)
                phase /= abs(phase)
                check("magnified m=%g round trip  " % m + tag, relerr(rec / phase, E0), 1e-8)

if failures:
    print("C11 VIOLATED: angularSpectrum is not a one-parameter group (%d failures)" % len(failures))
    for f in failures[:25]:
        print("  " + f)
    if len(failures) > 25:
        print("  ... and %d more" % (len(failures) - 25))
    sys.exit(1)
print("C11 holds: inverse, additivity, unitarity, multi-step and magnified round trip at all distances")
sys.exit(0)
