"""
C11 demo B: all propagators evaluate the same Fresnel integral -- on matching sampling grids they
return the same field WITH THE SAME ORIENTATION, for magnification as well as demagnification and
for forward as well as backward propagation, and the result agrees with theory.

Input: a deliberately non-centrosymmetric field (an off-axis, tilted Gaussian beam plus a weaker
off-axis spot), well resolved by the grid.  For every (z, m) we compare
    twoStepFresnel(E, wvl, d1, m*d1, z)   against   angularSpectrum(E, wvl, d1, m*d1, z)
(and oneStepFresnel where its output spacing wvl*z/(N*d1) equals m*d1), and we compare the
intensity centroid of the main beam with the analytic one: a Gaussian beam launched at c0 with
tilt (fx, fy) cycles/m is centred at c0 + wvl*z*(fx, fy) after a distance z.

Exit 0 if all agree, 1 otherwise.
"""
import sys
import numpy
from aotools import opticalpropagation as op

failures = []

N = 256
d1 = 1e-3
wvl = 1e-6
yy, xx = numpy.mgrid[-N // 2:N // 2, -N // 2:N // 2] * d1

c0 = numpy.array([10e-3, -6e-3])          # (x, y) launch position of the main beam
tilt = numpy.array([40., -25.])           # cycles / m
w0 = 8e-3
main = numpy.exp(-((xx - c0[0]) ** 2 + (yy - c0[1]) ** 2) / w0 ** 2) \
    * numpy.exp(2j * numpy.pi * (tilt[0] * xx + tilt[1] * yy))
spot = 0.5 * numpy.exp(-((xx + 15e-3) ** 2 + (yy - 20e-3) ** 2) / (5e-3) ** 2)


def relerr(a, b):
    # compare up to nothing: same field, same grid, same orientation (a global phase of order
    # 1e-5 rad from angularSpectrum's regularised r^2 is far below the tolerance)
    return numpy.abs(a - b).max() / numpy.abs(b).max()


def centroid(U, d):
    I = numpy.abs(U) ** 2
    y, x = numpy.mgrid[-N // 2:N // 2, -N // 2:N // 2] * d
    return numpy.array([(I * x).sum(), (I * y).sum()]) / I.sum()


for z in [60., -60., 100., -100.]:
    for m in [2.0, 1.5, 1.25, 0.8, 0.75, 0.5]:
        d2 = m * d1
        for fname, E in [("beam+spot", main + spot), ("beam", main)]:
            tag = "z=%g m=%g field=%s" % (z, m, fname)
            a = op.angularSpectrum(E, wvl, d1, d2, z)
            t = op.twoStepFresnel(E, wvl, d1, d2, z)
            err = relerr(t, a)
            if not err < 1e-4:
                mirrored = relerr(numpy.roll(t[::-1, ::-1], 1, axis=(0, 1)), a)
                failures.append("twoStepFresnel != angularSpectrum  %s: rel. error %.3e"
                                " (%.3e after point-reflecting the twoStepFresnel output)"
                                % (tag, err, mirrored))
            if fname == "beam":
                expected = c0 + wvl * z * tilt
                for pname, U in [("angularSpectrum", a), ("twoStepFresnel", t)]:
                    c = centroid(U, d2)
                    if numpy.abs(c - expected).max() > 0.25 * d2:
                        failures.append("%s centroid %s, theory %s  %s"
                                        % (pname, numpy.round(c, 5), numpy.round(expected, 5), tag))

# oneStepFresnel's grid coincides with the others when m = wvl*z/(N*d1**2)
for m in [0.5, 0.75]:
    z = m * N * d1 ** 2 / wvl
    E = main + spot
    o = op.oneStepFresnel(E, wvl, d1, z)
    a = op.angularSpectrum(E, wvl, d1, m * d1, z)
    t = op.twoStepFresnel(E, wvl, d1, m * d1, z)
    for pname, U in [("angularSpectrum", a), ("twoStepFresnel", t)]:
        err = relerr(U, o)
        if not err < 1e-4:
            failures.append("%s != oneStepFresnel  z=%g m=%g: rel. error %.3e" % (pname, z, m, err))

if failures:
    print("C11 VIOLATED: propagators disagree on a matching grid (%d failures)" % len(failures))
    for f in failures[:30]:
        print("  " + f)
    if len(failures) > 30:
        print("  ... and %d more" % (len(failures) - 30))
    sys.exit(1)
print("C11 holds: twoStepFresnel, angularSpectrum and oneStepFresnel agree in value and orientation, "
      "and with the analytic beam position, for m<1 and m>1, z<0 and z>0")
sys.exit(0)
