"""
C07 check: the exact ensemble covariance of ft_phase_screen equals the inverse discrete Fourier
sum of the modified von Karman spectrum on the screen's frequency grid with the zero frequency
removed (hence zero mean and position-independent variance).

The screen is a linear function of its Gaussian draws, so the exact covariance is obtained by
feeding unit draws through the public function (a Generator subclass hands out a prescribed
stream instead of random numbers) and summing the outer products of the responses.  Nothing here
depends on how the function lays out its draws.

Exit 0 if every grid agrees, 1 otherwise.
"""
import sys
import numpy

from aotools.turbulence import ft_phase_screen


class StreamGenerator(numpy.random.Generator):
    """A Generator whose normal deviates are read from a prescribed stream."""

    def __init__(self, hot=None):
        super().__init__(numpy.random.PCG64(0))
        self.hot = hot          # index of the single draw that is 1 (all others 0)
        self.pos = 0

    def _take(self, size):
        if size is None:
            shape, n = (), 1
        else:
            shape = tuple(numpy.atleast_1d(size).astype(int))
            n = int(numpy.prod(shape))
        out = numpy.zeros(n)
        if self.hot is not None and self.pos <= self.hot < self.pos + n:
            out[self.hot - self.pos] = 1.0
        self.pos += n
        return out.reshape(shape)

    def normal(self, loc=0.0, scale=1.0, size=None):
        return loc + scale * self._take(size)

    def standard_normal(self, size=None, dtype=numpy.float64, out=None):
        vals = self._take(size if out is None else out.shape).astype(dtype)
        if out is not None:
            out[...] = vals
            return out
        return vals


def exact_covariance(r0, N, delta, L0, l0):
    probe = StreamGenerator()
    ft_phase_screen(r0, N, delta, L0, l0, seed=probe)
    n_draws = probe.pos
    cov = numpy.zeros((N * N, N * N))
    worst_mean = 0.0
    for k in range(n_draws):
        scrn = ft_phase_screen(r0, N, delta, L0, l0, seed=StreamGenerator(k))
        worst_mean = max(worst_mean, abs(scrn.mean()))
        v = scrn.ravel()
        cov += numpy.outer(v, v)
    return cov, worst_mean


def reference_covariance(r0, N, delta, L0, l0):
    k = numpy.arange(-(N // 2), N // 2)
    del_f = 1.0 / (N * delta)
    kx, ky = numpy.meshgrid(k, k)
    f = numpy.hypot(kx, ky) * del_f
    fm = 5.92 / l0 / (2 * numpy.pi)
    psd = numpy.zeros((N, N))
    nz = (kx != 0) | (ky != 0)
    psd[nz] = 0.023 * r0 ** (-5. / 3) * numpy.exp(-(f[nz] / fm) ** 2) * (f[nz] ** 2 + L0 ** -2.0) ** (-11. / 6)
    # B(dy, dx) = sum_f PSD(f) del_f^2 cos(2 pi (kx dx + ky dy) / N)
    d = numpy.arange(-(N - 1), N)
    E = numpy.exp(2j * numpy.pi * numpy.outer(d, k) / N)        # [d, k]
    B = del_f ** 2 * (E @ psd @ E.T).real
    # B is indexed [dy, dx]
    yy, xx = numpy.meshgrid(numpy.arange(N), numpy.arange(N), indexing="ij")
    yy = yy.ravel()
    xx = xx.ravel()
    dy = yy[:, None] - yy[None, :] + (N - 1)
    dx = xx[:, None] - xx[None, :] + (N - 1)
    return B[dy, dx]


CASES = [
    # r0,  N,  delta, L0,  l0
    (0.15, 8, 0.1, 25.0, 0.02),
    (0.20, 12, 0.05, 10.0, 0.01),
    (0.10, 10, 0.3, 30.0, 0.05),
    (0.25, 6, 0.7, 8.0, 0.10),
    (0.20, 22, 0.01, 20.0, 0.005),
]


def main():
    failures = []
    for (r0, N, delta, L0, l0) in CASES:
        cov, worst_mean = exact_covariance(r0, N, delta, L0, l0)
        ref = reference_covariance(r0, N, delta, L0, l0)
        scale = ref.diagonal().max()
        err = numpy.abs(cov - ref).max() / scale
        var = cov.diagonal()
        var_spread = (var.max() - var.min()) / scale
        mean_rel = worst_mean / numpy.sqrt(scale)
        ok = err < 1e-9 and var_spread < 1e-9 and mean_rel < 1e-9
        print("N=%3d delta=%-6g r0=%g L0=%g l0=%g : cov err %.2e  variance %.6g (expected %.6g)  "
              "spatial mean of a unit response %.2e  -> %s"
              % (N, delta, r0, L0, l0, err, var.mean(), scale, mean_rel, "ok" if ok else "VIOLATION"))
        if not ok:
            failures.append((N, delta))
    if failures:
        print("FAIL: ensemble covariance is not the zero-frequency-free von Karman sum for grids", failures)
        return 1
    print("all grids agree with the discretised von Karman covariance")
    return 0


if __name__ == "__main__":
    sys.exit(main())
