"""
C07 check: for fixed Gaussian draws the amplitude of an FFT phase screen scales exactly as
r0^(-5/6) -- r0 enters only through the overall factor of the spectrum, so the screen made from the
same random stream at another r0 is the same screen times (r0'/r0)^(-5/6).

The draws are fixed in the two public ways: an integer seed, and a Generator restored to the same
state.  The sweep covers ordinary grids and grids whose inner scale l0 spans many pixels (still
inside the stated domain: all even N, pixel sizes, r0, L0, l0).  The sub-harmonic variant is a sum
of terms that all carry the same factor, so it is checked as well.

Exit 0 if the scaling is exact (to rounding) everywhere, 1 otherwise.
"""
import sys
import numpy

from aotools.turbulence import ft_phase_screen, ft_sh_phase_screen

# N, delta, L0, l0
GRIDS = [
    (16, 0.25, 10.0, 0.01),
    (32, 0.05, 30.0, 0.02),
    (64, 0.10, 20.0, 0.50),      # inner scale = 5 pixels
    (64, 0.10, 20.0, 4.00),      # inner scale = 40 pixels
    (64, 0.10, 20.0, 5.00),      # inner scale = 50 pixels
    (32, 0.10, 20.0, 5.00),
    (128, 0.05, 30.0, 2.50),     # inner scale = 50 pixels
]
R0_PAIRS = [(0.05, 0.2), (0.1, 0.5), (0.2, 2.0)]
SEEDS = [1, 7, 12345]
TOL = 1e-10


def fixed_draw_screens(func, r0, grid, seed, how):
    N, delta, L0, l0 = grid
    if how == "int":
        return func(r0, N, delta, L0, l0, seed=seed)
    return func(r0, N, delta, L0, l0, seed=numpy.random.default_rng(seed))


def main():
    failures = []
    for func in (ft_phase_screen, ft_sh_phase_screen):
        for grid in GRIDS:
            worst = 0.0
            for (ra, rb) in R0_PAIRS:
                factor = (rb / ra) ** (-5. / 6)
                for seed in SEEDS:
                    for how in ("int", "generator"):
                        sa = fixed_draw_screens(func, ra, grid, seed, how)
                        sb = fixed_draw_screens(func, rb, grid, seed, how)
                        if not (numpy.all(numpy.isfinite(sa)) and numpy.all(numpy.isfinite(sb))):
                            worst = numpy.inf
                            continue
                        err = numpy.abs(sb - factor * sa).max() / numpy.abs(sb).max()
                        worst = max(worst, err)
            ok = worst < TOL
            print("%-20s N=%3d delta=%-5g L0=%-4g l0=%-5g (l0 = %5.1f px): worst relative deviation from "
                  "r0^(-5/6) scaling %.2e -> %s"
                  % (func.__name__, grid[0], grid[1], grid[2], grid[3], grid[3] / grid[1], worst,
                     "ok" if ok else "VIOLATION"))
            if not ok:
                failures.append((func.__name__,) + grid)
    if failures:
        print("FAIL: with the same draws the screen is not an r0^(-5/6) multiple of itself for", failures)
        return 1
    print("r0^(-5/6) scaling is exact for fixed draws on all grids")
    return 0


if __name__ == "__main__":
    sys.exit(main())
