"""C14 demo A: circle(r, n, c, origin) is exactly the indicator of the pixel centres
(half-integer coordinates counted from the array corner) within distance r of the centre c,
where c is measured from the array middle (origin="middle") or from the corner
(origin="corner"); the two origins therefore describe the same family of masks.

All inputs are dyadic rationals with few bits, so the reference below (exact rational
arithmetic) is the mathematically exact indicator and the float arithmetic of the library
has no rounding to hide behind.
"""
import sys
from fractions import Fraction as F

import numpy
from aotools.functions import pupil


def exact_indicator(radius, size, centre, origin):
    r2 = F(radius) ** 2
    off = F(size) / 2 if origin == "middle" else F(0)
    out = numpy.zeros((size, size))
    for row in range(size):          # axis 0 <-> y, axis 1 <-> x
        for col in range(size):
            dx = F(col) + F(1, 2) - off - F(centre[0])
            dy = F(row) + F(1, 2) - off - F(centre[1])
            if dx * dx + dy * dy <= r2:
                out[row, col] = 1
    return out


def main():
    failures = []
    checked = 0
    radii = [0, 0.5, 1, 1.25, 1.5, 2, 2.5, 3, 3.75, 5, 6.5]
    for size in range(1, 13):
        mid = size / 2.0
        centres = {
            "middle": [(0, 0), (0.5, 0.5), (-0.5, 0.5), (1, -2), (0.25, 1.5),
                       (-mid, -mid), (mid, 0), (size, 1)],
            "corner": [(mid, mid), (0, 0), (0.5, 0.5), (size, size), (1.5, 2.5),
                       (3, 1), (size - 0.5, 0.5), (mid + 0.5, mid - 1), (-1, 2)],
        }
        for origin in ("middle", "corner"):
            for c in centres[origin]:
                for r in radii:
                    got = pupil.circle(r, size, c, origin)
                    want = exact_indicator(r, size, c, origin)
                    checked += 1
                    if got.shape != want.shape or not numpy.array_equal(got, want):
                        failures.append(
                            "circle(%r, %d, %r, %r) is not the exact indicator:\n"
                            "got\n%s\nwant\n%s" % (r, size, c, origin,
                                                   got.astype(int), want.astype(int)))
        # the two origins are the same masks, re-labelled
        for c in [(0, 0), (0.5, -0.5), (1, 2), (-1.5, 0.25)]:
            for r in radii:
                a = pupil.circle(r, size, c, "middle")
                b = pupil.circle(r, size, (c[0] + mid, c[1] + mid), "corner")
                checked += 1
                if not numpy.array_equal(a, b):
                    failures.append(
                        "circle(%r, %d, %r, 'middle') differs from the same circle "
                        "given from the corner, centre %r"
                        % (r, size, c, (c[0] + mid, c[1] + mid)))
        # a corner-origin circle centred on the array middle has the square's symmetries
        for r in radii:
            m = pupil.circle(r, size, (mid, mid), "corner")
            checked += 1
            if not (numpy.array_equal(m, m[::-1]) and numpy.array_equal(m, m[:, ::-1])
                    and numpy.array_equal(m, m.T)):
                failures.append(
                    "circle(%r, %d, (%r, %r), 'corner') is centred on the array middle "
                    "but is not symmetric:\n%s" % (r, size, mid, mid, m.astype(int)))

    if failures:
        print("C14 VIOLATED: %d of %d checks failed; first ones:" % (len(failures), checked))
        for f in failures[:4]:
            print(f)
            print()
        return 1
    print("C14 holds on %d checks" % checked)
    return 0


if __name__ == "__main__":
    sys.exit(main())
