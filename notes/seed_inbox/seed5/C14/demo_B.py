"""C14 demo B: findActiveSubaps(subaps, mask, threshold) returns exactly the grid cells whose
mean mask value is at least the threshold -- for every threshold, including thresholds that
sit exactly on, or one rounding step above, the fill of some cells, and very small positive
thresholds ("any light at all") -- the set shrinks monotonically with the threshold, and the
fills it reports are those recomputed by computeFillFactor.

Mask sizes are multiples of the sub-aperture count, cells hold a power-of-two number of
pixels and mask values are dyadic, so every cell mean is exact in double precision and the
reference (exact rational arithmetic) is unambiguous.
"""
import sys
from fractions import Fraction as F

import numpy
from aotools.functions import pupil
from aotools.wfs import wfslib


def expected_cells(subaps, mask, threshold):
    sx = mask.shape[0] // subaps
    sy = mask.shape[1] // subaps
    thr = F(threshold)
    coords, fills = [], []
    for i in range(subaps):
        for j in range(subaps):
            cell = mask[i * sx:(i + 1) * sx, j * sy:(j + 1) * sy]
            mean = sum(F(float(v)) for v in cell.ravel()) / cell.size
            if mean >= thr:
                coords.append([i * sx, j * sy])
                fills.append(float(mean))
    return numpy.array(coords, dtype=float).reshape(-1, 2), numpy.array(fills)


def main():
    failures = []
    checked = 0

    cases = []
    # binary pupils, 4x4 and 8x8 pixel cells (fills are k/16, k/64: exact)
    for subaps, cell in [(6, 4), (8, 4), (5, 8)]:
        n = subaps * cell
        cases.append(("circle(%g, %d)" % (n / 2., n), subaps, pupil.circle(n / 2., n)))
        cases.append(("circle(%g, %d, (1.5, -2))" % (n / 2. - 3, n), subaps,
                      pupil.circle(n / 2. - 3, n, (1.5, -2))))
    # an apodised (grey) pupil: transmission falls in steps of 2**-20 towards the edge
    n, subaps = 32, 8
    rings = sum(pupil.circle(r, n) for r in (16, 13, 10, 7, 4))       # 0..5
    grey = pupil.circle(16, n) * (0.5 - (5 - rings) * 2.0 ** -20)      # 0.5, 0.5-2**-20, ...
    cases.append(("apodised pupil (0.5 - k*2**-20)", subaps, grey))
    cases.append(("apodised pupil, float32", subaps, grey.astype(numpy.float32)))

    for name, subaps, mask in cases:
        spacing = mask.shape[0] // subaps
        # thresholds: generic ones, tiny positive ones, every occurring fill and its
        # floating-point neighbours
        _, all_fills = expected_cells(subaps, mask, 0)
        thresholds = {0.0, 1e-300, 1e-12, 1e-9, 1e-6, 0.1, 0.25, 0.3, 0.5, 0.6, 0.75, 0.9, 1.0}
        for f in set(all_fills.tolist()):
            thresholds.add(f)
            thresholds.add(float(numpy.nextafter(f, 2.0)))
            if f > 0:
                thresholds.add(float(numpy.nextafter(f, -1.0)))
        previous = None
        for thr in sorted(thresholds):
            want_xy, want_fill = expected_cells(subaps, mask, thr)
            got_xy, got_fill = wfslib.findActiveSubaps(subaps, mask, thr, returnFill=True)
            got_only = wfslib.findActiveSubaps(subaps, mask, thr)
            got_xy = numpy.asarray(got_xy, dtype=float).reshape(-1, 2)
            got_only = numpy.asarray(got_only, dtype=float).reshape(-1, 2)
            checked += 1
            if got_xy.shape != want_xy.shape or not numpy.array_equal(got_xy, want_xy):
                extra = sorted(set(map(tuple, got_xy.tolist())) - set(map(tuple, want_xy.tolist())))
                missing = sorted(set(map(tuple, want_xy.tolist())) - set(map(tuple, got_xy.tolist())))
                failures.append(
                    "%s, %d sub-apertures, threshold %r: %d cells returned, %d have mean >= "
                    "threshold; wrongly active %s, wrongly dropped %s"
                    % (name, subaps, thr, len(got_xy), len(want_xy), extra[:4], missing[:4]))
            else:
                if not numpy.array_equal(got_fill, want_fill):
                    failures.append("%s, threshold %r: reported fills are not the cell means"
                                    % (name, thr))
                recomputed = wfslib.computeFillFactor(mask, got_xy, spacing)
                if not numpy.array_equal(numpy.asarray(got_fill), recomputed):
                    failures.append("%s, threshold %r: fills differ from computeFillFactor"
                                    % (name, thr))
            if not numpy.array_equal(got_only, got_xy):
                failures.append("%s, threshold %r: returnFill changes the selection" % (name, thr))
            # monotone: the set at a higher threshold is contained in the set at a lower one
            now = set(map(tuple, got_xy.tolist()))
            if previous is not None and not now <= previous[1]:
                failures.append("%s: active set at threshold %r is not contained in the set at "
                                "the lower threshold %r" % (name, thr, previous[0]))
            previous = (thr, now)

    if failures:
        print("C14 VIOLATED: %d failures in %d threshold checks; first ones:"
              % (len(failures), checked))
        for f in failures[:6]:
            print(" -", f)
        return 1
    print("C14 holds on %d threshold checks" % checked)
    return 0


if __name__ == "__main__":
    sys.exit(main())
