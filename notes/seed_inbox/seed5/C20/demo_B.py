"""
C20 demo B -- stacks / leading batch axes: per item, the batched call returns what the
single-item call returns.

Shack-Hartmann frames are naturally kept as a grid of sub-aperture images of shape
(n_subaps_y, n_subaps_x, pixels_y, pixels_x).  The centroiders document "2d or greater rank
array of imgs", centroiding over the last two axes.  For every batch shape, item [.., i, j]
of the batched result must equal the result of the call on image [i, j] alone, and the
caller's array must be left untouched.

Exit 0: property holds.  Exit 1: property violated (details printed).
"""
import sys

import numpy

from aotools import image_processing

failures = []
rng = numpy.random.default_rng(2020)


def make_stack(batch_shape, ny, nx):
    """Spot images with different brightness and background per image."""
    stack = rng.random(batch_shape + (ny, nx))
    gain = 1. + 9. * rng.random(batch_shape)          # each sub-aperture sees a different flux
    offset = 5. * rng.random(batch_shape)             # ... and a different background
    return stack * gain[..., None, None] + offset[..., None, None]


def check(name, func, batch_shape, ny, nx, **kwargs):
    stack = make_stack(batch_shape, ny, nx)
    keep = stack.copy()
    try:
        batched = func(stack, **kwargs)
    except Exception as err:                           # a documented batch shape must be accepted
        failures.append("%s, batch shape %s: batched call raised %s: %s"
                        % (name, batch_shape, type(err).__name__, err))
        return
    if not (stack.shape == keep.shape and stack.dtype == keep.dtype
            and stack.tobytes() == keep.tobytes()):
        failures.append("%s, batch shape %s: the caller's array was modified" % (name, batch_shape))
    if batched.shape != (2,) + batch_shape:
        failures.append("%s, batch shape %s: result has shape %s" % (name, batch_shape, batched.shape))
        return
    bad = []
    for index in numpy.ndindex(*batch_shape):
        single = func(stack[index], **kwargs)
        item = batched[(slice(None),) + index]
        if not numpy.allclose(item, single, rtol=0., atol=1e-9):     # NaN never compares close
            bad.append((index, item, single))
    if bad:
        index, item, single = bad[0]
        failures.append(
            "%s, batch shape %s: %d of %d items differ from the single-image call, e.g. item %s: batched %s, alone %s"
            % (name, batch_shape, len(bad), int(numpy.prod(batch_shape)), index, item, single))


batch_shapes = [(5,), (1,), (4, 4), (3, 3), (2, 3), (3, 1), (2, 2, 2)]

for batch_shape in batch_shapes:
    check("brightest_pixel(threshold=0.3)", image_processing.brightest_pixel,
          batch_shape, 6, 6, threshold=0.3)
    check("brightest_pixel(threshold=0.1)", image_processing.brightest_pixel,
          batch_shape, 5, 7, threshold=0.1)
    check("centre_of_gravity(threshold=0.4)", image_processing.centre_of_gravity,
          batch_shape, 6, 6, threshold=0.4)
    check("centre_of_gravity()", image_processing.centre_of_gravity,
          batch_shape, 5, 7)
    check("quadCell", image_processing.quadCell, batch_shape, 2, 2)

if failures:
    print("C20 VIOLATED: a batched call does not return, per item, what the single-item call returns")
    for f in failures[:12]:
        print("  -", f)
    if len(failures) > 12:
        print("  ... and %d more" % (len(failures) - 12))
    sys.exit(1)

print("C20 holds: batched centroider calls agree item by item with single-image calls")
sys.exit(0)
