"""
C20 demo A -- no hidden state between calls (process-wide floating-point error handling).

A reduction pipeline that runs in "strict" mode (numpy.errstate(all="raise"), a common
debugging / CI setting) calls a few AOtools functions on shared data.  What a call returns
(a value, or the FloatingPointError the strict mode asks for) must not depend on which
other library calls were made before it, and no library call may leave the interpreter's
numpy error-handling settings different from how it found them.

Exit 0: property holds.  Exit 1: property violated (details printed).
"""
import sys
import warnings

import numpy

import aotools
from aotools import image_processing
from aotools.turbulence import atmos_conversions


def outcome(func, *args, **kwargs):
    """Result of a call in comparable form: the value, or the exception type it raised."""
    try:
        with warnings.catch_warnings():
            warnings.simplefilter("ignore")
            return ("value", numpy.array(func(*args, **kwargs), dtype=float))
    except FloatingPointError:
        return ("raises", "FloatingPointError")


def same(a, b):
    if a[0] != b[0]:
        return False
    if a[0] == "raises":
        return a[1] == b[1]
    return a[1].shape == b[1].shape and numpy.array_equal(a[1], b[1], equal_nan=True)


def show(o):
    return o[1] if o[0] == "raises" else "value %s" % (numpy.array2string(o[1]),)


failures = []

rng = numpy.random.default_rng(20)
frame = rng.random((6, 6)) + 0.1             # an ordinary lit sub-aperture image
frames = rng.random((4, 6, 6)) + 0.1         # an ordinary stack of them
dark = numpy.zeros((6, 6))                   # a dark frame (no light)
flat_slopes = numpy.ones((2, 5, 30))         # slopes without any variance

# calls whose outcome is probed before and after the other library calls
probes = [
    ("rms_contrast(dark)", lambda: image_processing.rms_contrast(dark)),
    ("image_contrast(dark)", lambda: image_processing.image_contrast(dark)),
    ("r0_from_slopes(flat)", lambda: atmos_conversions.r0_from_slopes(flat_slopes, 500e-9, 0.1)),
    ("quadCell(frame[:2,:2])", lambda: image_processing.quadCell(frame[:2, :2])),
]

# the "other calls" of the program, all on ordinary, well-behaved inputs
others = [
    ("centre_of_gravity(frame)", lambda: image_processing.centre_of_gravity(frame)),
    ("centre_of_gravity(frames, 0.1)", lambda: image_processing.centre_of_gravity(frames, 0.1)),
    ("brightest_pixel(frames, 0.3)", lambda: image_processing.brightest_pixel(frames, 0.3)),
    ("correlation_centroid(frames, frame)", lambda: image_processing.correlation_centroid(frames, frame)),
    ("ft2(frame, 0.1)", lambda: aotools.ft2(frame, 0.1)),
    ("zernikeArray(4, 8)", lambda: aotools.zernikeArray(4, 8)),
    ("structure_function_vk", lambda: aotools.turbulence.slopecovariance.structure_function_vk(
        numpy.array([0., 0.5, 1.]), 0.15, 25.)),
]

for mode in ("raise", "ignore", "warn"):
    with numpy.errstate(all=mode):
        for other_name, other in others:
            before = [outcome(p) for _, p in probes]
            settings_before = numpy.geterr()

            first = outcome(other)
            settings_after = numpy.geterr()
            second = outcome(other)

            after = [outcome(p) for _, p in probes]

            if settings_after != settings_before:
                failures.append(
                    "errstate(all=%r): %s left numpy's error handling changed: %s -> %s"
                    % (mode, other_name, settings_before, settings_after))
            if not same(first, second):
                failures.append("errstate(all=%r): %s called twice gave %s then %s"
                                % (mode, other_name, show(first), show(second)))
            for (pname, _), b, a in zip(probes, before, after):
                if not same(a, b):
                    failures.append(
                        "errstate(all=%r): %s gave [%s] before and [%s] after an unrelated call to %s"
                        % (mode, pname, show(b), show(a), other_name))

if failures:
    print("C20 VIOLATED: results / interpreter state depend on earlier library calls")
    for f in failures[:12]:
        print("  -", f)
    if len(failures) > 12:
        print("  ... and %d more" % (len(failures) - 12))
    sys.exit(1)

print("C20 holds: call outcomes and numpy error settings are independent of earlier library calls")
sys.exit(0)
