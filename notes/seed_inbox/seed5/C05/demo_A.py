"""C05 demo A: the von Karman row recursion must have the theoretical von Karman covariance as its stationary
covariance (and be stable) for every pixel scale -- also when the pixel scale is handed over as an integer
(1 m or 2 m pixels) -- and the screen must keep shape / finiteness / one-row shift there.
Exit 0 = property holds, exit 1 = broken."""
import sys
import numpy as np
from scipy import linalg
from scipy.special import gamma, kv

from aotools.turbulence import infinitephasescreen as ips

failures = []


def vk_cov(r, r0, L0):
    # Assemat & Wilson 2006, eq. 5, written out independently of the library
    r = np.asarray(r, dtype=float)
    x = 2 * np.pi * np.where(r == 0, 1e-30, r) / L0
    c = (L0 / r0) ** (5. / 3) * 2 ** (-5. / 6) * gamma(11. / 6) / np.pi ** (8. / 3) \
        * ((24. / 5) * gamma(6. / 5)) ** (5. / 6)
    return c * x ** (5. / 6) * kv(5. / 6, x)


def theory(N, n_col, pixel_scale, r0, L0):
    rows = np.concatenate([np.repeat(np.arange(n_col), N), -np.ones(N)])
    cols = np.concatenate([np.tile(np.arange(N), n_col), np.arange(N)])
    r = np.hypot(rows[:, None] - rows[None, :], cols[:, None] - cols[None, :]) * float(pixel_scale)
    C = vk_cov(r, r0, L0)
    k = n_col * N
    return C[:k, :k], C[k:, k:]


def check_vk(N, pixel_scale, r0, L0, n_col=2, tol=1e-6):
    tag = "VonKarman(N=%d, pixel_scale=%r, r0=%r, L0=%r, n_columns=%d)" % (N, pixel_scale, r0, L0, n_col)
    try:
        s = ips.PhaseScreenVonKarman(N, pixel_scale, r0, L0, random_seed=3, n_columns=n_col)
    except Exception as e:
        failures.append("%s: constructor failed: %r" % (tag, e))
        return
    # shape / finite / shift for a few steps
    prev = s.scrn.copy()
    for i in range(2 * N):
        out = s.add_row()
        cur = s.scrn.copy()
        if cur.shape != (N, N) or out.shape != (N, N):
            failures.append("%s: shape %r after %d rows" % (tag, cur.shape, i + 1)); return
        if not np.isfinite(cur).all():
            failures.append("%s: non-finite values after %d rows" % (tag, i + 1)); return
        if not np.array_equal(cur[1:], prev[:-1]):
            failures.append("%s: not a one-row shift at step %d" % (tag, i + 1)); return
        prev = cur
    # stationarity: companion recursion state = first n_col rows
    zz, xx = theory(N, n_col, pixel_scale, r0, L0)
    A = np.asarray(s.A_mat, dtype=float)
    B = np.asarray(s.B_mat, dtype=float)
    k = n_col * N
    T = np.zeros((k, k)); T[:N] = A; T[N:, :k - N] = np.eye(k - N)
    rho = np.abs(np.linalg.eigvals(T)).max()
    if not rho < 1:
        failures.append("%s: recursion unstable, spectral radius %.6f" % (tag, rho)); return
    Q = np.zeros((k, k)); Q[:N, :N] = B.dot(B.T)
    S = linalg.solve_discrete_lyapunov(T, Q)
    err = np.abs(S - zz).max() / xx[0, 0]
    if err > tol:
        failures.append("%s: stationary covariance of the recursion differs from the von Karman model by "
                        "%.3g of the variance" % (tag, err))
    return s


def same_physics(N, ps_int, r0, L0):
    """pixel scale 2 and 2.0 are the same physical screen: same seed -> same rows"""
    try:
        a = ips.PhaseScreenVonKarman(N, ps_int, r0, L0, random_seed=11)
        b = ips.PhaseScreenVonKarman(N, float(ps_int), r0, L0, random_seed=11)
        for _ in range(3 * N):
            a.add_row(); b.add_row()
        d = np.abs(a.scrn - b.scrn).max() / np.abs(b.scrn).max()
        if d > 1e-8:
            failures.append("VonKarman N=%d r0=%r L0=%r: pixel_scale=%r and %r (same seed) give different screens, "
                            "rel. diff %.3g" % (N, r0, L0, ps_int, float(ps_int), d))
    except Exception as e:
        failures.append("same_physics(%r): %r" % (ps_int, e))


# controls with float pixel scales
check_vk(16, 0.25, 0.2, 40.)
check_vk(12, 2.0, 0.5, 10.)
# integer-valued pixel scales given as int / NumPy int
check_vk(12, 2, 0.5, 10)
check_vk(16, 1, 0.2, 40)
check_vk(12, np.int64(3), 0.5, 10, n_col=3)
same_physics(12, 2, 0.5, 10)

# Kolmogorov variant: shape / finite / shift with 1 m pixels
try:
    k = ips.PhaseScreenKolmogorov(20, 1, 0.3, 100, random_seed=1)
    prev = k.scrn.copy()
    for i in range(40):
        k.add_row()
        cur = k.scrn.copy()
        if cur.shape != (20, 20) or not np.isfinite(cur).all() or not np.array_equal(cur[1:], prev[:-1]):
            failures.append("Kolmogorov(pixel_scale=1): shape/finite/shift broken at step %d" % (i + 1)); break
        prev = cur
except Exception as e:
    failures.append("Kolmogorov(20, pixel_scale=1, r0=0.3, L0=100): %r" % (e,))

if failures:
    print("C05 BROKEN:")
    for f in failures:
        print("  -", f)
    sys.exit(1)
print("C05 holds for integer and float pixel scales")
sys.exit(0)
