"""C05 demo B: reading or printing the screen must never alter it or the random stream, for any history of
add_row / read operations.  Two screens built with the same parameters and seed receive the same add_row calls;
one of them is additionally read / printed at various points of the history (including before the very first
add_row).  The extra reads must make no difference to any later screen.
Exit 0 = property holds, exit 1 = broken."""
import sys
import numpy as np

from aotools.turbulence import infinitephasescreen as ips

failures = []


def build(kind, seed):
    if kind == "VonKarman":
        return ips.PhaseScreenVonKarman(24, 0.1, 0.15, 30., random_seed=seed, n_columns=2)
    return ips.PhaseScreenKolmogorov(20, 0.1, 0.15, 100., random_seed=seed, stencil_length_factor=2)


def read(s, how):
    if how == "scrn":
        s.scrn
    elif how == "repr":
        repr(s)
    elif how == "str":
        str(s)
    elif how == "copy":
        np.array(s.scrn).sum()


def run(kind, seed, read_points, how, n_steps=6):
    """returns the list of exposed screens after each add_row; read_points = steps before which an extra read is made"""
    s = build(kind, seed)
    frames = []
    for step in range(n_steps):
        if step in read_points:
            read(s, how)
        out = s.add_row()
        frames.append(np.array(out, copy=True))
    return frames


for kind in ("VonKarman", "Kolmogorov"):
    N = 24 if kind == "VonKarman" else 20
    for seed in (0, 7, 2024):
        reference = run(kind, seed, read_points=(), how=None)
        # sanity of the reference history itself: shape, finite, one-row shift
        for i, f in enumerate(reference):
            if f.shape != (N, N) or not np.isfinite(f).all():
                failures.append("%s seed=%d: bad shape / non-finite at step %d" % (kind, seed, i + 1))
            if i and not np.array_equal(f[1:], reference[i - 1][:-1]):
                failures.append("%s seed=%d: step %d is not a one-row shift" % (kind, seed, i + 1))
        for how in ("scrn", "repr", "str", "copy"):
            for read_points in ((0,), (3,), (0, 1, 2, 3, 4, 5), (2, 4)):
                frames = run(kind, seed, read_points, how)
                for i, (f, g) in enumerate(zip(frames, reference)):
                    if not np.array_equal(f, g):
                        failures.append(
                            "%s seed=%d: an extra %s-read before add_row #%s changed the screen seen after add_row #%d "
                            "(max abs diff %.3g rad)" % (kind, seed, how, "/".join(str(p + 1) for p in read_points),
                                                         i + 1, np.abs(f - g).max()))
                        break

    # reading twice in a row gives the same array and leaves the next row untouched
    a = build(kind, 5); b = build(kind, 5)
    first = np.array(a.scrn, copy=True)
    second = np.array(a.scrn, copy=True)
    if not np.array_equal(first, second):
        failures.append("%s: two consecutive reads differ" % kind)
    a.add_row(); b.add_row()
    if not np.array_equal(a.scrn, b.scrn):
        failures.append("%s seed=5: screen read before its first add_row evolves differently from its unread twin"
                        % kind)
    if not np.array_equal(np.array(a.scrn)[1:], first[:-1]):
        failures.append("%s seed=5: first add_row is not a one-row shift of the screen that was read" % kind)

if failures:
    print("C05 BROKEN (%d findings), first few:" % len(failures))
    for f in failures[:8]:
        print("  -", f)
    sys.exit(1)
print("C05 holds: reads / prints never influence the screen or its random stream")
sys.exit(0)
