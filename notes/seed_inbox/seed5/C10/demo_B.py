"""
C10: every propagator is linear and conserves power,
    sum|U_out|^2 d_out^2 == sum|U_in|^2 d_in^2,
for any complex field on an EVEN SQUARE grid and ANY sampling.

Sweep even grid sizes that are not powers of two together with ordinary
"round" pupil samplings (1 mm, 5 cm, 10 cm ...), for every propagator.  A
propagator that cannot produce an output for an in-domain grid/sampling
violates the property just as much as one that returns the wrong power.
"""
import sys
import warnings
import numpy
from aotools import opticalpropagation as op

warnings.simplefilter("ignore")
rng = numpy.random.default_rng(1010)
failures = []
wvl = 1.55e-6

for N in (6, 10, 12, 16, 20, 24, 36, 48, 64, 100):
    for d1 in (1e-3, 5e-3, 0.03, 0.05, 0.07, 0.1, 0.3, 0.7):
        a = rng.normal(size=(N, N)) + 1j * rng.normal(size=(N, N))
        b = rng.normal(size=(N, N)) + 1j * rng.normal(size=(N, N))
        al, be = 0.7 - 1.9j, -1.3 + 0.4j
        z = 40.0 * N * d1 ** 2 / wvl * 0.01
        f = 1.7
        props = [
            ("angularSpectrum", lambda u: op.angularSpectrum(u, wvl, d1, 1.5 * d1, -z), 1.5 * d1),
            ("oneStepFresnel", lambda u: op.oneStepFresnel(u, wvl, d1, z), wvl * z / (N * d1)),
            ("twoStepFresnel", lambda u: op.twoStepFresnel(u, wvl, d1, 0.8 * d1, z), 0.8 * d1),
            ("lensAgainst", lambda u: op.lensAgainst(u, wvl, d1, f), wvl * f / (N * d1)),
        ]
        for name, prop, dout in props:
            tag = "%s N=%d d1=%g" % (name, N, d1)
            try:
                pa, pb, pab = prop(a), prop(b), prop(al * a + be * b)
            except Exception as exc:
                failures.append("%s: no output at all: %s: %s" % (tag, type(exc).__name__, exc))
                continue
            if pa.shape != (N, N):
                failures.append("%s: output shape %r" % (tag, pa.shape))
                continue
            lin = abs(pab - (al * pa + be * pb)).max() / abs(pab).max()
            if not lin < 1e-10:
                failures.append("%s: not linear (relative defect %.3g)" % (tag, lin))
            pin = (abs(a) ** 2).sum() * d1 ** 2
            pout = (abs(pa) ** 2).sum() * dout ** 2
            if not abs(pout / pin - 1) < 1e-10:
                failures.append("%s: power out/in = %.12g" % (tag, pout / pin))

if failures:
    print("C10 VIOLATED (%d findings):" % len(failures))
    for f_ in failures[:15]:
        print("  -", f_)
    sys.exit(1)
print("C10 holds on all even grids / samplings tried")
sys.exit(0)
