"""
C10: every propagator is LINEAR in the input field and conserves power,
    sum|U_out|^2 d_out^2 == sum|U_in|^2 d_in^2   for ANY complex input.

A linear map is homogeneous: P(c*U) == c*P(U) for every complex scalar c --
including c == 0 (the dark field propagates to the dark field) and very small
or very large |c| (a field given in other units).  Power conservation is
checked on the field divided by its own peak, so the check itself never
under- or overflows.
"""
import sys
import warnings
import numpy
from aotools import opticalpropagation as op

warnings.simplefilter("ignore")
rng = numpy.random.default_rng(10)
failures = []

N = 32
wvl = 633e-9
d1 = 2e-3
U = rng.normal(size=(N, N)) + 1j * rng.normal(size=(N, N))

# (name, callable, output spacing)
cases = []
for z in (350.0, -350.0):
    for d2 in (2e-3, 3e-3, 1.2e-3):
        cases.append(("angularSpectrum(d2=%g, z=%g)" % (d2, z),
                      lambda u, d2=d2, z=z: op.angularSpectrum(u, wvl, d1, d2, z), d2))
        cases.append(("twoStepFresnel(d2=%g, z=%g)" % (d2, z),
                      lambda u, d2=d2, z=z: op.twoStepFresnel(u, wvl, d1, d2, z), d2))
    cases.append(("oneStepFresnel(z=%g)" % z,
                  lambda u, z=z: op.oneStepFresnel(u, wvl, d1, z), wvl * abs(z) / (N * d1)))
cases.append(("lensAgainst(f=0.8)", lambda u: op.lensAgainst(u, wvl, d1, 0.8), wvl * 0.8 / (N * d1)))


def relerr(a, b):
    scale = abs(b).max()
    if scale == 0:
        return 0.0 if not numpy.any(a != 0) and numpy.all(numpy.isfinite(a)) else numpy.inf
    err = abs(a - b).max() / scale
    return err if numpy.isfinite(err) else numpy.inf


for name, prop, dout in cases:
    ref = prop(U)

    # homogeneity P(c U) = c P(U)
    for c in (0.0, 1e-200, 1e-165 * (1 - 2j), 3e-150j, 2.5 - 1j, 4e140, 1e170j):
        out = prop(c * U)
        e = relerr(out, c * ref)
        if not e < 1e-9:
            failures.append("%s: P(c*U) != c*P(U) for c=%r  (relative error %.3g)" % (name, c, e))

        # power conservation on the peak-normalised field
        s = abs(c) if c != 0 else 1.0
        pin = (abs(c * U / s) ** 2).sum() * d1 ** 2
        pout = (abs(out / s) ** 2).sum() * dout ** 2
        if not abs(pout - pin) <= 1e-9 * max(pin, 1e-300):
            failures.append("%s: power not conserved for c=%r: in %.6g (peak-normalised), out %.6g"
                            % (name, c, pin, pout))

    # additivity with a cancelling pair: P(U) + P(-U) = P(U - U) = 0
    out = prop(U - U)
    if not (numpy.all(numpy.isfinite(out)) and not numpy.any(out != 0)):
        failures.append("%s: the zero field does not propagate to the zero field (got %r ...)"
                        % (name, out.ravel()[0]))

if failures:
    print("C10 VIOLATED (%d findings):" % len(failures))
    for f in failures[:20]:
        print("  -", f)
    sys.exit(1)
print("C10 holds: homogeneous for all scalings incl. 0, power conserved")
sys.exit(0)
