"""
C04 demo A -- Fried-stencil (PhaseScreenKolmogorov) rows over a LONG run.

Property exercised (for every step of a long extrusion, not just the first few):
  * the new row is the affine function  X = A.(Z - ref) + B.b + ref  of the stencil values Z, the
    reference pixel ref and the unit-normal innovation b drawn for that step;
  * the old phase is kept: after a step, rows 1.. of the screen are rows 0.. of the screen before it;
  * adding a constant to the whole screen adds exactly that constant to every later new row.

Two screens are built from the same seed; a constant is added to the whole of the second one; both
are then extruded for several buffer lengths.  Exit 0 if all three statements hold at every step,
exit 1 (with a message) otherwise.
"""
import copy
import sys

import numpy

from aotools.turbulence import infinitephasescreen as ips


def run_case(nx, pixel_scale, r0, L0, factor, const, seed):
    s1 = ips.PhaseScreenKolmogorov(nx, pixel_scale, r0, L0, random_seed=seed, stencil_length_factor=factor)
    s2 = ips.PhaseScreenKolmogorov(nx, pixel_scale, r0, L0, random_seed=seed, stencil_length_factor=factor)
    s2._scrn = s2._scrn + const          # the same screen, plus a constant everywhere

    rows = numpy.array([c[0] for c in s1.stencil_coords])
    cols = numpy.array([c[1] for c in s1.stencil_coords])
    n_steps = 3 * s1.stencil_length + 2
    tol = 1e-9 * max(1.0, abs(const))
    problems = []

    for step in range(1, n_steps + 1):
        before1 = numpy.array(s1._scrn, copy=True)
        before2 = numpy.array(s2._scrn, copy=True)

        # the innovation this step will use (same generator state in a private copy)
        b = copy.deepcopy(s1._R).normal(0, 1, size=s1.nx_size)

        s1.add_row()
        s2.add_row()
        after1 = numpy.array(s1._scrn, copy=True)
        after2 = numpy.array(s2._scrn, copy=True)

        # (1) affine law, relative to the reference pixel
        ref = before1[s1.reference_coord]
        expect = s1.A_mat.dot(before1[rows, cols] - ref) + s1.B_mat.dot(b) + ref
        err = numpy.abs(after1[0] - expect).max()
        if err > tol:
            problems.append("step %d: new row differs from A.(Z-ref)+B.b+ref by %.3e" % (step, err))

        # (2) old phase kept
        err = numpy.abs(after1[1:] - before1[:-1]).max()
        if err > tol:
            problems.append("step %d: old rows of the screen changed by %.3e" % (step, err))

        # (3) constant carried exactly
        err = numpy.abs((after2[0] - after1[0]) - const).max()
        if err > tol:
            problems.append("step %d: new row of the shifted screen is off by %.3e from (row + %g)"
                            % (step, err, const))
        err = numpy.abs((after2 - after1) - const).max()
        if err > tol:
            problems.append("step %d: shifted screen no longer equals screen + %g (max dev %.3e)"
                            % (step, const, err))
        if len(problems) > 6:
            break
    return n_steps, problems


def main():
    bad = False
    cases = [
        # requested size, pixel scale, r0, L0, stencil_length_factor, constant, seed
        (5, 0.10, 0.15, 20.0, 4, 3.5, 11),
        (6, 0.25, 0.20, 30.0, 2, -120.0, 5),     # 6 is not 2^n+1: padded to 9
        (3, 0.05, 0.10, 10.0, 4, 1000.0, 2),
    ]
    for case in cases:
        n_steps, problems = run_case(*case)
        if problems:
            bad = True
            print("FAIL nx=%d pixel_scale=%g r0=%g L0=%g factor=%d const=%g seed=%d (%d steps)" % (case + (n_steps,)))
            for p in problems:
                print("    " + p)
        else:
            print("ok   nx=%d pixel_scale=%g r0=%g L0=%g factor=%d const=%g seed=%d (%d steps)" % (case + (n_steps,)))
    if bad:
        print("C04 violated: Fried-stencil rows do not follow the affine / constant-carrying law over a long run")
        return 1
    print("C04 holds over the long runs tried")
    return 0


if __name__ == "__main__":
    sys.exit(main())
