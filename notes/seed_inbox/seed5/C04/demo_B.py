"""
C04 demo B -- A and B of an infinite phase screen after the turbulence parameters are re-tuned.

The only way the API offers to change r0 / L0 of an existing screen is to set the attribute and
re-run the matrix construction (make_covmats, makeAMatrix, makeBMatrix).  The property must hold for
the matrices the screen then uses:  A.Cov(Z,Z) = Cov(X,Z)  and  A.Cov(Z,Z).A^T + B.B^T = Cov(X,X)
with the theoretical von Karman covariance at the TRUE pixel separations and the CURRENT r0, L0, and a
new row must be  A.Z + B.b  (relative to the reference pixel for the Fried variant).

The covariance used as the yardstick is computed here, independently of the library.
Exit 0 if everything holds, 1 otherwise.
"""
import copy
import sys

import numpy
from scipy.special import gamma, kv

from aotools.turbulence import infinitephasescreen as ips


def vk_cov(r, r0, L0):
    """von Karman phase covariance (Assemat & Wilson 2006, eq. 5), r = 0 handled by its limit."""
    r = numpy.asarray(r, dtype=float)
    x = 2 * numpy.pi * r / L0
    pref = (L0 / r0) ** (5. / 3) * 2 ** (-5. / 6) * gamma(11. / 6) / numpy.pi ** (8. / 3) \
        * ((24. / 5) * gamma(6. / 5)) ** (5. / 6)
    out = numpy.empty_like(x)
    zero = x == 0
    out[zero] = gamma(5. / 6) / 2 ** (1. / 6)
    out[~zero] = x[~zero] ** (5. / 6) * kv(5. / 6, x[~zero])
    return pref * out


def true_covariances(s):
    """Cov(Z,Z), Cov(X,Z), Cov(X,X) from the geometry: stencil pixels (row, col) and the new row at row -1."""
    z = numpy.array(s.stencil_coords, dtype=float)
    x = numpy.stack([-numpy.ones(s.nx_size), numpy.arange(s.nx_size, dtype=float)], axis=1)
    pts = numpy.concatenate([z, x]) * float(s.pixel_scale)
    d = pts[:, None, :] - pts[None, :, :]
    cov = vk_cov(numpy.sqrt((d ** 2).sum(-1)), float(s.r0), float(s.L0))
    n = len(z)
    return cov[:n, :n], cov[n:, :n], cov[n:, n:]


def check(s, label, problems):
    czz, cxz, cxx = true_covariances(s)
    var = cxx[0, 0]
    A, B = s.A_mat, s.B_mat
    e1 = numpy.abs(A.dot(czz) - cxz).max() / var
    e2 = numpy.abs(A.dot(czz).dot(A.T) + B.dot(B.T) - cxx).max() / var
    if not e1 < 1e-6:
        problems.append("%s: |A.Czz - Cxz| / variance = %.3e" % (label, e1))
    if not e2 < 1e-6:
        problems.append("%s: |A.Czz.A^T + B.B^T - Cxx| / variance = %.3e" % (label, e2))

    # a new row is the affine function of stencil values and the innovation
    before = numpy.array(s._scrn, copy=True)
    b = copy.deepcopy(s._R).normal(0, 1, size=s.nx_size)
    s.add_row()
    Z = before[s.stencil_coords[:, 0], s.stencil_coords[:, 1]]
    ref = before[s.reference_coord] if isinstance(s, ips.PhaseScreenKolmogorov) else 0.0
    expect = A.dot(Z - ref) + B.dot(b) + ref
    e3 = numpy.abs(s._scrn[0] - expect).max()
    if not e3 < 1e-9:
        problems.append("%s: new row differs from A.Z + B.b by %.3e" % (label, e3))


def retune(s, r0=None, L0=None):
    if r0 is not None:
        s.r0 = r0
    if L0 is not None:
        s.L0 = L0
    s.make_covmats()
    s.makeAMatrix()
    s.makeBMatrix()


def main():
    problems = []
    screens = [
        ("VonKarman nx=8 n_columns=2", ips.PhaseScreenVonKarman(8, 0.1, 0.2, 20.0, random_seed=3, n_columns=2)),
        ("VonKarman nx=7 n_columns=3", ips.PhaseScreenVonKarman(7, 0.25, 0.1, 12.0, random_seed=4, n_columns=3)),
        ("Fried nx=9 factor=4", ips.PhaseScreenKolmogorov(9, 0.1, 0.2, 20.0, random_seed=5, stencil_length_factor=4)),
        ("Fried nx=6 factor=2", ips.PhaseScreenKolmogorov(6, 0.2, 0.15, 25.0, random_seed=6, stencil_length_factor=2)),
    ]
    for name, s in screens:
        check(s, name + " as constructed", problems)
        for _ in range(3):
            s.add_row()
        retune(s, r0=0.5 * s.r0)                       # seeing gets worse
        check(s, name + " after r0 halved", problems)
        for _ in range(3):
            s.add_row()
        retune(s, r0=3.0 * s.r0, L0=0.8 * s.L0)        # and better again, smaller outer scale
        check(s, name + " after r0 x3, L0 x0.8", problems)

    if problems:
        for p in problems:
            print("FAIL " + p)
        print("C04 violated: the A / B matrices in use do not satisfy the conditional von Karman identities")
        return 1
    print("C04 holds for constructed and re-tuned screens")
    return 0


if __name__ == "__main__":
    sys.exit(main())
