"""
C11 -- angular-spectrum propagation with a magnification m:
  * propagating back over -z with magnification 1/m recovers the input field up to ONE constant phase factor;
  * on the grid it shares with twoStepFresnel it returns the same field (again up to one constant phase), and
    both are the analytic Gaussian beam.
The statements are scale free (any wavelength / spacing / distance), so they are exercised both on a telescope-sized
grid (cm samples, km distances) and on a bench-sized grid (micron samples, mm distances).
"""
import sys
import numpy as np
from aotools import opticalpropagation as op

failures = []


def upToConstantPhase(a, ref):
    """largest deviation of a from ref after removing the best constant phase factor, relative to max|ref|"""
    c = np.vdot(ref, a)
    c = c / abs(c)
    return abs(a / c - ref).max() / abs(ref).max()


def check(label, err, tol):
    status = "ok  " if err <= tol else "FAIL"
    print("%s %-78s err=%.3e (tol %.0e)" % (status, label, err, tol))
    if not err <= tol:
        failures.append(label)


rng = np.random.default_rng(11)

# (label, N, wavelength, input spacing, magnification, distance)
geometries = [
    ("telescope scale", 64, 500e-9, 1e-2, 2.0, 5000.),
    ("telescope scale", 64, 500e-9, 1e-2, 0.5, 5000.),
    ("bench scale", 64, 1e-6, 5e-6, 2.0, 2e-3),
    ("bench scale", 64, 1e-6, 5e-6, 0.5, 2e-3),
    ("bench scale", 96, 633e-9, 2e-6, 1.5, 5e-4),
]

# 1. there and back again: m then 1/m
for label, N, wvl, d1, m, z in geometries:
    U = rng.standard_normal((N, N)) + 1j * rng.standard_normal((N, N))
    d2 = m * d1
    there = op.angularSpectrum(U, wvl, d1, d2, z)
    back = op.angularSpectrum(there, wvl, d2, d1, -z)
    check("round trip m=%g then 1/m, %s (N=%d, d=%g, z=%g)" % (m, label, N, d1, z),
          upToConstantPhase(back, U), 1e-7)

# 2. same Fresnel integral as twoStepFresnel / the analytic Gaussian beam on the shared output grid
for label, N, wvl, d1, w0, m, z in [
    ("telescope scale", 256, 500e-9, 5e-3, 2e-2, 2.0, 5000.),
    ("bench scale", 256, 1e-6, 4e-6, 12e-6, 2.0, 1e-3),
    ("bench scale", 256, 1e-6, 4e-6, 12e-6, 2.0, 3e-3),
]:
    k = 2 * np.pi / wvl
    c = (np.arange(N) - N // 2) * d1
    x, y = np.meshgrid(c, c)
    U0 = np.exp(-(x ** 2 + y ** 2) / w0 ** 2).astype(complex)
    d2 = m * d1
    q0 = -1j * np.pi * w0 ** 2 / wvl
    q = z + q0
    analytic = (q0 / q) * np.exp(1j * k * (x ** 2 + y ** 2) * m ** 2 / (2 * q))
    a = op.angularSpectrum(U0, wvl, d1, d2, z)
    t = op.twoStepFresnel(U0, wvl, d1, d2, z)
    check("Gaussian beam, angularSpectrum vs twoStepFresnel, %s (d=%g, z=%g)" % (label, d1, z),
          upToConstantPhase(a, t), 1e-6)
    check("Gaussian beam, angularSpectrum vs analytic beam,  %s (d=%g, z=%g)" % (label, d1, z),
          upToConstantPhase(a, analytic), 1e-6)

if failures:
    print("\nC11 violated: %d check(s) failed" % len(failures))
    for f in failures:
        print("  - " + f)
    sys.exit(1)
print("\nall C11 checks passed")
sys.exit(0)
