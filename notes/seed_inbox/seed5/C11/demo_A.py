"""
C11 -- every propagator evaluates the same Fresnel integral:
  * angularSpectrum reproduces the analytic Gaussian beam (width, wavefront curvature and Gouy phase all sit in the
    complex beam parameter q = z - i*zR),
  * angularSpectrum, twoStepFresnel and oneStepFresnel return the same field wherever their grids coincide,
  * the Fresnel integral only knows the product wavelength*distance.
All of this holds for any wavelength and spacing; it is exercised on a telescope-sized grid (cm samples, km) and on a
bench-sized grid whose samples are a few wavelengths wide (micron samples, mm).
"""
import sys
import numpy as np
from aotools import opticalpropagation as op

failures = []


def relErr(a, ref):
    return abs(a - ref).max() / abs(ref).max()


def check(label, err, tol):
    status = "ok  " if err <= tol else "FAIL"
    print("%s %-86s err=%.3e (tol %.0e)" % (status, label, err, tol))
    if not err <= tol:
        failures.append(label)


def grid(N, d):
    c = (np.arange(N) - N // 2) * d
    x, y = np.meshgrid(c, c)
    return x, y


def gaussianBeam(x, y, wvl, w0, z):
    """analytic solution of the Fresnel integral for a waist exp(-r^2/w0^2) at z=0 (carrier exp(ikz) dropped)"""
    k = 2 * np.pi / wvl
    q0 = -1j * np.pi * w0 ** 2 / wvl
    q = z + q0
    return (q0 / q) * np.exp(1j * k * (x ** 2 + y ** 2) / (2 * q))


# (label, N, wavelength, spacing, waist, distance)
cases = [
    ("telescope scale", 256, 500e-9, 5e-3, 2e-2, 5000.),
    ("telescope scale", 256, 1.65e-6, 1e-2, 5e-2, 12000.),
    ("bench scale", 256, 1e-6, 4e-6, 12e-6, 3e-3),
    ("bench scale", 256, 633e-9, 2e-6, 7e-6, 1.2e-3),
]

for label, N, wvl, d, w0, z in cases:
    x, y = grid(N, d)
    U0 = gaussianBeam(x, y, wvl, w0, 0.)
    tag = "%s (wvl=%g, d=%g, w0=%g, z=%g)" % (label, wvl, d, w0, z)

    a = op.angularSpectrum(U0, wvl, d, d, z)
    check("Gaussian beam: angularSpectrum vs analytic, " + tag, relErr(a, gaussianBeam(x, y, wvl, w0, z)), 1e-6)

    # same grid, other propagator
    t = op.twoStepFresnel(U0, wvl, d, d, z)
    check("Gaussian beam: angularSpectrum vs twoStepFresnel, " + tag, relErr(a, t), 1e-6)

    # the distance at which oneStepFresnel lands on the input grid itself
    zc = N * d ** 2 / wvl
    x0, y0 = grid(N, d)
    w0c = 6 * d
    Uc = gaussianBeam(x0, y0, wvl, w0c, 0.) * np.exp(2j * np.pi * (3 * x0 - 2 * y0) / (N * d))  # not symmetric
    one = op.oneStepFresnel(Uc, wvl, d, zc)
    ang = op.angularSpectrum(Uc, wvl, d, d, zc)
    check("tilted beam: angularSpectrum vs oneStepFresnel at z=N d^2/wvl, " + label + " (d=%g)" % d,
          relErr(ang, one), 1e-6)

    # only wavelength*distance matters
    b = op.angularSpectrum(U0, 2 * wvl, d, d, z / 2)
    check("angularSpectrum(wvl, z) vs angularSpectrum(2 wvl, z/2), " + tag, relErr(b, a), 1e-6)

if failures:
    print("\nC11 violated: %d check(s) failed" % len(failures))
    for f in failures:
        print("  - " + f)
    sys.exit(1)
print("\nall C11 checks passed")
sys.exit(0)
