"""
C09 demo B: ft2 / ift2 are EXACT inverse pairs (to double-precision round-off) obeying Parseval
for every real or complex input -- whatever type the samples happen to be stored in.  Detector
frames (uint16 / int16 / uint8) and pupil masks (bool / int8) are real inputs like any other.

For each storage type the demo checks, with delta_f = 1/(N*delta):
  * ift2(ft2(x, delta), delta_f) == x            (round-off level)
  * sum|x|^2 delta^2 == sum|X|^2 delta_f^2       (Parseval, round-off level)
  * ft2(x) equals the centred, delta^2-weighted DFT sum of the same numbers
Exits 0 when all hold, 1 (with a report) otherwise.
"""
import sys
import numpy
import aotools
from aotools import fouriertransform

TOL = 1e-10          # relative; double precision gives ~1e-15, anything near 1e-7 is a failure
failures = []


def check(ok, msg):
    if not ok:
        failures.append(msg)


def dft2(x, delta):
    """Riemann sum of the continuous transform, origin at the centre sample (long-hand)."""
    ny, nx = x.shape[-2:]
    jy = numpy.arange(ny) - ny // 2
    jx = numpy.arange(nx) - nx // 2
    Wy = numpy.exp(-2j * numpy.pi * numpy.outer(jy, jy) / ny)
    Wx = numpy.exp(-2j * numpy.pi * numpy.outer(jx, jx) / nx)
    return numpy.einsum('ab,...bc,dc->...ad', Wy, x.astype(numpy.complex128), Wx) * delta ** 2


def samples(rng, dtype, shape):
    dtype = numpy.dtype(dtype)
    if dtype.kind == 'b':
        return rng.random(shape) < 0.4
    if dtype.kind in 'ui':
        info = numpy.iinfo(dtype)
        lo, hi = max(info.min, -40000), min(info.max, 60000)
        return rng.integers(lo, hi, size=shape, endpoint=True).astype(dtype)
    if dtype.kind == 'c':
        return (rng.normal(size=shape) + 1j * rng.normal(size=shape)).astype(dtype)
    return (1000. * rng.normal(size=shape)).astype(dtype)


rng = numpy.random.default_rng(909)
types = ['float64', 'complex128', 'int64', 'int32', 'uint32', 'uint16', 'int16', 'uint8', 'int8', 'bool']

for label, ft2, ift2 in (("aotools", aotools.ft2, aotools.ift2),
                         ("aotools.fouriertransform", fouriertransform.ft2, fouriertransform.ift2)):
    for dtype in types:
        for shape in ((16, 16), (15, 15), (3, 12, 12), (2, 2, 9, 9)):
            for delta in (0.01, 0.5, 7.):
                N = shape[-1]
                delta_f = 1. / (N * delta)
                x = samples(rng, dtype, shape)
                xd = x.astype(numpy.complex128)
                scale = max(numpy.abs(xd).max(), 1.)
                where = "%s, %s samples, shape %s, delta=%g" % (label, dtype, shape, delta)

                X = ft2(x, delta)
                back = ift2(X, delta_f)
                err = numpy.abs(back - xd).max() / scale
                check(err < TOL, "%s: ift2(ft2(x)) differs from x by %.3g (relative)" % (where, err))

                lhs = (numpy.abs(xd) ** 2).sum() * delta ** 2
                rhs = (numpy.abs(numpy.asarray(X, dtype=numpy.complex128)) ** 2).sum() * delta_f ** 2
                err = abs(lhs - rhs) / lhs if lhs else abs(rhs)
                check(err < TOL, "%s: Parseval off by %.3g (relative): %.15g vs %.15g" % (where, err, lhs, rhs))

                ref = dft2(x, delta)
                err = numpy.abs(X - ref).max() / numpy.abs(ref).max()
                check(err < TOL, "%s: ft2(x) differs from the centred DFT sum by %.3g (relative)" % (where, err))

                # the inverse applied to a spectrum stored in that type, then transformed forward again
                again = ft2(ift2(x, delta_f), delta)
                err = numpy.abs(again - xd).max() / scale
                check(err < TOL, "%s: ft2(ift2(x)) differs from x by %.3g (relative)" % (where, err))

if failures:
    print("C09 demo B: %d violation(s) of the scaled-Fourier-transform property" % len(failures))
    for msg in failures[:12]:
        print("  - " + msg)
    if len(failures) > 12:
        print("  ... and %d more" % (len(failures) - 12))
    sys.exit(1)
print("C09 demo B: ft2/ift2 are exact inverse pairs obeying Parseval for every tested sample type")
sys.exit(0)
