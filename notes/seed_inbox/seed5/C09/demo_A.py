"""
C09 demo A: the scaled 1-D transforms approximate the continuous Fourier transform with the
origin at the centre sample, for EVERY length N (odd, even, divisible by four or not):

  * a centred Gaussian exp(-pi x^2/w^2) maps to the analytic Gaussian w*exp(-pi w^2 f^2),
  * a unit sample k places right of the centre maps to delta*exp(-2 pi i f k delta)
    (so a centred unit sample maps to the constant +delta),
  * ift undoes ft when delta_f = 1/(N*delta), and maps the constant spectrum 1 to a centred
    spike of height N*delta_f,
  * Parseval holds.

Exits 0 when all of that holds, 1 (with a report) otherwise.
"""
import sys
import numpy
import aotools
from aotools import fouriertransform

failures = []


def check(ok, msg):
    if not ok:
        failures.append(msg)


def coords(N, delta):
    n = numpy.arange(N) - N // 2
    return n * delta, n / (N * delta)


rng = numpy.random.default_rng(9)

for label, ft, ift in (("aotools", aotools.ft, aotools.ift),
                       ("aotools.fouriertransform", fouriertransform.ft, fouriertransform.ift)):
    # --- centred Gaussian -> analytic Gaussian ------------------------------------------
    for N in (32, 33, 34, 48, 50, 63, 64, 66, 100, 102, 128, 130):
        for delta in (0.05, 0.25):
            x, f = coords(N, delta)
            w = N * delta / 8.
            g = numpy.exp(-numpy.pi * x ** 2 / w ** 2)
            G = ft(g, delta)
            expect = w * numpy.exp(-numpy.pi * w ** 2 * f ** 2)
            err = numpy.abs(G - expect).max() / w
            check(err < 1e-5, "%s.ft: centred Gaussian, N=%d delta=%g: max deviation from the analytic "
                  "transform %.3g (value at f=0 is %s, expected %+.6g)"
                  % (label, N, delta, err, G[N // 2], w))
            # and back
            g_back = ift(expect.astype(complex), 1. / (N * delta))
            err = numpy.abs(g_back - g).max()
            check(err < 1e-5, "%s.ift: analytic Gaussian spectrum, N=%d delta=%g: max deviation from the "
                  "centred Gaussian %.3g (value at x=0 is %s, expected +1)"
                  % (label, N, delta, err, g_back[N // 2]))

    # --- shifted unit sample -> linear phase; inverse pair; Parseval --------------------
    for N in list(range(1, 27)) + [30, 31, 32, 62, 64, 98, 100]:
        delta = 0.3
        delta_f = 1. / (N * delta)
        x, f = coords(N, delta)
        for k in sorted({0, 1, -1, (N - 1) // 2, -(N // 2)}):
            if not (0 <= N // 2 + k < N):
                continue
            spike = numpy.zeros(N)
            spike[N // 2 + k] = 1.
            S = ft(spike, delta)
            expect = delta * numpy.exp(-2j * numpy.pi * f * k * delta)
            err = numpy.abs(S - expect).max() / delta
            check(err < 1e-10, "%s.ft: unit sample %+d from the centre, N=%d: spectrum deviates from "
                  "delta*exp(-2 pi i f k delta) by %.3g (first value %s, expected %s)"
                  % (label, k, N, err, S[0], expect[0]))
        flat = numpy.ones(N, dtype=complex)
        s = ift(flat, delta_f)
        expect = numpy.zeros(N)
        expect[N // 2] = N * delta_f
        err = numpy.abs(s - expect).max() / (N * delta_f)
        check(err < 1e-10, "%s.ift: constant spectrum, N=%d: not a centred spike of height N*delta_f "
              "(centre value %s, expected %+.6g)" % (label, N, s[N // 2], N * delta_f))

        z = rng.normal(size=(3, N)) + 1j * rng.normal(size=(3, N))
        Z = ft(z, delta)
        err = numpy.abs(ift(Z, delta_f) - z).max()
        check(err < 1e-10, "%s: ift(ft(z)) != z for N=%d (max error %.3g)" % (label, N, err))
        err = numpy.abs(ft(ift(z, delta_f), delta) - z).max()
        check(err < 1e-10, "%s: ft(ift(z)) != z for N=%d (max error %.3g)" % (label, N, err))
        lhs = (numpy.abs(z) ** 2).sum() * delta
        rhs = (numpy.abs(Z) ** 2).sum() * delta_f
        check(abs(lhs - rhs) < 1e-10 * lhs, "%s: Parseval violated for N=%d (%.12g vs %.12g)" % (label, N, lhs, rhs))

if failures:
    print("C09 demo A: %d violation(s) of the scaled-Fourier-transform property" % len(failures))
    for msg in failures[:12]:
        print("  - " + msg)
    if len(failures) > 12:
        print("  ... and %d more" % (len(failures) - 12))
    sys.exit(1)
print("C09 demo A: ft/ift have their origin at the centre sample for every tested length; property holds")
sys.exit(0)
