"""C18 / equivalent_layers: compression conserves the turbulence it compresses.

For regularly sampled profiles (the usual output of a profiler: one layer every dh metres) and every target
layer count L, equivalent_layers must return L layers with non-negative strengths, conserve the total Cn2,
the 5/3 height moment (isoplanatic angle) and -- with wind -- the 5/3 wind moment (coherence time).
No input layer may be dropped or counted twice.
"""
import sys
import warnings
import numpy
from aotools.turbulence import equivalent_layers

warnings.simplefilter("ignore")
rng = numpy.random.default_rng(1807)
failures = []
checked = 0


def check(tag, h, p, w, L):
    global checked
    checked += 1
    h_el, cn2_el, w_el = equivalent_layers(h, p, L, w=w)
    if not (len(h_el) == len(cn2_el) == len(w_el) == L):
        failures.append("%s L=%d: wrong number of layers %d" % (tag, L, len(cn2_el)))
        return
    if not (cn2_el >= 0).all():
        failures.append("%s L=%d: negative strength" % (tag, L))
    tot_in, tot_out = p.sum(), cn2_el.sum()
    if abs(tot_out - tot_in) > 1e-11 * tot_in:
        failures.append("%s L=%d: total Cn2 changed by %+.3e (relative)" % (tag, L, (tot_out - tot_in) / tot_in))
    live = cn2_el > 0          # a slab without turbulence carries no moment
    m_in = (p * h ** (5 / 3)).sum()
    m_out = (cn2_el[live] * h_el[live] ** (5 / 3)).sum()
    if abs(m_out - m_in) > 1e-10 * m_in:
        failures.append("%s L=%d: 5/3 height moment changed by %+.3e (relative)" % (tag, L, (m_out - m_in) / m_in))
    v_in = (p * w ** (5 / 3)).sum()
    v_out = (cn2_el[live] * w_el[live] ** (5 / 3)).sum()
    if abs(v_out - v_in) > 1e-10 * v_in:
        failures.append("%s L=%d: 5/3 wind moment changed by %+.3e (relative)" % (tag, L, (v_out - v_in) / v_in))


# regularly sampled profiles, ground layer at 0 or at an offset, every L up to 16
for dh in (100., 125., 150., 200., 250., 500., 1000.):
    for h0 in (0., 50.):
        for N in (13, 22, 25, 43, 49, 58, 76, 85, 94, 101):
            h = h0 + dh * numpy.arange(N)
            p = (0.02 + rng.random(N)) * 1e-14
            w = 2. + 30. * rng.random(N)
            for L in range(1, min(N, 17)):
                check("regular dh=%g h0=%g N=%d" % (dh, h0, N), h, p, w, L)

# numpy.linspace grids
for H, N in ((20000., 41), (25000., 101), (20000., 101), (30000., 61)):
    h = numpy.linspace(0, H, N)
    p = (0.02 + rng.random(N)) * 1e-14
    w = 2. + 30. * rng.random(N)
    for L in range(1, 31):
        check("linspace H=%g N=%d" % (H, N), h, p, w, L)

# irregular profiles
for trial in range(40):
    N = int(rng.integers(3, 40))
    h = numpy.sort(rng.random(N)) * 22000.
    h[0] = 0.
    p = (0.02 + rng.random(N)) * 1e-14
    w = 2. + 30. * rng.random(N)
    for L in range(1, N):
        check("irregular #%d N=%d" % (trial, N), h, p, w, L)

print("%d (profile, L) pairs checked, %d violations" % (checked, len(failures)))
if failures:
    for f in failures[:20]:
        print("VIOLATION:", f)
    if len(failures) > 20:
        print("... and %d more" % (len(failures) - 20))
    sys.exit(1)
print("equivalent_layers conserved total Cn2, 5/3 height moment and 5/3 wind moment in every case")
sys.exit(0)
