"""C18 / optimal_grouping: the compressed profile is made of input heights in increasing order, conserves the
total Cn2, drops no layer, and costs no more than the equal split -- for every profile, whatever integer or
floating type its heights are stored in (profiles read from files often carry heights in metres as uint16/uint32),
for every L and every state of NumPy's global random generator.

The cost of a compressed profile is the one the method minimises (Saxenhuber 2017, Eq. 7):
sum over groups of sum_j cn2_j |h_j - H_group|, with H_group the height returned for the group.
"""
import sys
import warnings
import numpy
from aotools.turbulence import optimal_grouping

warnings.simplefilter("ignore")
failures = []
checked = 0


def equal_split_cost(h, p, L):
    N = len(p)
    edges = numpy.concatenate(([0], numpy.linspace(0, N, L + 1, dtype=int)[1:-1] + 1, [N]))
    cost = 0.
    for a, b in zip(edges[:-1], edges[1:]):
        hg, pg = h[a:b], p[a:b]
        cost += min((pg * numpy.abs(hg - c)).sum() for c in hg)
    return cost


def check(tag, h_in, p, L, R, seed):
    global checked
    checked += 1
    hf = numpy.asarray(h_in, dtype=float)
    numpy.random.seed(seed)
    try:
        h_L, cn2_L = optimal_grouping(R, L, h_in, p)
    except Exception as e:
        failures.append("%s: raised %s: %s" % (tag, type(e).__name__, e))
        return
    h_L = numpy.asarray(h_L, dtype=float)
    if len(h_L) != L or len(cn2_L) != L:
        failures.append("%s: %d/%d layers returned instead of %d" % (tag, len(h_L), len(cn2_L), L))
        return
    if not (cn2_L >= 0).all():
        failures.append("%s: negative strength" % tag)
    if abs(cn2_L.sum() - p.sum()) > 1e-12 * p.sum():
        failures.append("%s: total Cn2 not conserved" % tag)
    if not numpy.isin(h_L, hf).all() or not (numpy.diff(h_L) > 0).all():
        failures.append("%s: heights %s are not increasing input heights" % (tag, h_L))
        return
    # the groups: contiguous runs of input layers whose strengths add up to the returned ones
    cp, cc = numpy.cumsum(p), numpy.cumsum(cn2_L)
    ends = numpy.array([numpy.argmin(numpy.abs(cp - c)) for c in cc])
    if (numpy.abs(cp[ends] - cc) > 1e-9 * p.sum()).any() or ends[-1] != len(p) - 1 or (numpy.diff(ends) <= 0).any():
        failures.append("%s: returned strengths are not sums over a partition of the input layers" % tag)
        return
    starts = numpy.concatenate(([0], ends[:-1] + 1))
    cost = 0.
    for a, b, H in zip(starts, ends + 1, h_L):
        if not (hf[a] <= H <= hf[b - 1]):
            failures.append("%s: height %g lies outside its group [%g, %g]" % (tag, H, hf[a], hf[b - 1]))
        cost += (p[a:b] * numpy.abs(hf[a:b] - H)).sum()
    ref = equal_split_cost(hf, p, L)
    if cost > ref * (1 + 1e-9):
        failures.append("%s: cost %.6e of the compressed profile exceeds the equal split's %.6e (first heights %s)"
                        % (tag, cost, ref, h_L[:4]))


rng = numpy.random.default_rng(1818)
profiles = []
h = numpy.arange(0, 20000, 500)
profiles.append(("regular 500 m", h, (0.05 + rng.random(len(h))) * 1e-14))
h = numpy.arange(0, 24000, 1000)
profiles.append(("uniform 1 km", h, numpy.full(len(h), 3e-15)))
h = numpy.unique(numpy.concatenate(([0], rng.integers(30, 25000, 17))))
profiles.append(("irregular", h, (0.05 + rng.random(len(h))) * 1e-14))
h = numpy.array([0, 100, 250, 600, 1200, 3000, 5500, 9000, 11000, 12500, 16000, 21000])
p = numpy.array([40, 12, 6, 3, 2, 1.5, 1, 2.5, 4, 3, 1, 0.5]) * 1e-15
profiles.append(("ground-dominated", h, p))

for name, h, p in profiles:
    N = len(h)
    for dtype in (numpy.float64, numpy.float32, numpy.int64, numpy.int32, numpy.uint16, numpy.uint32, numpy.uint64):
        for L in sorted(set([1, 2, 3, 5, N // 2, N - 1])):
            if not 1 <= L < N:
                continue
            for R, seed in ((0, 0), (3, 7)):
                check("%s, heights %s, N=%d L=%d R=%d seed=%d" % (name, numpy.dtype(dtype).name, N, L, R, seed),
                      h.astype(dtype), p, L, R, seed)

print("%d cases checked, %d violations" % (checked, len(failures)))
if failures:
    for f in failures[:15]:
        print("VIOLATION:", f)
    if len(failures) > 15:
        print("... and %d more" % (len(failures) - 15))
    sys.exit(1)
print("optimal_grouping kept every clause in every case")
sys.exit(0)
