"""C17 demo B: for EVERY wavelength the composite converters (Cn2 <-> seeing) equal the composition
of the elementary ones (Cn2 <-> r0 <-> seeing), the pairs are mutually inverse, r0 scales as
lambda^(6/5) and seeing as lambda^(-1/5)."""
import sys
import numpy
from aotools.turbulence import atmos_conversions as ac

WAVELENGTHS = [350e-9, 500e-9, 589e-9, 850e-9, 1.65e-6, 2.2e-6, 10e-6]
CN2S = [1e-14, 2.3e-13, 5e-13, 4e-12]
RTOL = 1e-12

bad = []


def close(a, b):
    return numpy.isclose(a, b, rtol=RTOL, atol=0)


for lam in WAVELENGTHS:
    for cn2 in CN2S:
        r0 = ac.cn2_to_r0(cn2, lam)
        seeing = ac.r0_to_seeing(r0, lam)

        # elementary inverse pairs
        if not close(ac.r0_to_cn2(r0, lam), cn2):
            bad.append("r0_to_cn2(cn2_to_r0) != id at lambda=%g cn2=%g" % (lam, cn2))
        if not close(ac.seeing_to_r0(seeing, lam), r0):
            bad.append("seeing_to_r0(r0_to_seeing) != id at lambda=%g r0=%g" % (lam, r0))

        # composites equal the composition of the elementary converters
        s_comp = ac.cn2_to_seeing(cn2, lam)
        if not close(s_comp, seeing):
            bad.append("cn2_to_seeing(%g, %g) = %.10g but r0_to_seeing(cn2_to_r0(..)) = %.10g"
                       % (cn2, lam, s_comp, seeing))
        c_comp = ac.seeing_to_cn2(seeing, lam)
        if not close(c_comp, ac.r0_to_cn2(ac.seeing_to_r0(seeing, lam), lam)):
            bad.append("seeing_to_cn2(%g, %g) differs from r0_to_cn2(seeing_to_r0(..))" % (seeing, lam))

        # composite inverse pair
        back = ac.seeing_to_cn2(ac.cn2_to_seeing(cn2, lam), lam)
        if not close(back, cn2):
            bad.append("seeing_to_cn2(cn2_to_seeing(%g)) = %.10g at lambda=%g" % (cn2, back, lam))

        # scaling laws with wavelength, relative to 500 nm
        ratio = lam / 500e-9
        if not close(r0 / ac.cn2_to_r0(cn2, 500e-9), ratio ** (6. / 5.)):
            bad.append("r0 does not scale as lambda^(6/5) at lambda=%g" % lam)
        got = ac.cn2_to_seeing(cn2, lam) / ac.cn2_to_seeing(cn2, 500e-9)
        if not close(got, ratio ** (-1. / 5.)):
            bad.append("seeing(lambda=%g)/seeing(500nm) = %.10g, expected (lambda ratio)^(-1/5) = %.10g"
                       % (lam, got, ratio ** (-1. / 5.)))

    # scaling with Cn2 at this wavelength
    if not close(ac.cn2_to_r0(32 * 1e-13, lam) / ac.cn2_to_r0(1e-13, lam), 32 ** (-3. / 5.)):
        bad.append("r0 does not scale as Cn2^(-3/5) at lambda=%g" % lam)

if bad:
    print("C17 violated (%d failures); first ones:" % len(bad))
    for line in bad[:10]:
        print("  " + line)
    sys.exit(1)
print("ok: Cn2 <-> r0 <-> seeing converters consistent at %d wavelengths" % len(WAVELENGTHS))
sys.exit(0)
