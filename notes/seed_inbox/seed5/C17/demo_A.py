"""C17 demo A: magnitude <-> photon flux is an exact inverse pair for ALL magnitudes and all
twelve bands, and five magnitudes are a factor 100 in flux (in both directions)."""
import sys
import numpy
from aotools import astronomy

BANDS = ['U', 'B', 'V', 'R', 'I', 'J', 'H', 'K', 'g', 'r', 'i', 'z']
MAGS = [-26.7, -1.46, 0.0, 5.56, 12.0, 18.3, 24.0, 27.5, 29.9, 30.0, 30.5, 32.0, 35.0, 40.0]

bad = []
for band in BANDS:
    for m in MAGS:
        f = astronomy.magnitude_to_flux(m, band)
        # inverse pair
        back = astronomy.flux_to_magnitude(f, band)
        if not abs(back - m) <= 1e-9:
            bad.append("round trip: band %s  mag %g -> flux %.6g -> mag %.12g" % (band, m, f, back))
        # five magnitudes fainter <=> a hundred times less flux (forward map)
        f5 = astronomy.magnitude_to_flux(m + 5, band)
        if not numpy.isclose(f / f5, 100., rtol=1e-10, atol=0):
            bad.append("forward: band %s  flux(%g)/flux(%g) = %.12g, not 100" % (band, m, m + 5, f / f5))
        # ... and the backward map sees the same factor as five magnitudes
        dm = astronomy.flux_to_magnitude(f / 100., band) - astronomy.flux_to_magnitude(f, band)
        if not abs(dm - 5.) <= 1e-9:
            bad.append("backward: band %s  mag(flux/100) - mag(flux) = %.12g at mag %g, not 5" % (band, dm, m))

if bad:
    print("C17 violated (%d failures); first ones:" % len(bad))
    for line in bad[:12]:
        print("  " + line)
    sys.exit(1)
print("ok: magnitude <-> flux inverse and 5 mag = x100 for all bands, magnitudes %g..%g" % (min(MAGS), max(MAGS)))
sys.exit(0)
