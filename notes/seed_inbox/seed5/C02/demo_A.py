"""
C02 demo A: an on-axis sensor that duplicates one off-axis sensor must be reproduced by the tomographic
reconstructor: R = [0 ... I ... 0] (identity on the duplicate, zero weight on every other sensor), and R must
satisfy the normal equations R * C_off,off = C_on,off of the matrix the builder returned.

The asterism mixes sub-aperture sizes: the sensor listed between the on-axis sensor and its duplicate has
coarser sub-apertures (and, in the second case, is a laser guide star whose projected sub-apertures shrink
with altitude).
"""
import sys
import numpy
from aotools.turbulence import slopecovariance as sc


def build(masks, diams, gs_alt, gs_pos, wavelengths, threads=1):
    n_wfs = len(masks)
    layer_altitudes = numpy.array([0., 4000., 9000.])
    cm = sc.CovarianceMatrix(
        n_wfs, masks, 4.0, diams, gs_alt, gs_pos, wavelengths,
        len(layer_altitudes), layer_altitudes, [0.2, 0.4, 0.5], [25., 25., 25.], threads)
    cm.make_covariance_matrix()
    return cm


def check(name, cm, dup):
    """dup: index of the off-axis sensor that duplicates sensor 0"""
    failures = []
    C = numpy.asarray(cm.covariance_matrix, dtype="float64")
    n = cm.n_subaps
    n_on = int(n[0])
    # the matrix must be symmetric for the property to apply at all
    if not numpy.array_equal(C, C.T):
        failures.append("%s: built matrix not symmetric" % name)
    s = numpy.linalg.svd(C[2 * n_on:, 2 * n_on:], compute_uv=False)
    cond = s.max() / s.min()

    for label, R in (
            ("function/float64", sc.create_tomographic_covariance_reconstructor(C, n_on, 0)),
            ("class method", numpy.asarray(cm.make_tomographic_reconstructor(0), dtype="float64"))):
        tol = 1e-7 * cond if label == "function/float64" else 2e-6 * cond
        tol = max(tol, 1e-9)
        # normal equations on the matrix that was returned
        ne = numpy.abs(R.dot(C[2 * n_on:, 2 * n_on:]) - C[:2 * n_on, 2 * n_on:]).max() / numpy.abs(C).max()
        # expected reconstructor: identity on the duplicate, zero elsewhere
        expected = numpy.zeros_like(R)
        start = 2 * int(n[1:dup].sum())
        expected[:, start:start + 2 * n_on] = numpy.identity(2 * n_on)
        err = numpy.abs(R - expected).max()
        print("%-28s %-17s cond=%.1e  normal-eq residual=%.2e  |R-[0 I 0]|max=%.2e (tol %.1e)"
              % (name, label, cond, ne, err, tol))
        if not err < tol:
            failures.append("%s/%s: R does not reproduce the duplicated sensor: max deviation %.3e"
                            % (name, label, err))
        if not ne < tol:
            failures.append("%s/%s: normal equations violated: %.3e" % (name, label, ne))
    return failures


def main():
    failures = []
    fine = numpy.ones((4, 4))          # 1 m sub-apertures on the 4 m telescope
    coarse = numpy.ones((2, 2))        # 2 m sub-apertures
    lam = 500e-9

    # 1. all natural stars; the coarse sensor is listed between the on-axis sensor and its duplicate
    cm = build([fine, coarse, fine, fine], [1.0, 2.0, 1.0, 1.0], [0, 0, 0, 0],
               [[7., -4.], [25., 12.], [7., -4.], [-18., 22.]], [lam] * 4)
    failures += check("NGS, coarse sensor between", cm, dup=2)

    # 2. same nominal sub-apertures, but the sensor in between is a laser guide star
    cm = build([fine, fine, fine, fine], [1.0, 1.0, 1.0, 1.0], [0, 20000., 0, 0],
               [[7., -4.], [25., 12.], [7., -4.], [-18., 22.]], [lam] * 4)
    failures += check("LGS between", cm, dup=2)

    # 3. controls: duplicate listed first / all sensors alike
    cm = build([fine, fine, coarse, fine], [1.0, 1.0, 2.0, 1.0], [0, 0, 0, 0],
               [[7., -4.], [7., -4.], [25., 12.], [-18., 22.]], [lam] * 4)
    failures += check("NGS, duplicate listed first", cm, dup=1)
    cm = build([fine, fine, fine, fine], [1.0] * 4, [0, 0, 0, 0],
               [[7., -4.], [25., 12.], [7., -4.], [-18., 22.]], [lam] * 4)
    failures += check("NGS, all alike", cm, dup=2)

    if failures:
        print("\nPROPERTY C02 VIOLATED:")
        for f in failures:
            print("  - " + f)
        return 1
    print("\nC02 holds: duplicated on-axis sensor reproduced, normal equations satisfied")
    return 0


if __name__ == "__main__":
    sys.exit(main())
