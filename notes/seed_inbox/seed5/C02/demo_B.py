"""
C02 demo B: for ANY symmetric positive semi-definite slope covariance matrix and any partition the reconstructor
R = create_tomographic_covariance_reconstructor(C, n_on, 0) must satisfy the normal equations
R * C_off,off = C_on,off (to rounding, for a well-conditioned C_off,off), must not be beaten by any other
linear map, and must reproduce a duplicated sensor.

The same small covariance matrices are handed over in several array forms: float64, float32, Fortran order,
and with integer entries (hand-written / counted covariances: the entries of G G^T for an integer G are integers).
"""
import sys
import numpy
from aotools.turbulence import slopecovariance as sc


def psd_integer(rng, size):
    while True:
        G = rng.integers(-3, 4, size=(size, size + 3))
        C = G.dot(G.T)
        s = numpy.linalg.svd(C.astype(float), compute_uv=False)
        if s.min() > 1e-3 * s.max():
            return C


def expected_residual(C, R, n2):
    """E|s_on - R s_off|^2 for slopes of covariance C"""
    C = C.astype("float64")
    Coo, Cof, Cff = C[:n2, :n2], C[:n2, n2:], C[n2:, n2:]
    return numpy.trace(Coo - R.dot(Cof.T) - Cof.dot(R.T) + R.dot(Cff).dot(R.T))


def main():
    rng = numpy.random.default_rng(20260927)
    failures = []
    for n_on, n_off_subaps in ((1, 2), (2, 3), (3, 5)):
        n2 = 2 * n_on
        size = n2 + 2 * n_off_subaps
        Ci = psd_integer(rng, size)                      # integer entries, symmetric PSD
        # a second matrix in which the on-axis sensor duplicates the first off-axis sensor
        Cd = Ci.copy()
        Cd[:n2, :] = Cd[n2:2 * n2, :]
        Cd[:, :n2] = Cd[:, n2:2 * n2]
        Cd[:n2, :n2] = Cd[n2:2 * n2, n2:2 * n2]
        assert numpy.array_equal(Cd, Cd.T)

        forms = [
            ("float64", lambda M: M.astype("float64")),
            ("float32", lambda M: M.astype("float32")),
            ("float64 Fortran order", lambda M: numpy.asfortranarray(M.astype("float64"))),
            ("int64", lambda M: M.astype("int64")),
            ("int32", lambda M: M.astype("int32")),
        ]
        for form_name, conv in forms:
            tol = 1e-3 if "float32" in form_name else 1e-9
            # (a) normal equations and optimality
            C = conv(Ci)
            R = numpy.asarray(sc.create_tomographic_covariance_reconstructor(C, n_on, 0), dtype="float64")
            C64 = Ci.astype("float64")
            ne = numpy.abs(R.dot(C64[n2:, n2:]) - C64[:n2, n2:]).max() / numpy.abs(C64).max()
            R_ref = numpy.linalg.solve(C64[n2:, n2:], C64[:n2, n2:].T).T
            excess = (expected_residual(Ci, R, n2) - expected_residual(Ci, R_ref, n2)) / numpy.trace(C64[:n2, :n2])
            # (b) duplicated sensor
            C = conv(Cd)
            Rd = numpy.asarray(sc.create_tomographic_covariance_reconstructor(C, n_on, 0), dtype="float64")
            expected = numpy.zeros_like(Rd)
            expected[:, :n2] = numpy.identity(n2)
            dup = numpy.abs(Rd - expected).max()
            print("n_on=%d size=%2d %-22s normal-eq %.2e  excess residual %.2e  |R-[I 0]|max %.2e"
                  % (n_on, size, form_name, ne, excess, dup))
            if not ne < tol:
                failures.append("n_on=%d %s: normal equations R*C_off,off = C_on,off violated (%.3e)"
                                % (n_on, form_name, ne))
            if not excess < tol:
                failures.append("n_on=%d %s: another linear map has a smaller expected residual "
                                "(relative excess %.3e)" % (n_on, form_name, excess))
            if not dup < tol:
                failures.append("n_on=%d %s: duplicated sensor not reproduced (max deviation %.3e)"
                                % (n_on, form_name, dup))

    if failures:
        print("\nPROPERTY C02 VIOLATED:")
        for f in failures:
            print("  - " + f)
        return 1
    print("\nC02 holds for every array form of the covariance matrix")
    return 0


if __name__ == "__main__":
    sys.exit(main())
