"""
C08 demo B: the phase covariance is a function of the separation alone, the structure function is
2 * (B(0) - B(r)) for every separation in an array of any shape, and every matrix of phase covariances
between arbitrary points is symmetric positive semi-definite.

Two finite point sets P and Q (sub-aperture centres of two wavefront sensors looking through one
layer, Q shifted and magnified with respect to P) give
  * the covariance matrix of the union P u Q from one call on all pairwise separations, and
  * the same matrix assembled from the blocks P-P, P-Q, Q-Q, each from its own call;
both must be the same positive semi-definite matrix, and the P-Q block must satisfy
D(r) = 2 (B(0) - B(r)) element by element.
Exit 0: all good.  Exit 1: a violation (printed).
"""
import sys
import numpy as np

from aotools.turbulence.turb import phase_covariance
from aotools.turbulence.slopecovariance import structure_function_vk

problems = []


def separations(a, b):
    d = a[:, None, :] - b[None, :, :]
    return np.sqrt((d ** 2).sum(-1))


def check(r0, L0, n_side, shift, magnification):
    g = (np.arange(n_side) - (n_side - 1) / 2.) * 0.5
    xx, yy = np.meshgrid(g, g)
    P = np.stack([xx.ravel(), yy.ravel()], axis=1)
    Q = magnification * P + np.asarray(shift)
    tag = "r0=%g L0=%g n=%d shift=%s mag=%g" % (r0, L0, len(P), shift, magnification)
    var = phase_covariance(0., r0, L0)

    # covariance of the union, in one go and block by block
    U = np.concatenate([P, Q])
    full = phase_covariance(separations(U, U), r0, L0)
    c_pp = phase_covariance(separations(P, P), r0, L0)
    c_qq = phase_covariance(separations(Q, Q), r0, L0)
    r_pq = separations(P, Q)
    c_pq = phase_covariance(r_pq, r0, L0)
    blocks = np.block([[c_pp, c_pq], [c_pq.T, c_qq]])

    for name, m in (("one call", full), ("block-wise", blocks)):
        if not np.allclose(m, m.T, rtol=1e-12, atol=1e-12 * var):
            problems.append("%s: covariance matrix (%s) is not symmetric" % (tag, name))
        w = np.linalg.eigvalsh((m + m.T) / 2)
        if w.min() < -1e-9 * w.max():
            problems.append("%s: covariance matrix (%s) has eigenvalue %.4g (largest %.4g): not positive "
                            "semi-definite" % (tag, name, w.min(), w.max()))
    err = np.abs(full - blocks).max()
    if err > 1e-10 * var:
        problems.append("%s: covariance of the same pairs of points differs between one call and block-wise "
                        "evaluation by up to %.4g (variance %.4g)" % (tag, err, var))

    # covariance depends on the separation only: array call == element by element
    flat = phase_covariance(r_pq.ravel(), r0, L0).reshape(r_pq.shape)
    i, j = np.unravel_index(np.argmax(np.abs(c_pq - flat)), r_pq.shape)
    one = phase_covariance(float(r_pq[i, j]), r0, L0)
    if not np.isclose(c_pq[i, j], one, rtol=1e-10):
        problems.append("%s: B(r) for r=%.6g is %.8g inside a %s array of separations but %.8g on its own"
                        % (tag, r_pq[i, j], c_pq[i, j], r_pq.shape, one))

    # D(r) = 2 (B(0) - B(r)) on the P-Q separations (closed forms carry constants rounded to 4-5 digits)
    d = np.asarray(structure_function_vk(r_pq, r0, L0), dtype=float)
    d_cov = 2 * (var - c_pq)
    bad = ~np.isclose(d, d_cov, rtol=2e-3, atol=1e-9 * var)
    if bad.any():
        i, j = np.argwhere(bad)[0]
        problems.append("%s: D(r) != 2 (B(0) - B(r)) for %d of %d separations, e.g. r=%.6g: D=%.8g, "
                        "2(B(0)-B(r))=%.8g" % (tag, bad.sum(), bad.size, r_pq[i, j], d[i, j], d_cov[i, j]))


check(0.15, 25., 4, (0.13, -0.21), 1.0)
check(0.10, 10., 5, (1.7, 0.4), 0.9)
check(1.0, 100., 3, (0.05, 0.0), 0.75)
check(0.2, 2., 6, (3.0, 1.0), 1.0)

if problems:
    print("C08 violated (%d findings):" % len(problems))
    for p in problems[:12]:
        print("  " + p)
    sys.exit(1)
print("C08 demo B: ok")
sys.exit(0)
