"""
C08 demo A: the von Karman structure function used by the Karhunen-Loeve code is the same function as
the one used by the slope-covariance code and as 2 * (B(0) - B(r)) of the phase covariance, for every
separation r >= 0 -- in particular it is zero only at r = 0 and never decreases.

Checked on separations expressed in units of the outer scale (multiples and fractions of L0, which is
how one tabulates a von Karman law), as arrays, lists and scalars.
Exit 0: all good.  Exit 1: a violation (printed).
"""
import sys
import numpy as np

from aotools.functions.karhunenLoeve import stf_vonKarman
from aotools.turbulence.slopecovariance import structure_function_vk
from aotools.turbulence.turb import phase_covariance

problems = []


def check(L0):
    # separations tabulated against the outer scale: 0, L0/8, L0/4, ..., 4 L0 (all exact in binary)
    r = L0 * np.arange(0, 33) / 8.
    d_kl = np.asarray(stf_vonKarman(r, L0), dtype=float)
    d_sc = np.asarray(structure_function_vk(r, 1., L0), dtype=float)
    # (the closed forms carry constants rounded to 4-5 digits: they agree to about 6e-4)
    d_cov = 2 * (phase_covariance(0., 1., L0) - phase_covariance(r, 1., L0))
    sat = 2 * 0.0863 * L0 ** (5. / 3)

    if d_kl[0] != 0:
        problems.append("L0=%g: D_KL(0) = %r, not 0" % (L0, d_kl[0]))
    bad = np.flatnonzero(~np.isclose(d_kl, d_sc, rtol=1e-9, atol=1e-12 * sat))
    for i in bad:
        problems.append("L0=%g: KL copy and slope-covariance copy differ at r=%g (=%g L0): %r vs %r"
                        % (L0, r[i], r[i] / L0, d_kl[i], d_sc[i]))
    bad = np.flatnonzero(~np.isclose(d_kl, d_cov, rtol=2e-3, atol=1e-9 * sat))
    for i in bad:
        problems.append("L0=%g: D_KL(r) != 2 (B(0) - B(r)) at r=%g (=%g L0): %r vs %r"
                        % (L0, r[i], r[i] / L0, d_kl[i], d_cov[i]))
    dec = np.flatnonzero(np.diff(d_kl) < -1e-9 * sat)
    for i in dec:
        problems.append("L0=%g: D_KL decreases from r=%g (%r) to r=%g (%r)"
                        % (L0, r[i], d_kl[i], r[i + 1], d_kl[i + 1]))
    pos = np.flatnonzero((r > 0) & ~(d_kl > 0))
    for i in pos:
        problems.append("L0=%g: D_KL(%g) = %r is not positive" % (L0, r[i], d_kl[i]))

    # the same separations as a list and one by one as plain scalars
    d_list = np.asarray(stf_vonKarman(list(r), L0), dtype=float)
    if not np.allclose(d_list, d_sc, rtol=1e-9, atol=1e-12 * sat):
        problems.append("L0=%g: list of separations gives a different D_KL than the slope-covariance copy" % L0)
    for x in (0.5 * L0, L0, 2 * L0):
        a = float(stf_vonKarman(x, L0))
        b = float(structure_function_vk(x, 1., L0))
        if not np.isclose(a, b, rtol=1e-9):
            problems.append("L0=%g: scalar r=%g (=%g L0): KL copy %r, slope-covariance copy %r"
                            % (L0, x, x / L0, a, b))


for L0 in (0.5, 1., 2.5, 3, 20., 64):
    check(L0)

if problems:
    print("C08 violated (%d findings); first ones:" % len(problems))
    for p in problems[:12]:
        print("  " + p)
    sys.exit(1)
print("C08 demo A: ok")
sys.exit(0)
