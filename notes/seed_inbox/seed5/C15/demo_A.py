"""
C15 demo A: centroiders must treat a frame the same whatever integer/float storage it arrives in.

Checked (property level):
  * the quad-cell signal changes sign under mirroring (left-right flips x, up-down flips y),
    for single frames and stacks;
  * the brightest-pixel / centre-of-gravity centroid of a single bright pixel is that pixel's (x, y);
  * brightest-pixel of a stack equals frame-by-frame, and moves by k when the content moves by k.
Every check is run for the same non-negative frames stored as float64, native unsigned/signed
integers and the byte-swapped (big-endian, as read from FITS files) versions of those types.
"""
import sys

import numpy

from aotools.image_processing import centroiders

DTYPES = ["<f8", ">f8", "<u1", "<u2", ">u2", "<u4", ">u4", "<u8", ">u8", "<i2", ">i2", "<i4", ">i4"]

failures = []


def check(cond, msg):
    if not cond:
        failures.append(msg)


def run(name, fn):
    try:
        fn()
    except Exception as exc:  # a crash is a failure of the property too
        failures.append("%s raised %s: %s" % (name, type(exc).__name__, exc))


rng = numpy.random.RandomState(15)

# ---------------------------------------------------------------- quad cell: sign under mirroring
quads = rng.randint(0, 200, size=(6, 2, 2))
for dt in DTYPES:
    def quad(dt=dt):
        stack = quads.astype(dt)
        q = numpy.asarray(centroiders.quadCell(stack), dtype=float)
        q_lr = numpy.asarray(centroiders.quadCell(stack[..., ::-1]), dtype=float)
        q_ud = numpy.asarray(centroiders.quadCell(stack[..., ::-1, :]), dtype=float)
        check(numpy.array_equal(q_lr[0], -q[0]) and numpy.array_equal(q_lr[1], q[1]),
              "quadCell stack dtype %s: left-right mirror gives x=%s, y=%s; expected x=%s, y=%s"
              % (dt, q_lr[0], q_lr[1], -q[0], q[1]))
        check(numpy.array_equal(q_ud[1], -q[1]) and numpy.array_equal(q_ud[0], q[0]),
              "quadCell stack dtype %s: up-down mirror gives x=%s, y=%s; expected x=%s, y=%s"
              % (dt, q_ud[0], q_ud[1], q[0], -q[1]))
        for i in range(stack.shape[0]):
            one = numpy.asarray(centroiders.quadCell(stack[i]), dtype=float)
            one_lr = numpy.asarray(centroiders.quadCell(stack[i][:, ::-1]), dtype=float)
            check(numpy.array_equal(one, q[:, i]),
                  "quadCell dtype %s frame %d: alone %s, in the stack %s" % (dt, i, one, q[:, i]))
            check(one_lr[0] == -one[0] and one_lr[1] == one[1],
                  "quadCell dtype %s frame %d: mirrored signal %s, original %s" % (dt, i, one_lr, one))
    run("quadCell %s" % dt, quad)

# ---------------------------------------------------------------- single bright pixel, shift, batch
ny, nx = 7, 9
for dt in DTYPES:
    def single(dt=dt):
        for (y, x) in [(1, 2), (3, 7), (5, 4)]:
            img = numpy.zeros((ny, nx), dtype=dt)
            img[y, x] = 100
            c = centroiders.centre_of_gravity(img)
            check(numpy.allclose(c, (x, y), atol=1e-9),
                  "centre_of_gravity dtype %s: single pixel at (x=%d, y=%d) located at %s" % (dt, x, y, c))
            b = centroiders.brightest_pixel(img, 0.1)
            check(numpy.allclose(b, (x, y), atol=1e-9),
                  "brightest_pixel dtype %s: single pixel at (x=%d, y=%d) located at %s" % (dt, x, y, b))
    run("single pixel %s" % dt, single)

    def blob(dt=dt):
        # a small spot on a faint, non-flat floor; content kept away from the borders
        base = numpy.zeros((4, 12, 14))
        yy, xx = numpy.indices((12, 14))
        for i in range(4):
            base[i] = numpy.round(120 * numpy.exp(-((yy - 4 - 0.3 * i) ** 2 + (xx - 5 + 0.4 * i) ** 2) / 3.))
        stack = base.astype(dt)
        moved = numpy.zeros_like(stack)
        moved[:, 3:, 2:] = stack[:, :-3, :-2]            # content moved by (+2 in x, +3 in y)
        for frac in (0.05, 0.15, 0.3):
            whole = centroiders.brightest_pixel(stack, frac)
            ref = centroiders.brightest_pixel(base, frac)
            check(numpy.allclose(whole, ref, atol=1e-9),
                  "brightest_pixel dtype %s fraction %g: %s differs from the float64 answer %s"
                  % (dt, frac, whole.tolist(), ref.tolist()))
            for i in range(4):
                alone = centroiders.brightest_pixel(stack[i], frac)
                check(numpy.allclose(alone, whole[:, i], atol=1e-9),
                      "brightest_pixel dtype %s fraction %g frame %d: alone %s, in the stack %s"
                      % (dt, frac, i, alone, whole[:, i]))
            shifted = centroiders.brightest_pixel(moved, frac)
            check(numpy.allclose(shifted[0], whole[0] + 2, atol=1e-9)
                  and numpy.allclose(shifted[1], whole[1] + 3, atol=1e-9),
                  "brightest_pixel dtype %s fraction %g: content moved by (2, 3) but centroid moved by %s"
                  % (dt, frac, (shifted - whole).tolist()))
    run("spot %s" % dt, blob)

if failures:
    print("C15 VIOLATED (%d failures)" % len(failures))
    for f in failures[:25]:
        print("  -", f)
    sys.exit(1)
print("C15 demo A: all checks passed")
sys.exit(0)
