"""
C15 demo B: the correlation centroid of an image displaced by s from its reference is displaced
by s from the array centre (nx//2, ny//2), for any image size and any padding; a stack gives the
same answers as each frame alone; multiplying the image by a positive constant changes nothing.

The frames hold a small compact spot (well inside the frame) on a constant floor, so the
cross-correlation is a compact peak that is symmetric about its maximum and the expected answer is
exact.  Sizes: square, non-square, even, odd, prime, highly composite.  Paddings 1..4.
"""
import sys

import numpy

from aotools.image_processing import centroiders

SIZES = [(10, 10), (9, 12), (9, 9), (11, 11), (12, 16), (13, 13), (15, 14), (17, 17), (19, 19),
         (13, 19), (20, 23), (21, 21), (23, 23), (24, 24), (19, 16), (29, 29), (31, 37)]
PADDINGS = [1, 2, 3, 4]
SHIFTS = [(0, 0), (1, 0), (0, -1), (2, -1), (-2, 2), (-1, -2)]     # (sy, sx)
THRESHOLDS = [0., 0.2, 0.5]

SPOT = numpy.array([[1., 3., 2.],
                    [4., 9., 5.],
                    [2., 6., 1.]])

failures = []


def frame(ny, nx, cy, cx, floor):
    img = numpy.full((ny, nx), float(floor))
    img[cy - 1:cy + 2, cx - 1:cx + 2] += SPOT
    return img


for (ny, nx) in SIZES:
    cy, cx = ny // 2, nx // 2
    ref = frame(ny, nx, cy, cx, 0.5)
    stack = numpy.array([frame(ny, nx, cy + sy, cx + sx, 0.25 + 0.1 * i)
                         for i, (sy, sx) in enumerate(SHIFTS)])
    expected = numpy.array([[cx + sx for (sy, sx) in SHIFTS],
                            [cy + sy for (sy, sx) in SHIFTS]], dtype=float)
    for padding in PADDINGS:
        for thr in THRESHOLDS:
            tag = "size (ny=%d, nx=%d) padding %d threshold %g" % (ny, nx, padding, thr)
            try:
                whole = centroiders.correlation_centroid(stack, ref, thr, padding=padding)
                if not numpy.allclose(whole, expected, atol=1e-6):
                    bad = numpy.abs(whole - expected).max(0).argmax()
                    failures.append("%s: image displaced by (sx=%d, sy=%d) from its reference is found at "
                                    "(%.4f, %.4f), i.e. displaced by (%.4f, %.4f) from the centre (%d, %d)"
                                    % (tag, SHIFTS[bad][1], SHIFTS[bad][0], whole[0, bad], whole[1, bad],
                                       whole[0, bad] - cx, whole[1, bad] - cy, cx, cy))
                for i in range(len(SHIFTS)):
                    alone = centroiders.correlation_centroid(stack[i], ref, thr, padding=padding)
                    if not numpy.allclose(alone[:, 0], whole[:, i], atol=1e-9):
                        failures.append("%s frame %d: alone %s, in the stack %s"
                                        % (tag, i, alone[:, 0], whole[:, i]))
                # scale: spot amplitude and floor multiplied by a positive constant
                scaled = centroiders.correlation_centroid(7.5 * stack, ref, thr, padding=padding)
                if not numpy.allclose(scaled, whole, atol=1e-9):
                    failures.append("%s: image multiplied by 7.5 moves the centroids by up to %g"
                                    % (tag, numpy.abs(scaled - whole).max()))
            except Exception as exc:
                failures.append("%s raised %s: %s" % (tag, type(exc).__name__, exc))

if failures:
    print("C15 VIOLATED (%d failures)" % len(failures))
    for f in failures[:20]:
        print("  -", f)
    sys.exit(1)
print("C15 demo B: all checks passed")
sys.exit(0)
