"""C19 demo B: the temporal power spectrum of slope data of ANY leading shape.

For slope data of shape (..., nFrames, nSubaps) the result at leading index L and bin k must be
mean over sub-apertures of |sum_t s[L, t, i] exp(-2 pi i k t / nFrames)|^2: each leading index is its own data set.
Checked: definition (explicit DFT), position of the peak of a pure sinusoid, Parseval, quadratic in amplitude.
"""
import sys
import itertools
import numpy
from aotools.turbulence.temporal_ps import calc_slope_temporalps, get_tps_time_axis

failures = []
rng = numpy.random.RandomState(99)


def dft_power(series_2d):
    """|DFT|^2 along axis 0 of a (nFrames, nSubaps) array, averaged over sub-apertures; bins 0 .. nFrames//2 - 1."""
    n = series_2d.shape[0]
    t = numpy.arange(n)
    k = numpy.arange(n // 2)
    kernel = numpy.exp(-2j * numpy.pi * numpy.outer(k, t) / n)
    return (numpy.abs(kernel.dot(series_2d)) ** 2).mean(-1)


n_frames, n_subaps, frame_rate = 64, 10, 500.
freqs = get_tps_time_axis(frame_rate, n_frames)
if not numpy.allclose(freqs, numpy.arange(n_frames // 2) * frame_rate / n_frames, rtol=1e-13, atol=0):
    failures.append("frequency axis is not k*frame_rate/n_frames")

for lead in [(), (1,), (2,), (5,), (2, 3), (3, 3), (2, 1, 4)]:
    shape = lead + (n_frames, n_subaps)
    label = "slope_data.shape=%s" % (shape,)

    # --- a pure sinusoid per leading index, each in its own bin and with its own amplitude
    data = numpy.zeros(shape)
    expected_bin = {}
    t = numpy.arange(n_frames)
    for n, L in enumerate(itertools.product(*[range(m) for m in lead])):
        k0 = 2 + 3 * n
        expected_bin[L] = k0
        data[L] = (1.0 + n) * numpy.sin(2 * numpy.pi * k0 * t / n_frames + 0.3)[:, None] \
            * (1 + 0.1 * numpy.arange(n_subaps))
    # plus a little noise so nothing is exactly zero
    noise = 1e-3 * rng.randn(*shape)
    data = data + noise

    tps, tps_err = calc_slope_temporalps(data)

    want_shape = lead + (n_frames // 2,)
    if tps.shape != want_shape or tps_err.shape != want_shape:
        failures.append("%s: result shapes %s / %s, expected %s" % (label, tps.shape, tps_err.shape, want_shape))
        continue

    for L, k0 in expected_bin.items():
        peak = int(numpy.argmax(tps[L]))
        if peak != k0:
            failures.append("%s: data set %s is a sinusoid at %.1f Hz (bin %d) but its spectrum peaks at %.1f Hz (bin %d)"
                            % (label, L, freqs[k0], k0, freqs[peak], peak))
        ref = dft_power(data[L])
        if not numpy.allclose(tps[L], ref, rtol=1e-9, atol=1e-12 * ref.max()):
            failures.append("%s: spectrum of data set %s is not mean_i |DFT_t s[t, i]|^2 (max rel. dev. %.3g)"
                            % (label, L, numpy.max(numpy.abs(tps[L] - ref)) / ref.max()))
        # Parseval for a signal without power at/above the last kept bin: DC + 2 * rest = nFrames * sum_t s^2
        clean = data[L] - noise[L]
        p_clean = calc_slope_temporalps(data - noise)[0][L]
        lhs = p_clean[0] + 2 * p_clean[1:].sum()
        rhs = n_frames * (clean ** 2).sum(0).mean()
        if not numpy.isclose(lhs, rhs, rtol=1e-9):
            failures.append("%s: Parseval fails for data set %s: %.6g vs %.6g" % (label, L, lhs, rhs))

    # --- quadratic in amplitude
    tps2, _ = calc_slope_temporalps(-2.5 * data)
    if not numpy.allclose(tps2, 6.25 * tps, rtol=1e-10, atol=1e-12 * tps2.max()):
        failures.append("%s: not quadratic in amplitude" % label)

if failures:
    print("C19 violated: temporal power spectrum does not implement its definition")
    for f in failures[:12]:
        print(" -", f)
    if len(failures) > 12:
        print("   ... and %d more" % (len(failures) - 12))
    sys.exit(1)
print("ok")
sys.exit(0)
