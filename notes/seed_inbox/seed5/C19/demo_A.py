"""C19 demo A: the structure-function estimator implements its definition for every 2-D phase array.

sf[j] must be the mean over all pixel pairs of (phase[r, c] - phase[r + j*step, c])**2, sf[0] == 0, and a ramp of
slope a along the first axis must give a**2 * (j*step)**2 -- for square AND rectangular arrays.
"""
import sys
import numpy
from aotools.turbulence.slopecovariance import calculate_structure_function

failures = []


def reference(phase, n_points, step):
    """Definition, written with explicit loops over the pixel pairs."""
    phase = numpy.asarray(phase, dtype=float)
    n_rows, n_cols = phase.shape
    out = numpy.zeros(n_points)
    for j in range(1, n_points):
        lag = j * step
        acc = 0.0
        count = 0
        for r in range(n_rows - lag):
            for c in range(n_cols):
                acc += (phase[r, c] - phase[r + lag, c]) ** 2
                count += 1
        out[j] = acc / count
    return out


rng = numpy.random.RandomState(1234)
# (rows, cols, nbOfPoint, step)
cases = [
    (32, 32, 8, 1),     # the usual square screen
    (40, 40, 6, 3),
    (64, 24, 5, 1),     # tall strip (e.g. a long-exposure strip of an infinite screen)
    (64, 24, 4, 2),
    (30, 48, 6, 1),     # wide array, all lags shorter than the number of rows
    (50, 20, None, None),  # defaults
]

for n_rows, n_cols, n_points, step in cases:
    label = "shape=(%d,%d) nbOfPoint=%s step=%s" % (n_rows, n_cols, n_points, step)
    phase = rng.randn(n_rows, n_cols)
    sf = calculate_structure_function(phase, n_points, step)
    eff_step = 1 if step is None else step
    ref = reference(phase, len(sf), eff_step)

    if sf[0] != 0:
        failures.append("%s: sf[0] = %r, expected 0" % (label, sf[0]))
    if not numpy.allclose(sf, ref, rtol=1e-10, atol=0):
        failures.append("%s: estimator differs from the mean squared difference\n    got      %s\n    expected %s"
                        % (label, sf, ref))

    # ramp of slope a along the first axis: exactly a^2 (j*step)^2
    a = 0.75
    ramp = a * numpy.arange(n_rows, dtype=float)[:, None] * numpy.ones((1, n_cols))
    sf_ramp = calculate_structure_function(ramp, n_points, step)
    exact = a ** 2 * (numpy.arange(len(sf_ramp)) * eff_step) ** 2
    if not numpy.allclose(sf_ramp, exact, rtol=1e-12, atol=0):
        failures.append("%s: ramp of slope %g gives %s, expected %s" % (label, a, sf_ramp, exact))

    # quadratic in amplitude
    sf3 = calculate_structure_function(3.0 * phase, n_points, step)
    if not numpy.allclose(sf3, 9.0 * sf, rtol=1e-12, atol=0):
        failures.append("%s: not quadratic in amplitude" % label)

if failures:
    print("C19 violated: structure-function estimator does not implement its definition")
    for f in failures:
        print(" -", f)
    sys.exit(1)
print("ok")
sys.exit(0)
