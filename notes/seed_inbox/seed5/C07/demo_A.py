"""
C07 demo A: the ensemble power spectrum of ft_phase_screen equals the discretised von Karman spectrum.

An FFT phase screen is  phi(x) = Re sum_k z_k sqrt(PSD_k) del_f exp(2 pi i k.x/N)  with independent complex
Gaussian z_k for EVERY frequency k of the N x N grid (zero frequency removed).  Its covariance is then the inverse
DFT sum of PSD_k del_f^2, which is the same statement as: the discrete Fourier transform Phi_q of the screen has

    E |Phi_q|^2 = N^4/2 * del_f^2 * (PSD_q + PSD_-q)          for every q on the grid.

The demo estimates the left-hand side from a handful of screens and compares it, averaged over tiles of the
frequency plane, with the right-hand side computed directly from the spectrum in the property statement.  It does
this for several even grid sizes, small and large.
"""
import sys
import numpy
from aotools.turbulence import phasescreen


def vk_psd_grid(r0, N, delta, L0, l0):
    del_f = 1. / (N * delta)
    k = numpy.arange(N) - N // 2
    fx, fy = numpy.meshgrid(k * del_f, k * del_f)
    f2 = fx ** 2 + fy ** 2
    fm = 5.92 / l0 / (2 * numpy.pi)
    psd = 0.023 * r0 ** (-5. / 3) * numpy.exp(-f2 / fm ** 2) * (f2 + 1. / L0 ** 2) ** (-11. / 6)
    psd[N // 2, N // 2] = 0.
    return psd, del_f


def check(r0, N, delta, L0, l0, nscreens, ntiles, tol):
    psd, del_f = vk_psd_grid(r0, N, delta, L0, l0)
    # PSD at -q on the periodic grid (index -N/2 is its own mirror image)
    idx = (-(numpy.arange(N) - N // 2)) % N          # unshifted index of -q
    idx = (idx + N // 2) % N                         # back to the centred layout
    psd_minus = psd[numpy.ix_(idx, idx)]
    expected = N ** 4 / 2. * del_f ** 2 * (psd + psd_minus)

    acc = numpy.zeros((N, N))
    for s in range(nscreens):
        scrn = phasescreen.ft_phase_screen(r0, N, delta, L0, l0, seed=1000 + s)
        if scrn.shape != (N, N):
            print("FAIL: screen shape", scrn.shape)
            return False
        Phi = numpy.fft.fftshift(numpy.fft.fft2(numpy.fft.ifftshift(scrn)))
        acc += numpy.abs(Phi) ** 2
    acc /= nscreens

    ok = True
    good = expected > 0
    ratio = numpy.ones((N, N))
    ratio[good] = acc[good] / expected[good]
    edges = numpy.linspace(0, N, ntiles + 1).astype(int)
    worst = 0.
    for a in range(ntiles):
        for b in range(ntiles):
            sl = (slice(edges[a], edges[a + 1]), slice(edges[b], edges[b + 1]))
            m = good[sl]
            r = ratio[sl][m].mean()
            worst = max(worst, abs(r - 1))
            if abs(r - 1) > tol:
                ok = False
                print("FAIL: N=%d  frequency tile rows %d..%d, cols %d..%d: measured/expected power = %.3f"
                      % (N, edges[a], edges[a + 1] - 1, edges[b], edges[b + 1] - 1, r))
    print("N=%4d delta=%g r0=%g L0=%g l0=%g : worst tile deviation %.3f (tol %.2f) -> %s"
          % (N, delta, r0, L0, l0, worst, tol, "ok" if ok else "VIOLATION"))
    return ok


def main():
    ok = True
    ok &= check(0.15, 64, 0.05, 20., 0.01, nscreens=200, ntiles=4, tol=0.06)
    ok &= check(0.2, 512, 4.2 / 128, 30., 0.01, nscreens=20, ntiles=4, tol=0.06)
    ok &= check(0.1, 1024, 0.01, 25., 0.005, nscreens=10, ntiles=4, tol=0.06)
    ok &= check(0.1, 1536, 0.01, 25., 0.005, nscreens=10, ntiles=6, tol=0.06)
    if not ok:
        print("C07 violated: the ensemble spectrum of the FFT screen is not the sampled von Karman spectrum")
        sys.exit(1)
    print("C07 holds on the sampled cases")
    sys.exit(0)


if __name__ == "__main__":
    main()
