"""
C07 demo B: for fixed draws the amplitude of a phase screen scales exactly as r0^(-5/6).

A screen is a linear function of its Gaussian draws with coefficients proportional to sqrt(PSD) ~ r0^(-5/6), so
two screens made from the same draws with r0 = a and r0 = b differ exactly by the factor (a/b)^(-5/6) at every
pixel.  "The same draws" is arranged the way callers do it: by handing both calls the same seed, in each of the
forms numpy's default_rng accepts (Python int, 0, numpy integer, list of ints, a SeedSequence, freshly built
Generators / BitGenerators).  Checked for the plain FFT screen and for the sub-harmonic variant, whose added
low-frequency part must scale the same way (it is a sum of von Karman-weighted draws as well).
"""
import sys
import numpy
from aotools.turbulence import phasescreen

N, delta, L0, l0 = 32, 0.05, 20., 0.01
ra, rb = 0.1, 0.25
factor = (rb / ra) ** (-5. / 6)     # screen(rb) = factor * screen(ra)

seed_forms = [
    ("int 12345", lambda: (12345, 12345)),
    ("int 0", lambda: (0, 0)),
    ("numpy.int64(7)", lambda: (numpy.int64(7), numpy.int64(7))),
    ("list [1, 2, 3]", lambda: ([1, 2, 3], [1, 2, 3])),
    ("one SeedSequence(99) handed to both calls", lambda: (lambda s: (s, s))(numpy.random.SeedSequence(99))),
    ("two SeedSequence(99)", lambda: (numpy.random.SeedSequence(99), numpy.random.SeedSequence(99))),
    ("two default_rng(5) generators", lambda: (numpy.random.default_rng(5), numpy.random.default_rng(5))),
    ("two PCG64(5) bit generators", lambda: (numpy.random.PCG64(5), numpy.random.PCG64(5))),
]

ok = True
for fname in ("ft_phase_screen", "ft_sh_phase_screen"):
    fn = getattr(phasescreen, fname)
    for label, make in seed_forms:
        s1, s2 = make()
        a = fn(ra, N, delta, L0, l0, seed=s1)
        b = fn(rb, N, delta, L0, l0, seed=s2)
        err = numpy.abs(b - factor * a).max() / numpy.abs(b).max()
        good = err < 1e-10
        ok &= good
        print("%-20s seed = %-45s max |s(rb) - (rb/ra)^(-5/6) s(ra)| / max|s(rb)| = %.2e  %s"
              % (fname, label, err, "ok" if good else "VIOLATION"))

if not ok:
    print("C07 violated: with the draws fixed by a seed the screen does not scale as r0^(-5/6)")
    sys.exit(1)
print("C07 holds on the sampled cases")
sys.exit(0)
