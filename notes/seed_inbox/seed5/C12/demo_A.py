"""C12: an array built from an index list equals the matching slices of the array built from a count.

Checked for index lists of every length from 1 upwards (list, tuple and ndarray forms), all three
normalisations, an odd and an even grid size.
"""
import sys
import numpy
from aotools.functions import zernike

failures = []


def check(index_list, N, norm, rot):
    idx = [int(j) for j in index_list]
    full = zernike.zernikeArray(max(idx), N, norm=norm, rot=rot)
    sub = zernike.zernikeArray(index_list, N, norm=norm, rot=rot)
    want = full[[j - 1 for j in idx]]
    label = "zernikeArray(%r, %d, norm=%r, rot=%r)" % (index_list, N, norm, rot)
    if sub.shape != want.shape:
        failures.append("%s has shape %s, expected %s (one plane per listed Noll index)"
                        % (label, sub.shape, want.shape))
        return
    err = numpy.abs(sub - want).max()
    if not err <= 1e-12:
        failures.append("%s differs from the matching slices of the count-built array by %.3g"
                        % (label, err))


for N in (16, 17):
    for norm in ("noll", "rms", "p2v"):
        for rot in (0, 0.4):
            for index_list in ([2, 3, 4], [7, 2], [5], [7], (11,), numpy.array([3]),
                               [1], [4, 4], list(range(1, 9))):
                check(index_list, N, norm, rot)

# a single listed mode must be that mode, not the first one (piston)
Z = zernike.zernikeArray([6], 32)
direct = zernike.zernike_noll(6, 32)
if Z.shape != (1, 32, 32) or numpy.abs(Z[0] - direct).max() > 1e-12:
    failures.append("zernikeArray([6], 32) is not the single mode zernike_noll(6, 32): shape %s" % (Z.shape,))

if failures:
    print("C12 VIOLATED: index-list arrays do not match the slices of the count-built array")
    for f in failures[:12]:
        print("  -", f)
    print("  (%d failing cases in total)" % len(failures))
    sys.exit(1)
print("ok: index-list arrays equal the matching slices for every list length, form, norm, N")
sys.exit(0)
