"""C12: generated Zernike modes vanish outside the inscribed pupil, are orthonormal over it under Noll
normalisation, and have unit RMS under the "rms" normalisation -- whatever the program did before.

History exercised here: the program first builds its own telescope pupil (an annulus with a spider) by
editing, in place, the array that aotools.circle() handed back -- ordinary user code -- and only then
asks for Zernike modes on the same grid size.  The modes must not depend on that.
"""
import sys
import numpy
import aotools
from aotools.functions import zernike

failures = []


def reference_mode(j, N):
    """Modes 1..6 written out by hand on the pixel-centre grid of an N-pixel diameter pupil."""
    c = (numpy.arange(N) - N / 2. + 0.5) / (N / 2.)
    x, y = numpy.meshgrid(c, c)
    r2 = x * x + y * y
    inside = r2 <= 1.0
    z = {1: numpy.ones_like(x),
         2: 2 * x,
         3: 2 * y,
         4: numpy.sqrt(3.) * (2 * r2 - 1),
         5: numpy.sqrt(6.) * 2 * x * y,
         6: numpy.sqrt(6.) * (x * x - y * y)}[j]
    return z * inside, inside


def check_modes(N, when):
    Zs = zernike.zernikeArray(6, N)
    for j in range(1, 7):
        ref, inside = reference_mode(j, N)
        if numpy.abs(Zs[j - 1][~inside]).max() != 0:
            failures.append("%s: N=%d mode %d is non-zero outside the pupil" % (when, N, j))
        err = numpy.abs(Zs[j - 1] - ref).max()
        if not err <= 1e-9:
            bad = int(numpy.sum(numpy.abs(Zs[j - 1] - ref) > 1e-9))
            failures.append("%s: N=%d Noll mode %d differs from its polynomial at %d in-pupil pixels (max %.3g)"
                            % (when, N, j, bad, err))
    # Gram matrix over the pupil -> identity (discretisation error only)
    npix = reference_mode(1, N)[1].sum()
    flat = Zs.reshape(6, -1)
    gram = flat.dot(flat.T) / npix
    dev = numpy.abs(gram - numpy.identity(6)).max()
    if not dev <= 0.02:
        failures.append("%s: N=%d Gram matrix of modes 1-6 is off the identity by %.3g" % (when, N, dev))
    # unit RMS over the pupil under norm='rms'
    Zr = zernike.zernikeArray(6, N, norm="rms")
    for j in range(1, 7):
        rms = numpy.sqrt((Zr[j - 1] ** 2).sum() / npix)
        if not abs(rms - 1) <= 1e-9:
            failures.append("%s: N=%d mode %d has RMS %.6f over the pupil under norm='rms'" % (when, N, j, rms))


for N in (128, 129):
    check_modes(N, "fresh")

    # the user's own telescope pupil: annulus + one spider vane, edited in place
    pupil = aotools.circle(N / 2., N)
    pupil -= aotools.circle(N / 6., N)
    pupil[:, N // 2 - 1:N // 2 + 1] = 0

    check_modes(N, "after building an obstructed pupil from aotools.circle()")

    # and a phase built from coefficients is still that combination of the true modes
    coeffs = [0.3, -1.0, 0.5, 2.0, 0.25, -0.75]
    phase = zernike.phaseFromZernikes(coeffs, N)
    want = sum(c * reference_mode(j + 1, N)[0] for j, c in enumerate(coeffs))
    err = numpy.abs(phase - want).max()
    if not err <= 1e-9:
        failures.append("N=%d phaseFromZernikes differs from the linear combination of the modes by %.3g" % (N, err))

if failures:
    print("C12 VIOLATED: Zernike modes depend on what was done to an earlier aotools.circle() result")
    for f in failures[:14]:
        print("  -", f)
    print("  (%d failing checks in total)" % len(failures))
    sys.exit(1)
print("ok: modes are the Noll polynomials on the full inscribed pupil, before and after")
sys.exit(0)
