"""
C01 demo B: the slope covariance matrix is additive over the turbulent layers, and every entry is the covariance of
the finite-difference slopes at the geometrically projected sub-aperture positions, layer by layer.

A small tomographic system (one sodium laser guide star, two off-axis natural guide stars) looks through a
three-layer atmosphere.
  1. additivity: the matrix of the three-layer atmosphere must equal the sum of the three single-layer matrices
     (to single-precision rounding), whatever the order in which the layers are listed;
  2. the block of the two natural guide star sensors is compared entry by entry with an independent evaluation of
     Cov(s_a, s_b) = l_a l_b / (4 pi^2 d^2) * 1/2 [ D(u-z) + D(v-w) - D(u-w) - D(v-z) ]   (D: von Karman structure
     function; s_a = l_a/(2 pi d) (phi(u) - phi(v)), s_b likewise with w, z).
Exit 0 if both hold, 1 otherwise.
"""
import sys

import numpy
from scipy.special import gamma, kv

import aotools


def d_vk(r, r0, L0):
    r = numpy.asarray(r, dtype=float)
    k = (L0 / r0) ** (5. / 3) * 2 ** (-5. / 6) * gamma(11. / 6) / numpy.pi ** (8. / 3) * (24. / 5 * gamma(6. / 5)) ** (5. / 6)
    x = 2 * numpy.pi * numpy.where(r == 0, 1., r) / L0
    b = numpy.where(r == 0, gamma(5. / 6) / 2 ** (1. / 6), x ** (5. / 6) * kv(5. / 6, x))
    return 2 * k * (gamma(5. / 6) / 2 ** (1. / 6) - b)


def reference_ngs(masks, tel_diam, d, gs_pos, wvls, alts, r0s, L0s):
    """natural guide stars, one common sub-aperture size (a common offset of all centres drops out)"""
    scale = []
    for m, w in zip(masks, wvls):
        scale += [w / (2 * numpy.pi * d)] * (2 * int(m.sum()))
    scale = numpy.array(scale)
    cov = numpy.zeros((len(scale), len(scale)))
    for h, r0, L0 in zip(alts, r0s, L0s):
        plus, minus = [], []
        for m, g in zip(masks, gs_pos):
            c = (numpy.array(numpy.where(m == 1)).T * d - tel_diam / 2.
                 + numpy.array(g) * numpy.pi / 180 / 3600 * h)
            for axis in (0, 1):
                e = numpy.zeros(2)
                e[axis] = d / 2.
                plus.append(c + e)
                minus.append(c - e)
        u, v = numpy.concatenate(plus), numpy.concatenate(minus)

        def dist(a, b):
            return numpy.sqrt(((a[:, None, :] - b[None, :, :]) ** 2).sum(-1))
        cov += 0.5 * (d_vk(dist(u, v), r0, L0) + d_vk(dist(v, u), r0, L0)
                      - d_vk(dist(u, u), r0, L0) - d_vk(dist(v, v), r0, L0))
    return cov * scale[:, None] * scale[None, :]


def build(masks, tel_diam, diams, gs_alt, gs_pos, wvls, alts, r0s, L0s):
    cm = aotools.CovarianceMatrix(len(masks), masks, tel_diam, diams, gs_alt, gs_pos, wvls,
                                  len(alts), alts, r0s, L0s)
    return numpy.asarray(cm.make_covariance_matrix(), dtype=float)


def main():
    tel_diam = 4.2
    d = 0.6
    mask = aotools.circle(3.5, 7)
    mask[1, 0] = 0
    mask[6, 4] = 0          # not point symmetric
    mask2 = mask.copy()
    mask2[3, 3] = 0         # central obscuration for the second sensor only
    masks = [mask, mask2, mask]
    diams = [d, d, d]
    gs_alt = [90000., 0, 0]
    gs_pos = [[0., 0.], [30., 12.], [-20., 35.]]
    wvls = [589e-9, 700e-9, 1650e-9]
    alts = [0., 4000., 11000.]
    r0s = [0.2, 0.4, 0.5]
    L0s = [25., 30., 40.]

    bad = False

    # 1. additivity over layers, for two orders of listing the layers
    single = [build(masks, tel_diam, diams, gs_alt, gs_pos, wvls, [alts[k]], [r0s[k]], [L0s[k]]) for k in range(3)]
    total = single[0] + single[1] + single[2]
    for order in ([0, 1, 2], [2, 0, 1]):
        got = build(masks, tel_diam, diams, gs_alt, gs_pos, wvls,
                    [alts[k] for k in order], [r0s[k] for k in order], [L0s[k] for k in order])
        err = abs(got - total).max() / abs(total).max()
        print("layers listed as %s: max |C(all layers) - sum of C(single layer)| / max |C| = %.2e" % (order, err))
        if not err < 1e-5:
            bad = True

    # 2. the two natural guide star sensors against the formula
    got = build(masks[1:], tel_diam, diams[1:], gs_alt[1:], gs_pos[1:], wvls[1:], alts, r0s, L0s)
    want = reference_ngs(masks[1:], tel_diam, d, gs_pos[1:], wvls[1:], alts, r0s, L0s)
    n1 = 2 * int(masks[1].sum())
    for name, sl in (("NGS1-NGS1", (slice(0, n1), slice(0, n1))), ("NGS2-NGS1", (slice(n1, None), slice(0, n1))),
                     ("NGS2-NGS2", (slice(n1, None), slice(n1, None)))):
        err = abs(got[sl] - want[sl]).max() / abs(want[sl]).max()
        print("block %-10s max |library - reference| / max |reference| = %.2e" % (name, err))
        if not err < 3e-3:       # the library quotes the von Karman constant to five digits
            bad = True

    if bad:
        print("FAIL: the matrix is not the layer-by-layer sum of the covariances at the projected positions")
        return 1
    print("OK")
    return 0


if __name__ == "__main__":
    sys.exit(main())
