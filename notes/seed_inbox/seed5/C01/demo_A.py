"""
C01 demo A: every entry of the slope covariance matrix equals the covariance of the two finite-difference slope
measurements of the von Karman phase, also when the two sensors have DIFFERENT sub-aperture sizes.

Two natural guide star Shack-Hartmanns look through a two-layer atmosphere: a fine one (8x8 sub-apertures of 0.5 m)
and a coarse one (4x4 sub-apertures of 1 m, a few of them masked out).  The matrix of the library is compared entry
by entry with an independent evaluation of

    Cov(s_a, s_b) = l_a l_b / (4 pi^2 d_a d_b) * 1/2 [ D(u-z) + D(v-w) - D(u-w) - D(v-z) ]

where s_a = l_a/(2 pi d_a) (phi(u) - phi(v)), s_b = l_b/(2 pi d_b) (phi(w) - phi(z)) and D is the von Karman
structure function.  Exit 0 if they agree (to a few 1e-3 of the largest entry of the block: the library quotes the
von Karman constant to five digits only), exit 1 otherwise.
"""
import sys

import numpy
from scipy.special import gamma, kv

import aotools


def d_vk(r, r0, L0):
    """von Karman phase structure function, written from the phase covariance B: D = 2 (B(0) - B(r))"""
    r = numpy.asarray(r, dtype=float)
    k = (L0 / r0) ** (5. / 3) * 2 ** (-5. / 6) * gamma(11. / 6) / numpy.pi ** (8. / 3) * (24. / 5 * gamma(6. / 5)) ** (5. / 6)
    x = 2 * numpy.pi * numpy.where(r == 0, 1., r) / L0
    b = numpy.where(r == 0, gamma(5. / 6) / 2 ** (1. / 6), x ** (5. / 6) * kv(5. / 6, x))
    return 2 * k * (gamma(5. / 6) / 2 ** (1. / 6) - b)


def reference(masks, tel_diam, diams, gs_pos, wvls, alts, r0s, L0s, centre_sign):
    """slopes ordered per sensor as all x (axis 0) then all y (axis 1); natural guide stars only"""
    pts_p, pts_m, scale = [], [], []
    per_layer = []
    for h in alts:
        plus, minus = [], []
        for m, d, g in zip(masks, diams, gs_pos):
            idx = numpy.array(numpy.where(m == 1)).T.astype(float)
            # centre of the sub-apertures; the constant offset is the same for all sub-apertures of a sensor
            c = idx * d - tel_diam / 2. + centre_sign * d / 2. + numpy.array(g) * numpy.pi / 180 / 3600 * h
            for axis in (0, 1):
                e = numpy.zeros(2)
                e[axis] = d / 2.
                plus.append(c + e)
                minus.append(c - e)
        per_layer.append((numpy.concatenate(plus), numpy.concatenate(minus)))
    for m, d, w in zip(masks, diams, wvls):
        scale += [w / (2 * numpy.pi * d)] * (2 * int(m.sum()))
    scale = numpy.array(scale)

    n = len(scale)
    cov = numpy.zeros((n, n))
    for (u, v), r0, L0 in zip(per_layer, r0s, L0s):
        def dist(a, b):
            return numpy.sqrt(((a[:, None, :] - b[None, :, :]) ** 2).sum(-1))
        cov += 0.5 * (d_vk(dist(u, v), r0, L0) + d_vk(dist(v, u), r0, L0)
                      - d_vk(dist(u, u), r0, L0) - d_vk(dist(v, v), r0, L0))
    return cov * scale[:, None] * scale[None, :]


def main():
    tel_diam = 4.
    fine = numpy.ones((8, 8))
    coarse = numpy.ones((4, 4))
    coarse[0, 0] = coarse[0, 3] = coarse[3, 1] = 0          # not point symmetric
    masks = [fine, coarse]
    diams = [0.5, 1.0]
    gs_alt = [0, 0]
    gs_pos = [[0., 0.], [25., -40.]]
    wvls = [600e-9, 1650e-9]
    alts = [0., 8000.]
    r0s = [0.15, 0.3]
    L0s = [20., 30.]

    cm = aotools.CovarianceMatrix(2, masks, tel_diam, diams, gs_alt, gs_pos, wvls, len(alts), alts, r0s, L0s)
    got = numpy.asarray(cm.make_covariance_matrix(), dtype=float)

    n1 = int(fine.sum())
    n2 = int(coarse.sum())
    names = {"fine-fine": (slice(0, 2 * n1), slice(0, 2 * n1)),
             "coarse-coarse": (slice(2 * n1, None), slice(2 * n1, None)),
             "coarse-fine": (slice(2 * n1, None), slice(0, 2 * n1))}

    # the property fixes the positions up to the convention for the centre of sub-aperture 0; accept both
    errors = {}
    for sign in (-1, +1):
        want = reference(masks, tel_diam, diams, gs_pos, wvls, alts, r0s, L0s, sign)
        errors[sign] = {k: abs(got[s] - want[s]).max() / abs(want[s]).max() for k, s in names.items()}
    best = min(errors, key=lambda s: max(errors[s].values()))
    bad = False
    for k, e in errors[best].items():
        print("block %-14s max |library - reference| / max |reference| = %.2e" % (k, e))
        if not e < 3e-3:
            bad = True

    if abs(got - got.T).max() != 0:
        print("matrix is not symmetric")
        bad = True
    if bad:
        print("FAIL: the slope covariance matrix is not the covariance of the finite-difference slopes "
              "for sensors with different sub-aperture sizes")
        return 1
    print("OK")
    return 0


if __name__ == "__main__":
    sys.exit(main())
