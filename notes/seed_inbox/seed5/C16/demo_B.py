"""C16 -- spline zoom, both entry points (zoom, zoom_rbs), orders 1, 3, 5.

Checked: unchanged size returns the input; a new grid that contains the old nodes passes through the
original samples; polynomials of degree <= spline order (per axis) are reproduced exactly at every new
sample, also between the nodes and next to the array edge; complex data are zoomed as real + i*imag.
"""
import sys
import numpy
from aotools import interpolation

problems = []
rng = numpy.random.RandomState(1616)


def relerr(got, want):
    return numpy.abs(got - want).max() / max(1.0, numpy.abs(want).max())


def poly2d(cx, cy, X, Y):
    return numpy.polynomial.polynomial.polyval(X, cx) * numpy.polynomial.polynomial.polyval(Y, cy)


for name in ("zoom", "zoom_rbs"):
    f = getattr(interpolation, name)
    for order in (1, 3, 5):
        for N in (8, 13):
            img = rng.rand(N, N)
            # unchanged size -> the input
            e = relerr(f(img, (N, N), order), img)
            if e > 1e-10:
                problems.append("%s order %d N=%d: unchanged size differs from input by %.3g" % (name, order, N, e))
            # new grid containing the old nodes -> original samples
            for k in (2, 3):
                M = k * (N - 1) + 1
                e = relerr(f(img, (M, M), order)[::k, ::k], img)
                if e > 1e-10:
                    problems.append("%s order %d N=%d->%d: original samples changed by %.3g" % (name, order, N, M, e))
            # polynomial of degree `order` in each variable, general target sizes (also non-square)
            x = numpy.arange(N) / float(N - 1)                       # scaled so the coefficients stay O(1)
            cx, cy = rng.uniform(-1, 1, order + 1), rng.uniform(-1, 1, order + 1)
            X, Y = numpy.meshgrid(x, x, indexing="ij")
            P = poly2d(cx, cy, X, Y)
            for target in ((2 * N + 3, 2 * N + 3), (3 * N, N + 5)):
                U, V = numpy.meshgrid(numpy.linspace(0, 1, target[0]), numpy.linspace(0, 1, target[1]), indexing="ij")
                want = poly2d(cx, cy, U, V)
                got = f(P, target, order)
                if got.shape != tuple(target):
                    problems.append("%s order %d: shape %r for target %r" % (name, order, got.shape, target))
                    continue
                e = relerr(got, want)
                if e > 1e-9:
                    i, j = numpy.unravel_index(numpy.abs(got - want).argmax(), got.shape)
                    problems.append("%s order %d N=%d->%r: degree-%d polynomial not reproduced, error %.3g at new sample (%d,%d)"
                                    % (name, order, N, target, order, e, i, j))
            # complex = real + i*imag
            Z = (img + 1j * rng.rand(N, N)).astype(numpy.complex128)
            got = f(Z, (2 * N + 1, 2 * N + 1), order)
            want = f(Z.real.copy(), (2 * N + 1, 2 * N + 1), order) + 1j * f(Z.imag.copy(), (2 * N + 1, 2 * N + 1), order)
            e = relerr(got, want)
            if e > 1e-10:
                problems.append("%s order %d N=%d: complex zoom differs from real + i*imag by %.3g" % (name, order, N, e))

if problems:
    print("C16 VIOLATED (spline zoom):")
    for p in problems[:12]:
        print("  -", p)
    if len(problems) > 12:
        print("  ... and %d more" % (len(problems) - 12))
    sys.exit(1)
print("C16 holds: zoom/zoom_rbs identity, node pass-through, polynomial exactness, complex handling")
sys.exit(0)
