"""C16 -- encircled-energy curve of non-negative, even-sized images.

For every image: the curve starts at 0, never decreases, never exceeds 1, and the reported diameter is the
point of the curve closest to the requested fraction.  A frame sequence of one detector (same size, photon
counts) is analysed frame after frame, as a PSF-monitoring loop does; the answer for a frame may not depend
on the frames analysed before it.
"""
import sys
import numpy
from aotools import image_processing

TOL = 1e-9
problems = []


def gaussian_psf(size, fwhm, peak, offset=(0.0, 0.0)):
    c = numpy.arange(size) + 0.5 - size / 2.
    x, y = numpy.meshgrid(c - offset[0], c - offset[1])
    sigma = fwhm / 2.3548
    return peak * numpy.exp(-(x * x + y * y) / (2 * sigma * sigma))


def check_frame(label, img, fractions=(0.1, 0.3, 0.5, 0.8, 0.95)):
    x, y = image_processing.encircled_energy(img, eeDiameter=False)
    if abs(y[0]) > TOL:
        problems.append("%s: curve starts at %r, not 0" % (label, y[0]))
    if numpy.any(numpy.diff(y) < -TOL):
        problems.append("%s: curve decreases (largest drop %g)" % (label, numpy.diff(y).min()))
    if y.max() > 1 + TOL:
        problems.append("%s: curve exceeds 1 (max %g)" % (label, y.max()))
    if not numpy.all(numpy.isfinite(y)):
        problems.append("%s: curve is not finite" % label)
    for f in fractions:
        d = image_processing.encircled_energy(img, fraction=f)
        # the reported diameter lies on the curve's grid, at the sample closest to the fraction
        k = int(numpy.argmin(numpy.abs(x - d)))
        if abs(x[k] - d) > TOL:
            problems.append("%s: diameter %r for fraction %g is not on the curve's grid" % (label, d, f))
        elif abs(y[k] - f) > numpy.abs(y - f).min() + TOL:
            problems.append("%s: diameter %g for fraction %g sits at curve value %g; closest value is %g"
                            % (label, d, f, y[k], y[numpy.abs(y - f).argmin()]))
    return x, y


rng = numpy.random.RandomState(16)
for size in (32, 48):
    frames = []
    for k in range(4):
        psf = gaussian_psf(size, fwhm=3.0 + 1.5 * k, peak=4000.0 / (k + 1),
                           offset=(0.3 * k, -0.2 * k))
        frames.append(rng.poisson(psf + 5.0).astype(float))      # photon counts, sky background 5
    curves = [check_frame("size %d frame %d" % (size, k), f) for k, f in enumerate(frames)]
    # a frame analysed again gives the same curve: the reduction is a function of the image alone
    x0, y0 = check_frame("size %d frame 0 (again)" % size, frames[0])
    if not numpy.allclose(y0, curves[0][1], rtol=0, atol=1e-12):
        problems.append("size %d: frame 0 analysed again gives a different curve (max difference %g)"
                        % (size, numpy.abs(y0 - curves[0][1]).max()))

if problems:
    print("C16 VIOLATED (encircled energy):")
    for p in problems[:12]:
        print("  -", p)
    if len(problems) > 12:
        print("  ... and %d more" % (len(problems) - 12))
    sys.exit(1)
print("C16 holds: encircled-energy curves start at 0, are monotone, bounded by 1, diameters at the crossing")
sys.exit(0)
