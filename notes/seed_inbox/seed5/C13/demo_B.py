"""C13: the Karhunen-Loeve functions of one basis, taken on their native polar grid with gkl_sfi, are orthonormal over
the pupil, piston free and diagonalise the Kolmogorov covariance with the returned variances.  The functions are
fetched one after the other and then used TOGETHER (Gram matrix, covariance matrix), as any caller of gkl_sfi does."""
import contextlib
import io
import sys
import warnings

import numpy as np

warnings.simplefilter('ignore')
from aotools.functions import karhunenLoeve as KL


def check(base, var, label):
    nr, npp, nmax = base['nr'], base['np'], base['nfunc']
    funcs = [KL.gkl_sfi(base, i) for i in range(nmax)]          # the nmax functions of the basis
    n = nr * npp
    gram = np.array([[np.sum(f * g) / n for g in funcs] for f in funcs])
    means = np.array([f.mean() for f in funcs])
    r = np.asarray(base['radp'], dtype=float)
    th = np.arange(npp) * 2 * np.pi / npp
    x = (r[:, None] * np.cos(th)).ravel()
    y = (r[:, None] * np.sin(th)).ravel()
    D = 6.8839 * (np.hypot(x[:, None] - x[None, :], y[:, None] - y[None, :]) / 2.) ** (5. / 3)
    F = np.array([f.ravel() for f in funcs])
    C = -0.5 * F @ D @ F.T / n ** 2
    var = np.asarray(var, dtype=float)
    bad = []
    e = np.abs(gram - np.eye(nmax)).max()
    if e > 1e-8:
        bad.append('%s: functions not orthonormal over the pupil, max |<K_i K_j> - delta_ij| = %.3g' % (label, e))
    if np.abs(means).max() > 1e-8:
        bad.append('%s: functions not piston free, max |mean| = %.3g' % (label, np.abs(means).max()))
    e = np.abs(C - np.diag(var)).max() / var[0]
    if e > 1e-3:
        bad.append('%s: covariance not diag(variances), relative error %.3g' % (label, e))
    return bad, funcs


failures = []
with contextlib.redirect_stdout(io.StringIO()):
    base = KL.gkl_basis(ri=0.35, nr=12, nfunc=14)
    kl, var, pupil, mbase = KL.make_kl(10, 48, ri=0.2, nr=16)

bad, _ = check(base, base['evals'], 'gkl_basis(ri=0.35, nr=12, nfunc=14)')
failures += bad
bad, funcs = check(mbase, var, 'polar base of make_kl(10, 48, ri=0.2, nr=16)')
failures += bad

# the Cartesian rendering of mode 1 follows polar function 1 (fetched before the other functions were fetched)
nr, npp, ri, dim = mbase['nr'], mbase['np'], mbase['ri'], 48
c = (np.arange(dim) - (dim - 1) / 2.) / (dim / 2.)
xx, yy = np.meshgrid(c, c)
r2 = xx ** 2 + yy ** 2
d = (1 - ri ** 2) / nr
inside = (r2 >= ri ** 2 + d) & (r2 <= 1 - 2 * d)       # stay clear of the first / last ring
kr = np.clip(np.rint((r2 - ri ** 2) / d - 1. / 16).astype(int), 0, nr - 1)
kp = np.rint(((np.arctan2(yy, xx) + 2 * np.pi) % (2 * np.pi)) * npp / (2 * np.pi)).astype(int) % npp
near = funcs[1][kr, kp]                                  # nearest polar sample of function 1 at every pixel
e = np.abs(kl[1] - near)[inside].max()
if e > 0.35 * np.abs(kl[1]).max():
    failures.append('make_kl(10, 48, ri=0.2, nr=16): Cartesian mode 1 does not follow polar function 1 '
                    '(max deviation %.3g, mode amplitude %.3g)' % (e, np.abs(kl[1]).max()))

if failures:
    print('C13 VIOLATED')
    for f in failures:
        print('  ' + f)
    sys.exit(1)
print('C13 holds')
sys.exit(0)
