"""C13: make_kl asked for KOLMOGOROV statistics must return modes that diagonalise the Kolmogorov covariance with the
returned variances -- also when the caller hands over an outer scale together with the Kolmogorov tag (a configuration
that carries an outer scale for other purposes; the docstring says it is only relevant for the von Karman tags)."""
import contextlib
import io
import sys
import warnings

import numpy as np

warnings.simplefilter('ignore')
from aotools.functions import karhunenLoeve as KL


def kolmogorov_check(nmax, dim, ri, nr, **kw):
    with contextlib.redirect_stdout(io.StringIO()):
        kl, var, pupil, base = KL.make_kl(nmax, dim, ri=ri, nr=nr, **kw)
    npp = base['np']
    F = np.array([np.array(KL.gkl_sfi(base, i), copy=True) for i in range(nmax)]).reshape(nmax, -1)
    n = nr * npp
    gram = F @ F.T / n
    r = np.asarray(base['radp'], dtype=float)
    th = np.arange(npp) * 2 * np.pi / npp
    x = (r[:, None] * np.cos(th)).ravel()
    y = (r[:, None] * np.sin(th)).ravel()
    sep = np.hypot(x[:, None] - x[None, :], y[:, None] - y[None, :]) / 2.   # in pupil diameters
    D = 6.8839 * sep ** (5. / 3)                                           # Kolmogorov, D/r0 = 1
    C = -0.5 * F @ D @ F.T / n ** 2
    var = np.asarray(var, dtype=float)
    bad = []
    if np.abs(gram - np.eye(nmax)).max() > 1e-8:
        bad.append('not orthonormal: max |G - I| = %.3g' % np.abs(gram - np.eye(nmax)).max())
    if np.abs(F.mean(axis=1)).max() > 1e-8:
        bad.append('not piston free')
    if not (np.all(var > 0) and np.all(np.diff(var) <= 0) and var[0] == var[1]):
        bad.append('variances not positive / non-increasing / tip=tilt: %s' % var[:6])
    err = np.abs(C - np.diag(var)).max() / var[0]
    if err > 1e-3:
        bad.append('-1/2 <K_i D_kolmogorov K_j> differs from diag(variances): relative error %.3g '
                   '(double average gives %s, returned variances %s)' % (err, np.diag(C)[:4], var[:4]))
    return bad


failures = []
cases = [dict(nmax=12, dim=32, ri=0.3, nr=12),
         dict(nmax=12, dim=32, ri=0.3, nr=12, stf='kolmogorov', outerscale=20.),
         dict(nmax=20, dim=24, ri=0.55, nr=14, stf='kolstf', outerscale=4.)]
for c in cases:
    for msg in kolmogorov_check(**c):
        failures.append('make_kl(%s): %s' % (', '.join('%s=%r' % kv for kv in c.items()), msg))

if failures:
    print('C13 VIOLATED')
    for f in failures:
        print('  ' + f)
    sys.exit(1)
print('C13 holds for all cases')
sys.exit(0)
