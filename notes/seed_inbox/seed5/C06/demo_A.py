"""C06: a seeded infinite screen reproduces its rows bit for bit, whatever else is done in between.

Two reproductions of the same seeded screen are compared.  In the first the current phase is looked at
(``.scrn``) before rows are added, in the second rows are added straight after construction, with other
screen objects being built / extended and the global NumPy random state being changed in between.  The
screens returned by ``add_row`` must agree bit for bit, row after row.
"""
import sys
import numpy
from aotools.turbulence import infinitephasescreen as ips
from aotools.turbulence import ft_phase_screen

N_ROWS = 4
bad = []


def same(a, b):
    return a.shape == b.shape and a.tobytes() == b.tobytes()


def run(cls, args, kwargs, seed, look_first, disturb):
    """Build a seeded screen, add N_ROWS rows and return the screens that add_row handed back."""
    if disturb:
        numpy.random.seed(99)
        other = ips.PhaseScreenVonKarman(8, 0.1, 0.2, 30., random_seed=seed)
        other.add_row()
    s = cls(*args, random_seed=seed, **kwargs)
    first = None
    if look_first:
        first = numpy.array(s.scrn)
    out = []
    for i in range(N_ROWS):
        if disturb:
            numpy.random.normal(size=3)
            ft_phase_screen(0.2, 8, 0.1, 30., 0.01)
            other.add_row()
        out.append(numpy.array(s.add_row()))
    return first, out


cases = [
    ("PhaseScreenVonKarman", ips.PhaseScreenVonKarman, (16, 0.25, 0.2, 40.), {}),
    ("PhaseScreenVonKarman n_columns=4", ips.PhaseScreenVonKarman, (12, 0.1, 0.15, 25.), {"n_columns": 4}),
    ("PhaseScreenKolmogorov", ips.PhaseScreenKolmogorov, (9, 0.25, 0.2, 40.), {"stencil_length_factor": 2}),
]

for name, cls, args, kwargs in cases:
    for seed in (1, 20240917):
        first_a, rows_a = run(cls, args, kwargs, seed, look_first=True, disturb=False)
        first_b, rows_b = run(cls, args, kwargs, seed, look_first=True, disturb=True)
        _, rows_c = run(cls, args, kwargs, seed, look_first=False, disturb=False)
        _, rows_d = run(cls, args, kwargs, seed, look_first=False, disturb=True)
        if not same(first_a, first_b):
            bad.append("%s seed=%d: initial screens of two reproductions differ" % (name, seed))
        for label, rows in (("phase looked at first / with other calls in between", rows_b),
                            ("rows added straight after construction", rows_c),
                            ("rows added straight after construction / with other calls in between", rows_d)):
            for i, (x, y) in enumerate(zip(rows_a, rows)):
                if not same(x, y):
                    bad.append("%s seed=%d: screen after row %d differs between two reproductions "
                               "(reference: phase looked at before the first add_row; other: %s); "
                               "max |difference| = %.3g" % (name, seed, i + 1, label, numpy.abs(x - y).max()))
                    break
        # the first row added sits on top of the initial screen
        if not same(rows_c[0][1:], first_a[:-1]):
            bad.append("%s seed=%d: after one add_row the old phase is not the seeded initial screen "
                       "shifted by one row" % (name, seed))

if bad:
    print("C06 VIOLATED:")
    for b in bad:
        print("  -", b)
    sys.exit(1)
print("C06 holds for the cases tried")
sys.exit(0)
