"""C06: with the same seed and parameters an infinite screen and every row added to it are bit-identical,
for every seed; different seeds give different screens; unseeded screens differ from each other.

Each seed of a small list (including the smallest admissible one and NumPy-integer forms) is used to build
the same screen twice, with unrelated work in between, and the initial phase and four added rows are compared.
"""
import sys
import numpy
from aotools.turbulence import infinitephasescreen as ips

N_ROWS = 4
bad = []


def history(cls, args, kwargs, seed):
    s = cls(*args, random_seed=seed, **kwargs)
    out = [numpy.array(s.scrn)]
    for i in range(N_ROWS):
        out.append(numpy.array(s.add_row()))
    return out


def same(a, b):
    return a.shape == b.shape and a.tobytes() == b.tobytes()


cases = [
    ("PhaseScreenVonKarman", ips.PhaseScreenVonKarman, (16, 0.25, 0.2, 40.), {}),
    ("PhaseScreenKolmogorov", ips.PhaseScreenKolmogorov, (9, 0.25, 0.2, 40.), {"stencil_length_factor": 2}),
]
seeds = [0, 1, 2, 7, 2**31 - 1, 2**32, 2**64 + 5, numpy.int64(0), numpy.uint8(3)]

for name, cls, args, kwargs in cases:
    firsts = {}
    for seed in seeds:
        h1 = history(cls, args, kwargs, seed)
        numpy.random.seed(5)
        ips.PhaseScreenVonKarman(8, 0.1, 0.2, 30.).add_row()      # unrelated, unseeded instance
        h2 = history(cls, args, kwargs, seed)
        for i, (x, y) in enumerate(zip(h1, h2)):
            if not same(x, y):
                what = "initial screen" if i == 0 else "screen after row %d" % i
                bad.append("%s random_seed=%r (%s): %s differs between two reproductions, max |difference| = %.3g"
                           % (name, seed, type(seed).__name__, what, numpy.abs(x - y).max()))
                break
        firsts.setdefault(int(seed), h1[0])
    keys = sorted(firsts)
    for i, a in enumerate(keys):
        for b in keys[i + 1:]:
            if same(firsts[a], firsts[b]):
                bad.append("%s: seeds %d and %d give the same screen" % (name, a, b))
    u1 = history(cls, args, kwargs, None)
    u2 = history(cls, args, kwargs, None)
    if same(u1[0], u2[0]) or same(u1[-1], u2[-1]):
        bad.append("%s: two unseeded screens are identical" % name)

if bad:
    print("C06 VIOLATED:")
    for b in bad:
        print("  -", b)
    sys.exit(1)
print("C06 holds for the cases tried")
sys.exit(0)
