"""
C03: the slope covariance matrix built with worker processes must be bit-identical to the single-process one,
for every worker count and every sensor/layer configuration.

Sweeps the number of wavefront sensors (hence the number of WFS-pair tasks per layer) against the worker count,
for LGS, NGS and mixed systems.  Exits 0 if every multi-process build equals the single-process build, 1 otherwise.
"""
import sys
import numpy
import aotools


def system(n_wfs, kind, threads):
    nx_subaps = 4
    telescope_diameter = 4.2
    n_layers = 2
    layer_altitudes = numpy.array([0., 8000.])
    layer_r0s = [0.25, 0.4]
    layer_L0s = [25., 40.]
    mask = numpy.ones((nx_subaps, nx_subaps))
    mask[0, 0] = mask[0, -1] = mask[-1, 0] = mask[-1, -1] = 0
    pupil_masks = [mask.copy() for _ in range(n_wfs)]
    subap_diameters = [telescope_diameter / nx_subaps] * n_wfs
    if kind == "lgs":
        gs_altitudes = [90000.] * n_wfs
    elif kind == "ngs":
        gs_altitudes = [0] * n_wfs
    else:
        gs_altitudes = [90000. if i % 2 else 0 for i in range(n_wfs)]
    angles = 2 * numpy.pi * numpy.arange(n_wfs) / n_wfs
    gs_positions = [[12. * numpy.cos(a) + 1.5 * i, 12. * numpy.sin(a) - 0.5 * i] for i, a in enumerate(angles)]
    wfs_wavelengths = [500e-9 + 25e-9 * i for i in range(n_wfs)]
    return aotools.CovarianceMatrix(
        n_wfs, pupil_masks, telescope_diameter, subap_diameters, gs_altitudes, gs_positions, wfs_wavelengths,
        n_layers, layer_altitudes, layer_r0s, layer_L0s, threads)


def main():
    failures = []
    for kind in ("lgs", "ngs", "mixed"):
        for n_wfs in (1, 2, 3, 4, 5, 6):
            reference = system(n_wfs, kind, 1).make_covariance_matrix()
            for threads in (2, 3, 4, 7):
                got = system(n_wfs, kind, threads).make_covariance_matrix()
                same = (got.shape == reference.shape and got.dtype == reference.dtype
                        and numpy.array_equal(got, reference))
                if not same:
                    n_pairs = n_wfs * (n_wfs + 1) // 2
                    bad = int((got != reference).sum()) if got.shape == reference.shape else -1
                    failures.append(
                        "{} system, n_wfs={} ({} WFS pairs), threads={}: {} of {} elements differ "
                        "from the single-process matrix (max |diff| = {:.3g})".format(
                            kind, n_wfs, n_pairs, threads, bad, reference.size,
                            float(abs(got.astype("float64") - reference).max()) if bad > 0 else float("nan")))
    if failures:
        print("C03 VIOLATED: multi-process covariance matrix differs from the single-process one")
        for line in failures:
            print("  " + line)
        return 1
    print("C03 holds: all multi-process builds bit-identical to the single-process build")
    return 0


if __name__ == "__main__":
    sys.exit(main())
