"""
C03: rebuilding the slope covariance matrix on the same object, single-process or multi-process and in any order,
must return the same matrix every time (no state carried over between builds), and that matrix must be the one a
freshly constructed single-process object gives.

Runs several sequences of rebuilds with the thread count toggled on one object.  Exits 0 if every build of every
sequence is bit-identical to the reference, 1 otherwise.
"""
import sys
import numpy
import aotools


def system(kind, threads):
    n_wfs = 3
    nx_subaps = 5
    telescope_diameter = 4.
    n_layers = 3
    layer_altitudes = numpy.array([0., 4000., 11000.])
    layer_r0s = [0.3, 0.5, 0.8]
    layer_L0s = [25., 30., 50.]
    pupil_masks = [aotools.circle(nx_subaps / 2., nx_subaps) for _ in range(n_wfs)]
    subap_diameters = [telescope_diameter / nx_subaps] * n_wfs
    gs_altitudes = {"lgs": [90000.] * n_wfs, "ngs": [0] * n_wfs, "mixed": [0, 90000., 0]}[kind]
    gs_positions = [[0., 0.], [15., -4.], [-7., 11.]]
    wfs_wavelengths = [500e-9, 589e-9, 650e-9]
    return aotools.CovarianceMatrix(
        n_wfs, pupil_masks, telescope_diameter, subap_diameters, gs_altitudes, gs_positions, wfs_wavelengths,
        n_layers, layer_altitudes, layer_r0s, layer_L0s, threads)


SEQUENCES = [
    (1, 1, 1),
    (2, 1, 1),
    (2, 1, 2),
    (1, 2, 1),
    (2, 2, 2),
    (1, 3, 2, 1, 4),
    (3, 1, 2, 2, 1),
]


def main():
    failures = []
    for kind in ("lgs", "ngs", "mixed"):
        reference = system(kind, 1).make_covariance_matrix().copy()
        for sequence in SEQUENCES:
            cov = system(kind, sequence[0])
            for step, threads in enumerate(sequence):
                cov.threads = threads
                got = cov.make_covariance_matrix()
                same = (got.shape == reference.shape and got.dtype == reference.dtype
                        and numpy.array_equal(got, reference))
                if not same:
                    with numpy.errstate(all="ignore"):
                        ratio = float(numpy.nanmedian(got.astype("float64") / reference)) \
                            if got.shape == reference.shape else float("nan")
                    failures.append(
                        "{} system, thread counts {}: build #{} (threads={}) differs from the reference "
                        "(median ratio to reference {:.3g})".format(kind, sequence, step + 1, threads, ratio))
    if failures:
        print("C03 VIOLATED: a rebuild on the same object did not give the same matrix again")
        for line in failures:
            print("  " + line)
        return 1
    print("C03 holds: every rebuild, in every order of thread counts, bit-identical to the reference")
    return 0


if __name__ == "__main__":
    sys.exit(main())
