"""
C19 demo B: the temporal power spectrum of slope data is |FFT along the frame axis|^2 averaged over ALL
sub-apertures (each sub-aperture counted once), for any number of sub-apertures and any leading shape.
Checked through the definition, Parseval's identity, and the closed form for pure sinusoids.
"""
import sys
import numpy
from aotools import turbulence

failures = []


def check(name, got, want, rtol=1e-9, atol=0.0):
    got = numpy.asarray(got, dtype=float)
    want = numpy.asarray(want, dtype=float)
    if got.shape != want.shape:
        failures.append("%s: shape %s, expected %s" % (name, got.shape, want.shape))
        return
    scale = numpy.max(numpy.abs(want)) if want.size else 1.0
    if not numpy.allclose(got, want, rtol=rtol, atol=atol + 1e-12 * scale):
        k = numpy.unravel_index(numpy.argmax(numpy.abs(got - want)), got.shape)
        failures.append("%s: got %.10g, expected %.10g at index %s (max rel diff %.3g)"
                        % (name, got[k], want[k], k, numpy.max(numpy.abs(got - want)) / scale))


def definition(slopes):
    n = slopes.shape[-2]
    return (numpy.abs(numpy.fft.fft(slopes, axis=-2)) ** 2)[..., :n // 2, :].mean(-1)


rng = numpy.random.default_rng(5150)

# sub-aperture counts: a small WFS, 16x16-ish, exactly 2x256, a 20x20 and a 40x40 Shack-Hartmann (x and y slopes)
for lead, n_frames, n_subaps in [((), 64, 104), ((), 64, 256), ((), 64, 512), ((), 64, 300),
                                 ((), 50, 2 * 316), ((2,), 32, 2 * 1240), ((2, 3), 16, 257)]:
    tag = "shape %s" % (lead + (n_frames, n_subaps),)
    # sub-apertures do not all see the same signal level: the rms grows across the pupil
    gain = numpy.linspace(0.5, 4.0, n_subaps)
    slopes = rng.standard_normal(lead + (n_frames, n_subaps)) * gain

    tps, err = turbulence.calc_slope_temporalps(slopes)

    # (a) definition: squared modulus of the FFT along the frame axis, averaged over sub-apertures
    check(tag + " definition", tps, definition(slopes))

    # (b) Parseval: the two-sided sum of the sub-aperture-averaged spectrum equals n_frames * mean energy.
    #     The returned half holds bins 0 .. n/2-1; the bins above are their mirror images, and the Nyquist
    #     bin (even n) is sum_t (-1)^t x_t, added here from the data.
    n = n_frames
    two_sided = tps[..., 0] + 2.0 * tps[..., 1:].sum(-1)
    if n % 2 == 0:
        sign = (-1.0) ** numpy.arange(n)
        nyq = (numpy.tensordot(sign, slopes, axes=([0], [slopes.ndim - 2])) ** 2).mean(-1)
        two_sided = two_sided + nyq
    else:
        # odd n: bin (n-1)/2 is not in the returned half either; take it from the data
        k = (n - 1) // 2
        w = numpy.exp(-2j * numpy.pi * k * numpy.arange(n) / n)
        extra = (numpy.abs(numpy.tensordot(w, slopes, axes=([0], [slopes.ndim - 2]))) ** 2).mean(-1)
        two_sided = two_sided + 2.0 * extra
    energy = n * (slopes ** 2).sum(-2).mean(-1)
    check(tag + " Parseval", two_sided, energy)

    # (c) quadratic in amplitude
    tps3, _ = turbulence.calc_slope_temporalps(3.0 * slopes)
    check(tag + " quadratic in amplitude", tps3, 9.0 * tps)

# (d) pure sinusoid at bin k0 whose amplitude differs between sub-apertures: the spectrum peaks at k0 with
#     value mean_i (a_i * n/2)^2 and is ~0 elsewhere
n_frames, n_subaps, k0 = 128, 300, 9
amp = numpy.where(numpy.arange(n_subaps) < 256, 1.0, 3.0)
t = numpy.arange(n_frames)
slopes = numpy.sin(2 * numpy.pi * k0 * t / n_frames)[:, None] * amp[None, :]
tps, _ = turbulence.calc_slope_temporalps(slopes)
if int(numpy.argmax(tps)) != k0:
    failures.append("sinusoid: peak at bin %d, expected %d" % (int(numpy.argmax(tps)), k0))
check("sinusoid peak value", tps[k0], numpy.mean((amp * n_frames / 2.0) ** 2))
freq = turbulence.get_tps_time_axis(500.0, n_frames)
check("sinusoid peak frequency", freq[int(numpy.argmax(tps))], k0 * 500.0 / n_frames)

if failures:
    print("C19 VIOLATED (slope temporal power spectrum):")
    for f in failures:
        print("  - " + f)
    sys.exit(1)
print("C19 holds on all checks (slope temporal power spectrum)")
sys.exit(0)
