"""
C19 demo A: the structure-function estimator must return, for each lag j, the mean squared difference of the
phase with itself shifted by j*step along the first axis -- over ALL row pairs that far apart -- for every step.
"""
import sys
import numpy
import aotools


def definition(phase, n_lags, step):
    out = numpy.zeros(n_lags)
    for j in range(1, n_lags):
        s = j * step
        out[j] = numpy.mean((phase[:-s, :] - phase[s:, :]) ** 2)
    return out


failures = []


def check(name, got, want, rtol=1e-10, atol=1e-12):
    got = numpy.asarray(got, dtype=float)
    want = numpy.asarray(want, dtype=float)
    if got.shape != want.shape or not numpy.allclose(got, want, rtol=rtol, atol=atol):
        worst = numpy.max(numpy.abs(got - want)) if got.shape == want.shape else float("nan")
        failures.append("%s: estimator differs from its definition (max abs diff %.6g)\n    got  %s\n    want %s"
                        % (name, worst, got[:6], want[:6]))


rng = numpy.random.default_rng(20240919)

# 1. closed form: a ramp of slope a along the first axis gives a^2 (j*step)^2, for any step
a = 0.37
rows = numpy.arange(64, dtype=float)
ramp = a * rows[:, None] * numpy.ones((1, 64))
for step in (1, 2, 3, 4):
    sf = aotools.calculate_structure_function(ramp, nbOfPoint=8, step=step)
    check("ramp, step=%d" % step, sf, (a * numpy.arange(len(sf)) * step) ** 2)
    if sf[0] != 0:
        failures.append("ramp, step=%d: lag 0 is %r, not 0" % (step, sf[0]))

# 2. the definition on arbitrary phase, steps 1..4
phase = rng.standard_normal((64, 64)).cumsum(axis=0)
for step in (1, 2, 3, 4):
    sf = aotools.calculate_structure_function(phase, nbOfPoint=8, step=step)
    check("random-walk phase, step=%d" % step, sf, definition(phase, len(sf), step))

# 3. a second closed form: phase = sin(pi*row/2) (period 4 rows).
#    D(2) = mean (sin(pi r/2) - sin(pi (r+2)/2))^2 = mean (2 sin(pi r/2))^2 = 2 over a whole number of periods.
r = numpy.arange(66)          # 66 - 2 = 64 pairs at lag 2, a whole number of periods
wave = numpy.sin(numpy.pi * r / 2.0)[:, None] * numpy.ones((1, 66))
sf = aotools.calculate_structure_function(wave, nbOfPoint=3, step=2)
check("period-4 wave, step=2", sf[:2], [0.0, 2.0], atol=1e-9)

# 4. quadratic in amplitude with step > 1 and agreement between (step=2, lag j) and (step=1, lag 2j)
sf1 = aotools.calculate_structure_function(phase, nbOfPoint=17, step=1)
sf2 = aotools.calculate_structure_function(phase, nbOfPoint=8, step=2)
check("step=2 lag j vs step=1 lag 2j", sf2, sf1[0:2 * len(sf2):2])
sf2k = aotools.calculate_structure_function(3.0 * phase, nbOfPoint=8, step=2)
check("quadratic in amplitude, step=2", sf2k, 9.0 * sf2)

if failures:
    print("C19 VIOLATED (structure-function estimator):")
    for f in failures:
        print("  - " + f)
    sys.exit(1)
print("C19 holds on all checks (structure-function estimator)")
sys.exit(0)
