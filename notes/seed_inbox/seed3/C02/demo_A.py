"""C02 demo A: a science sensor that duplicates one guide-star sensor must be reconstructed from that sensor alone.

WFS 0 is the on-axis (target) sensor.  One of the two off-axis sensors looks in exactly the same direction with the
same mask, sub-aperture size, guide-star altitude and wavelength; the remaining off-axis sensor looks elsewhere and
works at another wavelength (a visible + infra-red system).  Whatever the order in which the off-axis sensors are
listed, the minimum-variance reconstructor must be [identity on the duplicate, zero on the other sensor] and must
satisfy the normal equations R C_off,off = C_on,off.
"""
import sys
import numpy
import aotools
from aotools.turbulence import slopecovariance

VIS, IR = 550e-9, 1650e-9


def build(order, threads=1):
    """order: tuple of the two off-axis sensors, 'dup' = duplicate of the target, 'other' = the infra-red one"""
    nx = 4
    mask = aotools.circle(nx / 2., nx)
    tel_diam = 4.
    target = dict(pos=[5., -3.], wvl=VIS)
    sensors = {"dup": dict(pos=[5., -3.], wvl=VIS), "other": dict(pos=[-12., 9.], wvl=IR)}
    wfss = [target] + [sensors[k] for k in order]
    n_wfs = len(wfss)
    layer_altitudes = numpy.array([0., 6000., 12000.])
    cm = slopecovariance.CovarianceMatrix(
        n_wfs, [mask] * n_wfs, tel_diam, [tel_diam / nx] * n_wfs, [0] * n_wfs,
        [w["pos"] for w in wfss], [w["wvl"] for w in wfss],
        len(layer_altitudes), layer_altitudes, [0.2, 0.4, 0.6], [25., 25., 25.], threads)
    cov = cm.make_covariance_matrix()
    return cm, cov, int(mask.sum())


def check(order):
    cm, cov, n_sub = build(order)
    bad = []
    n_on = 2 * n_sub
    if not numpy.array_equal(cov, cov.T):
        bad.append("covariance matrix not symmetric")
    recon = cm.make_tomographic_reconstructor(svd_conditioning=0)
    c_on_off = cov[:n_on, n_on:].astype("float64")
    c_off_off = cov[n_on:, n_on:].astype("float64")

    expected = numpy.zeros((n_on, 2 * n_on))
    k = order.index("dup")
    expected[:, k * n_on:(k + 1) * n_on] = numpy.identity(n_on)
    err = numpy.abs(recon - expected).max()
    if not err < 1e-3:
        bad.append("R is not [identity on the duplicate sensor, zero elsewhere]: max deviation %.3g" % err)

    # the duplicate's own slopes must come back unchanged, those of the other sensor must not leak in
    rng = numpy.random.RandomState(3)
    s_dup, s_other = rng.standard_normal(n_on), rng.standard_normal(n_on)
    s_off = numpy.concatenate([s_dup, s_other] if k == 0 else [s_other, s_dup])
    leak = numpy.abs(recon.dot(s_off) - s_dup).max()
    if not leak < 1e-2:
        bad.append("reconstructed slopes differ from the duplicate sensor's slopes by %.3g" % leak)

    # expected squared residual of R against that of the trivial estimator 'copy the duplicate'
    c_on_on = cov[:n_on, :n_on].astype("float64")
    def resid(r):
        return numpy.trace(c_on_on - r.dot(c_on_off.T) - c_on_off.dot(r.T) + r.dot(c_off_off).dot(r.T))
    scale = numpy.trace(c_on_on)
    if resid(recon.astype("float64")) > resid(expected) + 1e-3 * scale:
        bad.append("expected squared residual %.3g (relative) exceeds that of copying the duplicate sensor (%.3g)"
                   % (resid(recon.astype("float64")) / scale, resid(expected) / scale))
    return bad


def main():
    failures = []
    for order in [("dup", "other"), ("other", "dup")]:
        for msg in check(order):
            failures.append("off-axis order %s: %s" % (order, msg))
    for f in failures:
        print("FAIL:", f)
    if failures:
        return 1
    print("OK: duplicate sensor reproduced, no weight on the other sensor, for both orderings")
    return 0


if __name__ == "__main__":
    sys.exit(main())
