"""C02 demo B: the reconstructor of a PSD covariance matrix satisfies the normal equations for every conditioning.

A random, well conditioned, symmetric positive definite slope covariance matrix (double precision, as a user
would load it from a file or build from recorded slopes) is partitioned into an on-axis sensor and two off-axis
sensors, and the reconstructor is requested for a scan of SVD conditioning values, the way one tunes the
conditioning in practice.  For every value R must satisfy  R C_off,off P = C_on,off P  on the retained singular
subspace (P = projector on the singular vectors of C_off,off whose singular value exceeds conditioning * largest),
and for zero conditioning  R C_off,off = C_on,off  to rounding, so that no other linear map has a smaller
E|s_on - R s_off|^2.
"""
import sys
import numpy
from aotools.turbulence import slopecovariance


def make_psd(n, rng, scale):
    a = rng.standard_normal((n, 3 * n))
    return scale * a.dot(a.T) / (3 * n)


def expected_residual(c, n_on, r):
    c_on_on, c_on_off, c_off_off = c[:n_on, :n_on], c[:n_on, n_on:], c[n_on:, n_on:]
    return numpy.trace(c_on_on - r.dot(c_on_off.T) - c_on_off.dot(r.T) + r.dot(c_off_off).dot(r.T))


def main():
    rng = numpy.random.RandomState(11)
    failures = []
    for n_onaxis_subaps, n_off, scale in [(3, 8, 1.0), (5, 7, 3e-13), (2, 12, 40.)]:
        n_on = 2 * n_onaxis_subaps
        n = n_on + 2 * n_off
        reference = make_psd(n, rng, scale)          # what the slopes' covariance really is
        reference.setflags(write=False)
        cov = reference.copy()                       # the array handed to the library, again and again
        c_on_off, c_off_off = reference[:n_on, n_on:], reference[n_on:, n_on:]
        u, s, vt = numpy.linalg.svd(c_off_off)

        for cond in [0, 0, 1e-3, 0.05, 0.2, 0]:
            recon = slopecovariance.create_tomographic_covariance_reconstructor(cov, n_onaxis_subaps, cond)
            keep = s > cond * s.max()
            proj = (u[:, keep]).dot(u[:, keep].T)
            lhs = recon.dot(c_off_off).dot(proj)
            rhs = c_on_off.dot(proj)
            err = numpy.abs(lhs - rhs).max() / numpy.abs(c_on_off).max()
            if not err < 1e-9:
                failures.append("matrix %dx%d (scale %g), conditioning %g: normal equations violated on the retained "
                                "subspace, relative error %.3g" % (n, n, scale, cond, err))
                continue
            if cond == 0:
                # minimum variance: perturbing R in any direction cannot lower the expected squared residual
                base = expected_residual(reference, n_on, recon)
                for _ in range(5):
                    other = recon + 1e-3 * numpy.abs(recon).max() * rng.standard_normal(recon.shape)
                    if expected_residual(reference, n_on, other) < base * (1 - 1e-12):
                        failures.append("matrix %dx%d: a perturbed map beats R" % (n, n))
                        break
    for f in failures:
        print("FAIL:", f)
    if failures:
        return 1
    print("OK: normal equations hold on the retained subspace for every conditioning of the scan")
    return 0


if __name__ == "__main__":
    sys.exit(main())
