"""C12 demo A: the gamma matrices must reproduce the x- and y-gradients of every
Zernike mode as a combination of lower-order modes, for every radial order.

The reference Zernike modes are written here from the definition (Noll 1976):
Noll index -> (n, m), radial polynomial, sqrt(n+1) / sqrt(2(n+1)) normalisation,
even j cosine, odd j sine.  Gradients are central differences at scattered points
strictly inside the unit disc.
"""
import sys
from math import factorial

import numpy

from aotools.functions import zernike as zk


def noll_to_nm(j):
    n = 0
    while (n + 1) * (n + 2) // 2 < j:
        n += 1
    p = j - n * (n + 1) // 2          # 1 .. n+1 inside the row
    k = n % 2
    m = ((p + k) // 2) * 2 - k
    return n, m


def radial(n, m, r):
    out = numpy.zeros_like(r)
    for s in range((n - m) // 2 + 1):
        c = ((-1) ** s * factorial(n - s)
             / (factorial(s) * factorial((n + m) // 2 - s) * factorial((n - m) // 2 - s)))
        out = out + c * r ** (n - 2 * s)
    return out


def mode(j, x, y):
    n, m = noll_to_nm(j)
    r = numpy.hypot(x, y)
    t = numpy.arctan2(y, x)
    if m == 0:
        return numpy.sqrt(n + 1.) * radial(n, 0, r)
    if j % 2 == 0:
        return numpy.sqrt(2. * (n + 1)) * radial(n, m, r) * numpy.cos(m * t)
    return numpy.sqrt(2. * (n + 1)) * radial(n, m, r) * numpy.sin(m * t)


def main():
    rng = numpy.random.RandomState(12)
    rr = 0.9 * numpy.sqrt(rng.uniform(0.01, 1, 400))
    tt = rng.uniform(0, 2 * numpy.pi, 400)
    x, y = rr * numpy.cos(tt), rr * numpy.sin(tt)
    h = 1e-5
    bad = []
    for nzrad in range(1, 9):
        gam = zk.makegammas(nzrad)
        nz = (nzrad + 1) * (nzrad + 2) // 2
        if gam.shape != (2, nz, nz):
            print("makegammas(%d): shape %r, expected %r" % (nzrad, gam.shape, (2, nz, nz)))
            return 1
        Z = numpy.array([mode(j, x, y) for j in range(1, nz + 1)])
        for i in range(nz):
            dx = (mode(i + 1, x + h, y) - mode(i + 1, x - h, y)) / (2 * h)
            dy = (mode(i + 1, x, y + h) - mode(i + 1, x, y - h)) / (2 * h)
            ex = numpy.abs(gam[0, i].astype(float).dot(Z) - dx).max()
            ey = numpy.abs(gam[1, i].astype(float).dot(Z) - dy).max()
            scale = max(1.0, numpy.abs(dx).max(), numpy.abs(dy).max())
            if ex > 1e-4 * scale or ey > 1e-4 * scale:
                bad.append((nzrad, i + 1, noll_to_nm(i + 1), ex, ey))
    if bad:
        print("gamma matrices do NOT reproduce the mode gradients:")
        for nzrad, j, nm, ex, ey in bad[:12]:
            print("  makegammas(%d): Noll j=%d (n,|m|)=%r  max|gamx.Z - dZ/dx|=%.3g  max|gamy.Z - dZ/dy|=%.3g"
                  % (nzrad, j, nm, ex, ey))
        print("  ... %d failing (nzrad, mode) pairs in total; lowest radial order affected: n=%d"
              % (len(bad), min(b[2][0] for b in bad)))
        return 1
    print("ok: gamma matrices reproduce d/dx and d/dy of every mode for radial orders 1..8")
    return 0


if __name__ == "__main__":
    sys.exit(main())
