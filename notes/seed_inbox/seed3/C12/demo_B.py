"""C12 demo B: generated Zernike modes are the right functions on the grid, for odd
and even grid sizes alike.

For every N the pixel centres sit at ((i + 0.5) - N/2) / (N/2) in units of the pupil
radius, the pupil is the inscribed disc r <= 1, and inside it mode j is
norm * R_n^|m|(r) * {cos, sin}(|m| theta); outside it the mode is zero.  Consequences
checked as well: piston is orthogonal to tip and tilt (exactly, by symmetry), and the
support of every mode is the inscribed disc.
"""
import sys
from math import factorial

import numpy

from aotools.functions import zernike as zk


def noll_to_nm(j):
    n = 0
    while (n + 1) * (n + 2) // 2 < j:
        n += 1
    p = j - n * (n + 1) // 2
    k = n % 2
    m = ((p + k) // 2) * 2 - k
    return n, m


def radial(n, m, r):
    out = numpy.zeros_like(r)
    for s in range((n - m) // 2 + 1):
        c = ((-1) ** s * factorial(n - s)
             / (factorial(s) * factorial((n + m) // 2 - s) * factorial((n - m) // 2 - s)))
        out = out + c * r ** (n - 2 * s)
    return out


def reference(j, N):
    c = ((numpy.arange(N) + 0.5) - N / 2.) / (N / 2.)
    x, y = numpy.meshgrid(c, c)
    r = numpy.hypot(x, y)
    t = numpy.arctan2(y, x)
    n, m = noll_to_nm(j)
    if m == 0:
        z = numpy.sqrt(n + 1.) * radial(n, 0, r)
    elif j % 2 == 0:
        z = numpy.sqrt(2. * (n + 1)) * radial(n, m, r) * numpy.cos(m * t)
    else:
        z = numpy.sqrt(2. * (n + 1)) * radial(n, m, r) * numpy.sin(m * t)
    inside = r <= 1.0
    return numpy.where(inside, z, 0.0), inside


def main():
    bad = []
    for N in (8, 9, 16, 17, 31, 32, 33, 64, 65):
        Zs = zk.zernikeArray(15, N)
        _, inside = reference(1, N)
        for j in range(1, 16):
            ref, _ = reference(j, N)
            err = numpy.abs(Zs[j - 1] - ref).max()
            if err > 1e-9:
                bad.append("N=%d j=%d: max |mode - reference| = %.3g" % (N, j, err))
            if numpy.any(Zs[j - 1][~inside] != 0):
                bad.append("N=%d j=%d: non-zero outside the inscribed pupil" % (N, j))
        npix = inside.sum()
        if not numpy.array_equal(Zs[0] != 0, inside):
            bad.append("N=%d: support of piston is not the inscribed disc" % N)
        for j in (2, 3):
            g = (Zs[0] * Zs[j - 1]).sum() / npix
            if abs(g) > 1e-12:
                bad.append("N=%d: <Z1, Z%d> over the pupil = %.3g (must vanish by symmetry)" % (N, j, g))
    if bad:
        print("Zernike modes are wrong on some grids:")
        for b in bad[:14]:
            print("  " + b)
        print("  ... %d failures in total" % len(bad))
        return 1
    print("ok: modes 1..15 match the analytic Zernike polynomials on odd and even grids")
    return 0


if __name__ == "__main__":
    sys.exit(main())
