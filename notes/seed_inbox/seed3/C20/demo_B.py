"""
C20 -- functions that accept stacks / leading batch axes return, per item, what
the single-item call returns (and leave their argument untouched).

All transforms of aotools.fouriertransform work along the trailing axis/axes, so
a stack of signals can be handed over in one call.  Every item of the stacked
result is compared with the result of transforming that item on its own, for a
range of batch shapes (1, 2, 3, 4, 5 and 7 items, and two leading axes).
"""
import sys
import numpy
from aotools import fouriertransform as ftm

rng = numpy.random.default_rng(20)
failures = []

ONE_D = [("ft", 16, False), ("ift", 16, True), ("rft", 16, False), ("irft", 9, True)]
TWO_D = [("ft2", (8, 8), False), ("ift2", (8, 8), True), ("rft2", (8, 8), False), ("irft2", (8, 5), True)]
BATCHES = [(1,), (2,), (3,), (4,), (5,), (7,), (2, 3), (3, 2)]


def make(shape, cplx):
    a = rng.normal(size=shape)
    if cplx:
        a = a + 1j * rng.normal(size=shape)
    return a


def close(a, b):
    a = numpy.asarray(a)
    b = numpy.asarray(b)
    if a.shape != b.shape:
        return False
    scale = max(1.0, float(abs(b).max()))
    return bool(abs(a - b).max() <= 1e-12 * scale)


for name, item_shape, cplx in ONE_D + TWO_D:
    fn = getattr(ftm, name)
    if not isinstance(item_shape, tuple):
        item_shape = (item_shape,)
    for batch in BATCHES:
        data = make(batch + item_shape, cplx)
        keep = data.copy()
        stacked = fn(data, 0.25)
        if not (numpy.array_equal(data, keep) and data.shape == keep.shape and data.dtype == keep.dtype):
            failures.append("%s: argument of shape %s was modified" % (name, data.shape))
        bad = []
        for idx in numpy.ndindex(*batch):
            single = fn(data[idx].copy(), 0.25)
            if not close(stacked[idx], single):
                bad.append(idx)
        if bad:
            failures.append(
                "%s on a stack of shape %s: items %s differ from the single-item call "
                "(e.g. item %s: max |stacked - single| = %.3g)"
                % (name, data.shape, bad, bad[0],
                   float(abs(stacked[bad[0]] - fn(data[bad[0]].copy(), 0.25)).max())))

if failures:
    print("C20 VIOLATED: stacked call differs from the per-item calls")
    for f in failures:
        print("  -", f)
    sys.exit(1)

print("C20 holds: every stacked transform equals the per-item transforms")
sys.exit(0)
