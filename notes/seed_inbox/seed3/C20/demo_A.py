"""
C20 -- no hidden state: calling a function twice with equal arguments, in any
order relative to other calls, returns equal results.

The seeded phase-screen generators are documented as deterministic ("seed (int,
optional): ... If provided, allows for deterministic screens").  Every integer
seed is checked, including the smallest one, with other library calls
interleaved between the two evaluations.
"""
import sys
import numpy
from aotools.turbulence import phasescreen
from aotools import circle

failures = []


def same(a, b):
    return a.shape == b.shape and a.dtype == b.dtype and numpy.array_equal(a, b)


ARGS = (0.16, 32, 0.05, 25., 0.01)

for name in ("ft_phase_screen", "ft_sh_phase_screen"):
    fn = getattr(phasescreen, name)
    for seed in (0, 1, 2, 7, 12345, numpy.int64(0), numpy.int64(3)):
        first = fn(*ARGS, seed=seed)
        # unrelated calls in between (some of them draw random numbers themselves)
        phasescreen.ft_phase_screen(0.1, 16, 0.1, 10., 0.01, seed=99)
        phasescreen.ft_phase_screen(0.1, 16, 0.1, 10., 0.01)
        circle(5, 16)
        second = fn(*ARGS, seed=seed)
        if not same(first, second):
            failures.append(
                "%s(r0=%g, N=%d, delta=%g, L0=%g, l0=%g, seed=%r): two calls with equal "
                "arguments returned different screens (max |diff| = %.3g)"
                % ((name,) + ARGS + (seed, float(abs(first - second).max()))))

if failures:
    print("C20 VIOLATED: equal arguments, different results")
    for f in failures:
        print("  -", f)
    sys.exit(1)

print("C20 holds: seeded phase screens are reproducible for every seed tried")
sys.exit(0)
