"""C13 demo A: for EVERY mode count the Karhunen-Loeve functions on their native polar grid
are orthonormal, piston-free and diagonalise the Kolmogorov covariance, with the returned
variances on the diagonal (positive, non-increasing, tip and tilt first and equal).

The mode count is scanned one by one (a basis may end anywhere in the list, also in the
middle of a cosine/sine pair)."""
import contextlib
import io
import sys
import warnings

import numpy as np

warnings.simplefilter("ignore")
from aotools.functions import karhunenLoeve as KL  # noqa: E402


def check(ri, nr, nmax):
    with contextlib.redirect_stdout(io.StringIO()):
        kl, var, pupil, base = KL.make_kl(nmax, 16, ri=ri, nr=nr)
    nr, npp = base['nr'], base['np']
    npts = nr * npp
    K = np.array([KL.gkl_sfi(base, i).ravel() for i in range(nmax)])
    errs = []

    gram = K @ K.T / npts
    e = np.abs(gram - np.eye(nmax)).max()
    if e > 1e-9:
        i, j = np.unravel_index(np.abs(gram - np.eye(nmax)).argmax(), gram.shape)
        errs.append("not orthonormal: <K%d K%d> = %.6g (|G - I| max %.3g)" % (i, j, gram[i, j], e))
    m = np.abs(K.mean(axis=1)).max()
    if m > 1e-9:
        errs.append("not piston-free: |mean| max %.3g" % m)

    # Kolmogorov covariance on the native grid (radii of the base, uniform azimuth)
    r = np.repeat(base['radp'], npp)
    th = np.tile(np.arange(npp) * 2 * np.pi / npp, nr)
    x, y = r * np.cos(th), r * np.sin(th)
    sep = np.hypot(x[:, None] - x[None, :], y[:, None] - y[None, :])
    D = 6.8839 * (0.5 * sep) ** (5. / 3)          # separations in units of the diameter
    C = -0.5 * K @ D @ K.T / npts ** 2
    var = np.asarray(var)
    e = np.abs(C - np.diag(var)).max() / var[0]
    if e > 1e-3:
        i, j = np.unravel_index(np.abs(C - np.diag(var)).argmax(), C.shape)
        errs.append("covariance not diag(variances): C[%d,%d] = %.6g, variance[%d] = %.6g"
                    % (i, j, C[i, j], i, var[i]))
    if not np.all(var > 0):
        errs.append("variances not all positive")
    if np.any(np.diff(var) > 0):
        errs.append("variances not non-increasing")
    if nmax >= 2 and var[0] != var[1]:
        errs.append("tip and tilt variances differ")
    return errs


def main():
    bad = 0
    for ri, nr, top in [(0.3, 8, 22), (0.6, 7, 16)]:
        for nmax in range(1, top + 1):
            errs = check(ri, nr, nmax)
            for e in errs:
                print("ri=%.2f nr=%d nmax=%d: %s" % (ri, nr, nmax, e))
            bad += bool(errs)
    if bad:
        print("FAIL: property C13 violated for %d (ri, nr, nmax) combinations" % bad)
        return 1
    print("OK")
    return 0


if __name__ == '__main__':
    sys.exit(main())
