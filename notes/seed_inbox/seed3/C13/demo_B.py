"""C13 demo B: the Karhunen-Loeve functions, taken on the native polar grid that the basis
reports (radii 'radp' of the returned polar base, uniform azimuth), diagonalise the
Kolmogorov covariance with the returned variances, and the Cartesian rendering follows the
polar function at each pixel's (r, theta).  The same must hold when a basis is assembled
step by step from the public pieces, also for the second basis built from one set of radii."""
import contextlib
import io
import sys
import warnings

import numpy as np

warnings.simplefilter("ignore")
from aotools.functions import karhunenLoeve as KL  # noqa: E402


def covariance_defect(K, radii, npp, var):
    """max |(-1/2 <K_i D K_j>) - diag(var)| / var[0] on the grid radii x uniform azimuth"""
    nr = len(radii)
    npts = nr * npp
    r = np.repeat(radii, npp)
    th = np.tile(np.arange(npp) * 2 * np.pi / npp, nr)
    x, y = r * np.cos(th), r * np.sin(th)
    sep = np.hypot(x[:, None] - x[None, :], y[:, None] - y[None, :])
    D = 6.8839 * (0.5 * sep) ** (5. / 3)        # separation in units of the diameter
    C = -0.5 * K @ D @ K.T / npts ** 2
    return np.abs(C - np.diag(var)).max() / var[0], C


def main():
    fails = []
    ri, nr, nmax, dim = 0.35, 9, 12, 41

    # ---- 1. make_kl: functions on the grid the returned base describes
    with contextlib.redirect_stdout(io.StringIO()):
        kl, var, pupil, base = KL.make_kl(nmax, dim, ri=ri, nr=nr)
    npp = base['np']
    radp = np.array(base['radp'], dtype=float)
    K = np.array([KL.gkl_sfi(base, i).ravel() for i in range(nmax)])
    if not (radp.min() >= ri - 1e-12 and radp.max() <= 1 + 1e-12):
        fails.append("native grid radii of the base are not inside the annulus [%.2f, 1]: "
                     "min %.4f max %.4f" % (ri, radp.min(), radp.max()))
    e, C = covariance_defect(K, radp, npp, np.asarray(var))
    if e > 1e-3:
        fails.append("make_kl: -1/2 <K_i D K_j> on the base's native grid is not diag(variances): "
                     "C[0,0] = %.6g, variance[0] = %.6g (rel. defect %.3g)" % (C[0, 0], var[0], e))

    # Cartesian rendering against the polar function at each pixel's (r, theta)
    c = (np.arange(dim) - 0.5 * (dim - 1)) / (0.5 * dim)
    X, Y = np.meshgrid(c, c)
    R = np.hypot(X, Y)
    T = np.arctan2(Y, X) % (2 * np.pi)
    inner = (R > radp[0]) & (R < radp[-1])
    worst = 0.0
    for i in range(nmax):
        F = KL.gkl_sfi(base, i)
        # radial interpolation (in r^2, where the grid is uniform), exact azimuthal function
        o = base['ord'][i]
        m = (o + 1) // 2
        az = np.ones_like(T) if o == 0 else (np.cos(m * T) if o % 2 else np.sin(m * T))
        rad_prof = base['rabas'][:, i]
        val = np.interp(R[inner] ** 2, radp ** 2, rad_prof) * az[inner]
        worst = max(worst, np.abs(kl[i][inner] - val).max() / np.abs(F).max())
    if worst > 0.1:
        fails.append("make_kl: Cartesian modes do not follow the polar functions placed at the "
                     "base's radii: max deviation %.3g of the mode amplitude" % worst)

    # ---- 2. step by step, two bases from one set of radii
    nth = 5 * nr
    rad = KL.gkl_radii(ri, nr)
    for k in (1, 2):
        kern = KL.gkl_kernel(ri, nr, rad, 'kolmogorov')
        evals, nord, npo, oord, rabas = KL.gkl_fcom(ri, kern, nmax)
        b = {'nr': nr, 'np': nth, 'nfunc': nmax, 'ri': ri, 'ord': oord, 'rabas': rabas,
             'azbas': KL.gkl_azimuthal(nord, nth)}
        Kk = np.array([KL.gkl_sfi(b, i).ravel() for i in range(nmax)])
        e, C = covariance_defect(Kk, KL.gkl_radii(ri, nr), nth, evals)
        if e > 1e-9:
            fails.append("step-by-step basis #%d from the same radii: covariance is not "
                         "diag(variances): C[0,0] = %.6g, variance[0] = %.6g (rel. defect %.3g)"
                         % (k, C[0, 0], evals[0], e))

    for f in fails:
        print(f)
    if fails:
        print("FAIL: property C13 violated")
        return 1
    print("OK")
    return 0


if __name__ == '__main__':
    sys.exit(main())
