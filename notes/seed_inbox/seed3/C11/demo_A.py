"""
C11 demo A: the angular-spectrum propagator is a one-parameter group and
reproduces the analytic Gaussian beam for EVERY input field -- in particular for
fields that are stored in single precision (complex64 / float32 arrays, the usual
storage of AO simulations).  The numbers held by such an array are exactly
representable as doubles, so the propagated field must be the same, to double
rounding, as for the very same values stored in a complex128 array, and the
group laws must hold to double rounding as well.

exit 0: property holds;  exit 1: property violated.
"""
import sys
import numpy as np
from aotools import opticalpropagation as op

TOL = 1e-10          # fields are O(1); double rounding gives ~1e-15
fails = []


def check(name, err, tol=TOL):
    ok = np.isfinite(err) and err <= tol
    print("%-72s err = %.3e  %s" % (name, err, "ok" if ok else "VIOLATION"))
    if not ok:
        fails.append(name)


N = 256
wvl = 1e-6
d = 2e-4
n = np.arange(N) - N // 2
x, y = np.meshgrid(n * d, n * d)
k = 2 * np.pi / wvl

# a Gaussian beam 3 m after its waist, with some smooth aberration on top
w0 = 2.5e-3
zR = np.pi * w0 ** 2 / wvl


def gauss(x, y, z):
    w = w0 * np.sqrt(1 + (z / zR) ** 2)
    R = z * (1 + (zR / z) ** 2)
    return (w0 / w) * np.exp(-(x ** 2 + y ** 2) / w ** 2) * np.exp(
        1j * (k * (x ** 2 + y ** 2) / (2 * R) - np.arctan(z / zR)))


aberr = 0.7 * np.sin(2 * np.pi * x / 7e-3) * np.cos(2 * np.pi * y / 5e-3) + 40. * x * y / (N * d) ** 2
fields = {
    "aberrated beam": gauss(x, y, 3.0) * np.exp(1j * aberr),
    "plain beam": gauss(x, y, 3.0),
}

rng = np.random.RandomState(11)
for label, F in fields.items():
    for ctype in (np.complex128, np.complex64):
        E = F.astype(ctype)                 # the stored field
        Eref = E.astype(np.complex128)      # exactly the same values
        tag = "%s [%s]" % (label, np.dtype(ctype).name)

        # distance 0 returns the input
        check(tag + ": z = 0 is the identity",
              abs(op.angularSpectrum(E, wvl, d, d, 0.) - Eref).max())

        # -z undoes +z
        z = 16.0
        fwd = op.angularSpectrum(E, wvl, d, d, z)
        back = op.angularSpectrum(fwd, wvl, d, d, -z)
        check(tag + ": -z undoes +z", abs(back - Eref).max())

        # distances add for any split of z
        cuts = np.sort(rng.uniform(0, z, 2))
        parts = [cuts[0], cuts[1] - cuts[0], z - cuts[1]]
        U = E
        for dz in parts:
            U = op.angularSpectrum(U, wvl, d, d, dz)
        check(tag + ": three steps equal one step of the summed distance",
              abs(U - fwd).max())

        # same values, other container: same propagated field
        check(tag + ": same result as for the identical values in complex128",
              abs(fwd - op.angularSpectrum(Eref, wvl, d, d, z)).max())

        # the propagated field is the analytic Gaussian beam (the values that
        # are actually stored differ from it by the storage rounding only, and
        # propagation is unitary, so that is all the error there may be)
        if label == "plain beam":
            stor = np.sqrt((abs(Eref - F) ** 2).sum())
            check(tag + ": analytic Gaussian beam at z, beyond the storage rounding",
                  max(0., np.sqrt((abs(fwd - gauss(x, y, 3.0 + z)) ** 2).sum()) - stor), 1e-9)

# a beam at its waist is real: float32 storage
Wf = np.exp(-(x ** 2 + y ** 2) / w0 ** 2).astype(np.float32)
Wd = Wf.astype(np.float64)
z = 16.0
fwd = op.angularSpectrum(Wf, wvl, d, d, z)
check("waist [float32]: -z undoes +z",
      abs(op.angularSpectrum(fwd, wvl, d, d, -z) - Wd).max())
check("waist [float32]: same result as for the identical values in float64",
      abs(fwd - op.angularSpectrum(Wd, wvl, d, d, z)).max())

if fails:
    print("\nC11 VIOLATED (%d checks):" % len(fails))
    for f in fails:
        print("  - " + f)
    sys.exit(1)
print("\nC11 holds on all checks")
sys.exit(0)
