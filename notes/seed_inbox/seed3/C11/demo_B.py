"""
C11 demo B: all propagators evaluate the same Fresnel integral and reproduce the
analytic Gaussian beam -- for every input field and whatever was computed before.

One source plane (a Gaussian beam 3 m after its waist, so a genuinely complex
field, held in one complex128 array) is sent to several observation planes, the
way a through-focus scan or a propagator cross-check is written:

  * oneStepFresnel to a list of distances: every plane must show the analytic
    beam (width, curvature, Gouy phase) on the one-step grid wvl*z/(N*d1);
  * oneStepFresnel, twoStepFresnel (asked for the one-step grid) and, at the
    distance where the one-step grid equals the input grid, angularSpectrum:
    same field, same orientation, and equal to the analytic beam.

exit 0: property holds;  exit 1: property violated.
"""
import sys
import numpy as np
from aotools import opticalpropagation as op

TOL = 1e-9
fails = []


def check(name, err, tol=TOL):
    ok = np.isfinite(err) and err <= tol
    print("%-76s err = %.3e  %s" % (name, err, "ok" if ok else "VIOLATION"))
    if not ok:
        fails.append(name)


N = 256
wvl = 1e-6
d1 = 2e-4
n = np.arange(N) - N // 2
k = 2 * np.pi / wvl
w0 = 2.5e-3
zR = np.pi * w0 ** 2 / wvl


def grid(spacing):
    return np.meshgrid(n * spacing, n * spacing)


def gauss(spacing, z):
    """analytic TEM00 beam (waist w0 at z = 0, exp(ikz) dropped) sampled with `spacing`"""
    x, y = grid(spacing)
    r2 = x ** 2 + y ** 2
    w = w0 * np.sqrt(1 + (z / zR) ** 2)
    curv = 0. if z == 0 else 1. / (z * (1 + (zR / z) ** 2))
    return (w0 / w) * np.exp(-r2 / w ** 2) * np.exp(1j * (k * r2 * curv / 2 - np.arctan(z / zR)))


z0 = 3.0

# ---- 1. through-focus scan from one source array ------------------------------
src = gauss(d1, z0)                        # complex128 source plane
for z in (12.0, 16.0, 24.0):
    d2 = wvl * z / (N * d1)
    out = op.oneStepFresnel(src, wvl, d1, z)
    check("scan: oneStepFresnel to z = %4.1f m is the analytic beam" % z,
          abs(out - gauss(d2, z0 + z)).max())

# ---- 2. the propagators agree on matching grids -------------------------------
src = gauss(d1, z0)
z = 20.0
d2 = wvl * z / (N * d1)
one = op.oneStepFresnel(src, wvl, d1, z)
two = op.twoStepFresnel(src, wvl, d1, d2, z)
check("pair: oneStepFresnel is the analytic beam (z = 20 m)", abs(one - gauss(d2, z0 + z)).max())
check("pair: twoStepFresnel is the analytic beam (z = 20 m)", abs(two - gauss(d2, z0 + z)).max())
check("pair: oneStepFresnel == twoStepFresnel on the one-step grid", abs(one - two).max())

src = gauss(d1, z0)
zc = N * d1 ** 2 / wvl                     # here the one-step grid is the input grid
one = op.oneStepFresnel(src, wvl, d1, zc)
ang = op.angularSpectrum(src, wvl, d1, d1, zc)
check("pair: oneStepFresnel is the analytic beam (z = %.2f m)" % zc, abs(one - gauss(d1, z0 + zc)).max())
check("pair: angularSpectrum is the analytic beam (z = %.2f m)" % zc, abs(ang - gauss(d1, z0 + zc)).max())
check("pair: oneStepFresnel == angularSpectrum where the grids coincide", abs(one - ang).max())

# ---- 3. a lens against the pupil: focal plane by the two routes ----------------
f = 25.0
x, y = grid(d1)
pupil = gauss(d1, 0.0).astype(complex)     # beam waist in the pupil (complex container)
behind = pupil * np.exp(-1j * k / (2 * f) * (x ** 2 + y ** 2))   # field just after the lens
foc1 = op.oneStepFresnel(behind, wvl, d1, f)
foc2 = op.oneStepFresnel(behind, wvl, d1, f)
lens = op.lensAgainst(pupil, wvl, d1, f)
check("lens: oneStepFresnel of the field behind the lens == lensAgainst", abs(foc1 - lens).max())
check("lens: the same propagation asked twice gives the same focal field", abs(foc1 - foc2).max())

if fails:
    print("\nC11 VIOLATED (%d checks):" % len(fails))
    for name in fails:
        print("  - " + name)
    sys.exit(1)
print("\nC11 holds on all checks")
sys.exit(0)
