"""C16 demo B: encircled energy measured around the peak pixel of a PSF.

An FFT-made PSF of even size N peaks on pixel N/2, whose centre is at
(N/2 + 0.5, N/2 + 0.5) in the corner-origin coordinates that ``center`` uses.
The encircled-energy curve of a non-negative image must start at 0, never
decrease, never exceed 1, and the reported diameter must sit where the curve
crosses the requested fraction -- around the default centre and around the
peak pixel alike.
"""
import sys
import numpy
from aotools import image_processing

failures = []


def check_curve(tag, img, center, fractions):
    kw = {} if center is None else {"center": center}
    x, y = image_processing.encircled_energy(img, eeDiameter=False, **kw)
    if x[0] != 0 or abs(y[0]) > 1e-12:
        failures.append("%s: curve starts at ee(%g) = %.6g, not 0" % (tag, x[0], y[0]))
    if numpy.any(numpy.diff(y) < -1e-12):
        failures.append("%s: curve decreases" % tag)
    if y.max() > 1 + 1e-12 or y.min() < -1e-12:
        failures.append("%s: curve leaves [0, 1]" % tag)
    for frac in fractions:
        d = image_processing.encircled_energy(img, fraction=frac, **kw)
        if not (y.min() < frac < y.max()):
            continue  # fraction not reached inside the sampled diameters
        # the curve must cross `frac` at the reported diameter: value there is
        # within one sampling step of the requested fraction
        k = int(numpy.argmin(numpy.abs(x - d)))
        lo = y[max(k - 1, 0)]
        hi = y[min(k + 1, len(y) - 1)]
        if not (lo - 1e-12 <= frac <= hi + 1e-12):
            failures.append(
                "%s: fraction %.3g reported at diameter %.4g where the curve is "
                "%.4g (neighbours %.4g .. %.4g)" % (tag, frac, d, y[k], lo, hi))


rng = numpy.random.default_rng(16)
fractions = (0.002, 0.01, 0.05, 0.2, 0.5, 0.8)
for N in (16, 32, 64):
    # diffraction-like PSF of a circular aperture, peak on pixel (N/2, N/2)
    yy, xx = numpy.mgrid[:N, :N] - N // 2
    pupil = (xx ** 2 + yy ** 2 <= (N / 8.) ** 2).astype(float)
    psf = numpy.abs(numpy.fft.fftshift(numpy.fft.fft2(numpy.fft.ifftshift(pupil)))) ** 2
    assert numpy.unravel_index(psf.argmax(), psf.shape) == (N // 2, N // 2)
    peak_centre = (N // 2 + 0.5, N // 2 + 0.5)

    check_curve("psf N=%d default centre" % N, psf, None, fractions)
    check_curve("psf N=%d centre on peak pixel" % N, psf, peak_centre, fractions)

    # any non-negative image
    img = rng.random((N, N)) ** 4
    check_curve("random N=%d default centre" % N, img, None, fractions)
    check_curve("random N=%d centre on a pixel" % N, img, (N // 2 - 1.5, N // 2 + 2.5), fractions)
    check_curve("random N=%d off-pixel centre" % N, img, (N // 2 + 0.3, N // 2 - 0.2), fractions)

if failures:
    print("C16 violated: encircled-energy curve / diameter")
    for line in failures:
        print("  " + line)
    sys.exit(1)
print("ok")
sys.exit(0)
