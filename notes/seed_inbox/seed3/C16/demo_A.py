"""C16 demo A: spline zoom on integer-valued images (detector counts / index maps).

Checks, for both zoom entry points and orders 1, 3, 5:
  * unchanged size returns the input,
  * a target grid k*(N-1)+1 passes through the original samples,
  * polynomials of degree <= order are reproduced exactly on the finer grid.
The arrays are given in the integer dtypes such data usually has.
"""
import sys
import numpy
from aotools import interpolation

TOL = 1e-8
failures = []


def check(name, got, want, scale):
    err = numpy.abs(numpy.asarray(got, dtype=float) - want).max()
    if not err <= TOL * max(1.0, scale):
        failures.append("%s: max error %.6g (scale %.3g)" % (name, err, scale))


rng = numpy.random.default_rng(16)
for fname in ("zoom", "zoom_rbs"):
    f = getattr(interpolation, fname)
    for dtype in (numpy.int64, numpy.int32, numpy.uint16, numpy.float64):
        for order in (1, 3, 5):
            N = 8
            img = rng.integers(0, 4000, (N, N)).astype(dtype)
            ref = img.astype(float)
            scale = ref.max()
            tag = "%s dtype=%s order=%d" % (fname, numpy.dtype(dtype).name, order)

            # same size -> same image
            check(tag + " identity", f(img, (N, N), order), ref, scale)

            # finer grid containing the old nodes
            k = 3
            M = k * (N - 1) + 1
            z = f(img, M, order)
            check(tag + " nodes", numpy.asarray(z)[::k, ::k], ref, scale)

            # polynomial of degree <= order in each variable, integer valued on the nodes
            i, j = numpy.meshgrid(numpy.arange(N), numpy.arange(N), indexing="ij")
            deg = order
            poly = (i ** deg + 2 * j ** deg + i * j + 3).astype(dtype)
            u = numpy.linspace(0, N - 1, M)
            uu, vv = numpy.meshgrid(u, u, indexing="ij")
            want = uu ** deg + 2 * vv ** deg + uu * vv + 3
            check(tag + " polynomial", f(poly, M, order), want, want.max())

if failures:
    print("C16 violated: spline zoom does not preserve image content")
    for line in failures:
        print("  " + line)
    sys.exit(1)
print("ok")
sys.exit(0)
