"""C05 demo B: every add_row step shifts the exposed screen down by EXACTLY one row, puts the new row at
index 0, and changes nothing else -- for both variants, for requested sizes equal to and smaller than the
working size, with reads (and a print) interleaved in the history."""
import sys
import numpy
from aotools.turbulence import infinitephasescreen as ips

problems = []


def run(label, s, N, steps):
    first_seen = {}          # step at which a row entered the screen -> its values at that moment
    worst = 0.0
    bad_steps = 0
    for k in range(1, steps + 1):
        prev = s.scrn.copy()
        if k % 3 == 0:
            s.scrn            # plain reads in the schedule
            str(s)
        cur = s.add_row()
        if cur.shape != (N, N) or not numpy.isfinite(cur).all():
            problems.append("%s: shape/finiteness lost at step %d" % (label, k))
            return
        if not numpy.array_equal(s.scrn, cur):
            problems.append("%s: add_row return differs from .scrn at step %d" % (label, k))
            return
        first_seen[k] = cur[0].copy()
        bad = False
        if not numpy.array_equal(cur[1:], prev[:-1]):
            bad = True
            worst = max(worst, numpy.abs(cur[1:] - prev[:-1]).max())
        # a row that entered j steps ago must still carry exactly the values it entered with
        for j in range(1, min(k, N)):
            if not numpy.array_equal(cur[j], first_seen[k - j]):
                worst = max(worst, numpy.abs(cur[j] - first_seen[k - j]).max())
                bad = True
        bad_steps += bad
    if bad_steps:
        problems.append("%s: in %d of %d steps the rows already in the screen were altered by the step "
                        "(largest change %.3g rad) -- the step is not a pure one-row shift"
                        % (label, bad_steps, steps, worst))


for N in (9, 14, 17, 33):
    run("Kolmogorov N=%d" % N, ips.PhaseScreenKolmogorov(N, 0.05, 0.15, 25., random_seed=5), N, 3 * N)
    run("Kolmogorov(factor 2) N=%d" % N,
        ips.PhaseScreenKolmogorov(N, 0.05, 0.15, 25., random_seed=6, stencil_length_factor=2), N, 3 * N)
    run("VonKarman N=%d" % N, ips.PhaseScreenVonKarman(N, 0.05, 0.15, 25., random_seed=7), N, 3 * N)

if problems:
    print("C05 VIOLATED (%d findings):" % len(problems))
    for p in problems:
        print("  " + p)
    sys.exit(1)
print("C05 holds: every step is an exact one-row shift, old rows keep their values bit for bit")
sys.exit(0)
