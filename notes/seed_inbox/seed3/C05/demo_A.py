"""C05 demo A: the exposed screen keeps the requested N x N shape after any number of add_row steps,
for both screen variants and all sizes (also when the internal working size is larger than N), it stays
finite, and every step shifts it down by exactly one row."""
import sys
import numpy
from aotools.turbulence import infinitephasescreen as ips

problems = []


def check(kind, make, N, steps):
    s = make(N)
    label = "%s N=%d" % (kind, N)
    if s.scrn.shape != (N, N):
        problems.append("%s: initial exposed screen has shape %s, requested (%d, %d)" % (label, s.scrn.shape, N, N))
        return
    for k in range(1, steps + 1):
        prev = s.scrn.copy()
        ret = s.add_row()
        cur = s.scrn
        if cur.shape != (N, N) or ret.shape != (N, N):
            problems.append("%s: after %d add_row steps the screen has shape %s (returned %s), requested (%d, %d)"
                            % (label, k, cur.shape, ret.shape, N, N))
            return
        if not numpy.isfinite(cur).all():
            problems.append("%s: non-finite values after %d steps" % (label, k))
            return
        if not numpy.array_equal(cur[1:], prev[:-1]):
            problems.append("%s: step %d is not a pure one-row shift" % (label, k))
            return


sizes = [3, 4, 5, 7, 9, 12, 16, 17, 19, 22, 31, 33, 36, 45, 64, 70]
for N in sizes:
    check("Kolmogorov", lambda n: ips.PhaseScreenKolmogorov(n, 0.1, 0.2, 30., random_seed=11), N, N + 3)
    check("Kolmogorov(factor 1)",
          lambda n: ips.PhaseScreenKolmogorov(n, 0.1, 0.2, 30., random_seed=12, stencil_length_factor=1), N, N + 3)
    if N <= 36:
        check("VonKarman", lambda n: ips.PhaseScreenVonKarman(n, 0.1, 0.2, 30., random_seed=13), N, N + 3)

if problems:
    print("C05 VIOLATED (%d findings):" % len(problems))
    for p in problems:
        print("  " + p)
    sys.exit(1)
print("C05 holds on all tested sizes: shape, finiteness and one-row shift")
sys.exit(0)
