"""C09: the 2-D scaled transforms act on the last two axes only, for any leading batch shape.

A stack of centred Gaussians of different widths, sampled on a 256 x 256 grid, must map frame by
frame to the analytic Gaussians; every frame must obey Parseval; the transform of the stack must be
the stack of the transforms; and ift2 must undo ft2.  The same is checked for a small stack.
"""
import sys
import numpy
import aotools
from aotools import fouriertransform as F

failures = []


def check(name, err, tol):
    if not err < tol:
        failures.append("%s: error %.3e (tolerance %.1e)" % (name, err, tol))


def run(N, sigmas, delta, ft2, ift2, where):
    df = 1.0 / (N * delta)
    n = numpy.arange(N) - N // 2
    xx, yy = numpy.meshgrid(n * delta, n * delta)
    fx, fy = numpy.meshgrid(n * df, n * df)
    stack = numpy.array([numpy.exp(-numpy.pi * (xx ** 2 + yy ** 2) / s ** 2) for s in sigmas])
    analytic = numpy.array([s ** 2 * numpy.exp(-numpy.pi * s ** 2 * (fx ** 2 + fy ** 2)) for s in sigmas])
    # make the frames complex: a different constant phase on each (the transform is linear)
    phase = numpy.exp(1j * numpy.arange(len(sigmas)))[:, None, None]
    stack = stack * phase
    analytic = analytic * phase
    tag = "%s N=%d frames=%d" % (where, N, len(sigmas))

    S = ft2(stack, delta)
    check("shape " + tag, 0.0 if S.shape == stack.shape else 1.0, 0.5)
    if S.shape != stack.shape:
        return
    # continuous-FT clause, frame by frame
    check("Gaussian -> analytic Gaussian " + tag, numpy.abs(S - analytic).max() / numpy.abs(analytic).max(), 1e-9)
    # Parseval per frame
    e_x = (numpy.abs(stack) ** 2).sum(axis=(-1, -2)) * delta ** 2
    e_f = (numpy.abs(S) ** 2).sum(axis=(-1, -2)) * df ** 2
    check("Parseval per frame " + tag, (numpy.abs(e_x - e_f) / e_x).max(), 1e-10)
    # batch == frame by frame
    single = numpy.array([ft2(frame, delta) for frame in stack])
    check("ft2(stack)[i] == ft2(stack[i]) " + tag, numpy.abs(S - single).max() / numpy.abs(single).max(), 1e-10)
    # inverse pair
    back = ift2(S, df)
    check("ift2(ft2(x)) == x " + tag, numpy.abs(back - stack).max(), 1e-10)
    # inverse of the analytic spectrum gives the Gaussians back, frame by frame
    g = ift2(analytic, df)
    check("ift2(analytic)[i] == Gaussian " + tag, numpy.abs(g - stack).max(), 1e-9)


for where, (ft2, ift2) in {"module": (F.ft2, F.ift2), "package": (aotools.ft2, aotools.ift2)}.items():
    run(64, (0.9, 1.1), 0.125, ft2, ift2, where)          # small stack
    run(65, (0.9, 1.0, 1.1), 0.125, ft2, ift2, where)     # odd size
    run(256, (1.0, 1.5, 2.0, 3.0), 0.1, ft2, ift2, where)  # a cube of 4 frames of 256 x 256
    run(512, (2.0,), 0.1, ft2, ift2, where)               # one large frame with a batch axis of 1
    run(300, (1.0, 2.5, 4.0), 0.1, ft2, ift2, where)      # 3 frames of 300 x 300

if failures:
    print("C09 violated: %d checks failed:" % len(failures))
    for f in failures[:16]:
        print("  " + f)
    sys.exit(1)
print("C09 holds: batched 2-D transforms are per-frame continuous-FT approximations")
sys.exit(0)
