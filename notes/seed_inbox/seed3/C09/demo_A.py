"""C09: the scaled transforms are linear and exact inverse pairs for *all* complex inputs.

A linear map is homogeneous: T(c*x) == c*T(x) for every scalar c, however small, and the
inverse pair ift(ft(x)) == x must hold for a weak field exactly as for a field of order one.
Checked here for 1-D and 2-D, odd and even N, with and without batch dimensions, through
both the package-level names and the Fourier module.
"""
import sys
import numpy
import aotools
from aotools import fouriertransform as F

rng = numpy.random.default_rng(20240917)
failures = []


def relerr(a, b):
    a = numpy.asarray(a, dtype=complex)
    b = numpy.asarray(b, dtype=complex)
    return numpy.abs(a - b).max() / numpy.abs(b).max()


def check(name, err, tol=1e-11):
    if not err < tol:
        failures.append("%s: relative error %.3e (tolerance %.1e)" % (name, err, tol))


pairs = {
    "module": (F.ft, F.ift, F.ft2, F.ift2),
    "package": (aotools.ft, aotools.ift, aotools.ft2, aotools.ift2),
}

for where, (ft, ift, ft2, ift2) in pairs.items():
    for N in (7, 16):
        for batch in ((), (3,)):
            for delta in (0.25, 3.0e-3):
                df = 1.0 / (N * delta)
                x1 = rng.normal(size=batch + (N,)) + 1j * rng.normal(size=batch + (N,))
                x2 = rng.normal(size=batch + (N, N)) + 1j * rng.normal(size=batch + (N, N))
                for scale in (1.0, 1e-6, 1e-12, 1e-17, 1e-24):
                    tag = "%s N=%d batch=%s delta=%g scale=%g" % (where, N, batch, delta, scale)
                    # inverse pair on a field of amplitude `scale`
                    check("ift(ft(x)) " + tag, relerr(ift(ft(scale * x1, delta), df), scale * x1))
                    check("ift2(ft2(x)) " + tag, relerr(ift2(ft2(scale * x2, delta), df), scale * x2))
                    # homogeneity of the inverse transforms
                    check("ift(c*X)==c*ift(X) " + tag, relerr(ift(scale * x1, df), scale * ift(x1, df)))
                    check("ift2(c*X)==c*ift2(X) " + tag, relerr(ift2(scale * x2, df), scale * ift2(x2, df)))
                    # homogeneity of the forward transforms
                    check("ft(c*x)==c*ft(x) " + tag, relerr(ft(scale * x1, delta), scale * ft(x1, delta)))
                    check("ft2(c*x)==c*ft2(x) " + tag, relerr(ft2(scale * x2, delta), scale * ft2(x2, delta)))
                    # Parseval through the inverse: sum|x|^2 delta == sum|X|^2 delta_f
                    X1 = scale * x1
                    e_f = (numpy.abs(X1) ** 2).sum() * df
                    e_x = (numpy.abs(ift(X1, df)) ** 2).sum() * delta
                    check("Parseval ift " + tag, abs(e_x - e_f) / e_f)
                    X2 = scale * x2
                    e_f = (numpy.abs(X2) ** 2).sum() * df ** 2
                    e_x = (numpy.abs(ift2(X2, df)) ** 2).sum() * delta ** 2
                    check("Parseval ift2 " + tag, abs(e_x - e_f) / e_f)

if failures:
    print("C09 violated: %d checks failed; first ones:" % len(failures))
    for f in failures[:12]:
        print("  " + f)
    sys.exit(1)
print("C09 holds: inverse pairs, homogeneity and Parseval at every amplitude")
sys.exit(0)
