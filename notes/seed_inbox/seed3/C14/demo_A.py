"""C14 demo A: fill factors returned by the sub-aperture selection are the ones
the fill-factor function recomputes (mask size a multiple of the sub-aperture
count), and both are the mean of the mask over the selected grid cell."""
import sys

import numpy

from aotools import circle
from aotools.wfs import findActiveSubaps, computeFillFactor

failures = []


def cell_means(mask, nsub):
    n = mask.shape[0]
    s = n // nsub
    ref = numpy.empty((nsub, nsub))
    for i in range(nsub):
        for j in range(nsub):
            ref[i, j] = mask[i * s:(i + 1) * s, j * s:(j + 1) * s].mean(dtype=numpy.float64)
    return ref


def check(label, mask, nsub, threshold):
    n = mask.shape[0]
    assert n % nsub == 0
    spacing = n // nsub
    coords, fills = findActiveSubaps(nsub, mask, threshold, returnFill=True)
    ref = cell_means(mask, nsub)

    # selection: exactly the cells whose mean is at least the threshold
    want = [(i, j) for i in range(nsub) for j in range(nsub) if ref[i, j] >= threshold]
    got = [(int(round(x / spacing)), int(round(y / spacing))) for x, y in coords]
    if got != want:
        failures.append("%s: selected cells differ from {mean >= %g}" % (label, threshold))
        return
    if len(coords) == 0:
        return
    want_fill = numpy.array([ref[i, j] for i, j in want])
    if not numpy.array_equal(fills, want_fill):
        failures.append("%s: returned fills are not the cell means" % label)

    # the clause under test: recomputation gives the same numbers
    again = computeFillFactor(mask, coords, spacing)
    if not numpy.array_equal(again, fills):
        k = int(numpy.argmax(numpy.abs(again - fills)))
        failures.append(
            "%s (thr %g): computeFillFactor != fills from findActiveSubaps; "
            "worst at sub-aperture coords %s: %r vs %r (%d of %d differ)"
            % (label, threshold, coords[k].tolist(), float(again[k]), float(fills[k]),
               int((again != fills).sum()), len(fills)))


rng = numpy.random.RandomState(14)
cases = []
for n, nsub in [(40, 8), (42, 7), (48, 6), (60, 10), (64, 16)]:
    cases.append(("centred circle n=%d" % n, circle(n / 2., n), nsub))
    cases.append(("annulus n=%d" % n, circle(n / 2., n) - circle(n / 7., n), nsub))
    # telescope pupil seen off-axis / mis-registered on the lenslet array
    cases.append(("decentred circle n=%d c=(3,-1)" % n, circle(n / 2. - 4, n, (3, -1)), nsub))
    cases.append(("half-pixel decentre n=%d c=(2.5,0)" % n, circle(n / 2. - 3, n, (2.5, 0)), nsub))
    cases.append(("corner-origin circle n=%d" % n,
                  circle(n / 3., n, (n / 2. + 2, n / 2. - 3), origin="corner"), nsub))
    # obstruction off the diagonal (e.g. a vignetted patch)
    obs = circle(n / 2., n) - circle(n / 8., n, (n / 5., -n / 10.))
    cases.append(("circle with off-axis obstruction n=%d" % n, obs, nsub))
    cases.append(("random binary n=%d" % n, (rng.rand(n, n) > 0.4).astype(float), nsub))
    cases.append(("grey-level mask n=%d" % n, rng.rand(n, n) * circle(n / 2., n), nsub))

for label, mask, nsub in cases:
    for thr in (0.0, 0.25, 0.5, 0.8, 1.0):
        check(label, mask, nsub, thr)

if failures:
    print("C14 VIOLATED: %d failing checks" % len(failures))
    for f in failures[:12]:
        print("  -", f)
    sys.exit(1)
print("C14 holds on %d mask/threshold combinations" % (len(cases) * 5))
sys.exit(0)
