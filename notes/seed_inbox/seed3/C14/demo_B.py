"""C14 demo B: circle(r, n, c, origin) is exactly the indicator of the pixel
centres (half-integer coordinates) within distance r of c; masks are nested in
r and move with integer shifts of c.  All radii / centres used are dyadic, so
the reference in exact rational arithmetic and the library agree bit for bit
when the property holds."""
import sys
from fractions import Fraction as F

import numpy

from aotools import circle

failures = []


def indicator(r, n, c, origin):
    r2 = F(r) * F(r)
    off = F(n, 2) if origin == "middle" else F(0)
    out = numpy.zeros((n, n))
    for row in range(n):
        dy = F(2 * row + 1, 2) - off - F(c[1])
        for col in range(n):
            dx = F(2 * col + 1, 2) - off - F(c[0])
            if dx * dx + dy * dy <= r2:
                out[row, col] = 1
    return out


def describe(r, n, c, origin):
    return "circle(%g, %d, %s, origin=%r)" % (r, n, tuple(c), origin)


sizes = [8, 5, 11, 16, 2, 1]
for n in sizes:
    radii = sorted(set([0, 0.5, 1, n / 4., n / 2. - 0.5, n / 2., 0.75 * n, n, 1.5 * n, 2.5 * n]))
    centres_mid = [(0, 0), (0.5, 0.5), (1, 0), (0, -2), (n / 2., 0), (-n / 2., n / 2.),
                   (n, 0), (2.5, -1.5), (0, 2 * n)]
    centres_cor = [(n / 2., n / 2.), (0, 0), (n, n), (0.5, n - 0.5), (n // 2, n // 2 + 1),
                   (-1, 3), (1.5 * n, n / 2.)]
    for origin, centres in (("middle", centres_mid), ("corner", centres_cor)):
        for c in centres:
            prev = None
            for r in radii:
                got = circle(r, n, c, origin)
                want = indicator(r, n, c, origin)
                if got.shape != want.shape or not numpy.array_equal(got, want):
                    failures.append("%s is not the indicator: %d pixels set, %d pixel centres "
                                    "lie within the radius"
                                    % (describe(r, n, c, origin), int(got.sum()), int(want.sum())))
                # nested in r
                if prev is not None and not (prev <= got).all():
                    failures.append("%s does not contain the mask of the smaller radius"
                                    % describe(r, n, c, origin))
                prev = got

# integer shifts of the centre translate the mask (compare on the overlap)
for n in (9, 12):
    for origin, c0 in (("middle", (0, 0)), ("middle", (0.5, 0)), ("corner", (n / 2., n / 2.))):
        for r in (1.5, n / 2., 0.75 * n, n):
            base = circle(r, 3 * n, (c0[0] + (n if origin == "corner" else 0),
                                     c0[1] + (n if origin == "corner" else 0)), origin)
            for sx, sy in ((1, 0), (0, -2), (3, 2), (-n // 2, n // 2)):
                moved = circle(r, n, (c0[0] + sx, c0[1] + sy), origin)
                # the n x n window of the big (effectively unbounded) mask that
                # corresponds to the small array after the shift
                lo = n
                ref = base[lo - sy:lo - sy + n, lo - sx:lo - sx + n]
                if not numpy.array_equal(moved, ref):
                    failures.append("%s is not the centred mask translated by (%d, %d)"
                                    % (describe(r, n, (c0[0] + sx, c0[1] + sy), origin), sx, sy))

if failures:
    print("C14 VIOLATED: %d failing checks" % len(failures))
    for f in failures[:12]:
        print("  -", f)
    sys.exit(1)
print("C14 holds: every mask equals the exact indicator, is nested in r and translates with c")
sys.exit(0)
