"""
C17 demo A: single-layer isoplanatic angle reduces to 0.314 r0/h, whatever numeric
type the altitude grid is stored in, and stacked profiles agree with a loop.

Altitude grids are very often integer arrays (numpy.arange(0, 25000, 250), values
read from a config file ...).  The isoplanatic angle of a one-layer profile at
height h must be 0.314 * r0 / h (to the rounding of the published constants) and
must not depend on whether h is held as int64 or float64.
"""
import sys
import numpy
from aotools.turbulence import atmos_conversions as ac

RAD2ARCSEC = 180. * 3600. / numpy.pi
failures = []


def check(label, got, want, rtol):
    got = numpy.asarray(got, dtype=float)
    want = numpy.asarray(want, dtype=float)
    err = numpy.max(numpy.abs(got - want) / numpy.abs(want))
    if not numpy.all(numpy.isfinite(got)) or err > rtol:
        failures.append("%s: got %s, expected %s (rel. err %.3g > %.1g)"
                        % (label, got, want, err, rtol))


# --- single layer: theta0 = 0.314 r0 / h --------------------------------------
for lamda in (500e-9, 1.65e-6):
    for cn2 in (2e-14, 5e-13):
        r0 = ac.cn2_to_r0(cn2, lamda)
        for height in (250, 1000, 5000, 6000, 6500, 10000, 16000, 22500):
            expected = 0.314 * r0 / float(height) * RAD2ARCSEC
            for dtype in (numpy.float64, numpy.int64):
                h = numpy.array([height], dtype=dtype)
                got = ac.isoplanaticAngle(numpy.array([cn2]), h, lamda)
                check("single layer h=%d (%s), cn2=%g, lamda=%g"
                      % (height, numpy.dtype(dtype).name, cn2, lamda),
                      got, expected, 2e-3)

# --- a realistic multi-layer profile on an integer altitude grid ---------------
h_int = numpy.arange(0, 25000, 250)              # int64, as in the test-suite
h_flt = h_int.astype(float)
rng = numpy.random.RandomState(3)
profiles = 1e-15 * (0.1 + rng.rand(4, 3, h_int.size))   # stacked (4, 3, nLayers)

stack_int = ac.isoplanaticAngle(profiles, h_int)
stack_flt = ac.isoplanaticAngle(profiles, h_flt)
check("stacked profiles, integer grid vs float grid", stack_int, stack_flt, 1e-12)

loop = numpy.array([[ac.isoplanaticAngle(profiles[i, j], h_int)
                     for j in range(profiles.shape[1])]
                    for i in range(profiles.shape[0])])
check("stacked profiles vs loop (integer grid)", stack_int, loop, 1e-12)

# layers first, integrate over axis 0
pf = numpy.moveaxis(profiles, -1, 0)
ax0 = ac.isoplanaticAngle(pf, h_int[:, None, None], axis=0)
check("axis=0 vs axis=-1 (integer grid)", ax0, stack_flt, 1e-12)

# --- wavelength scaling lambda^(6/5) on the integer grid -----------------------
a = ac.isoplanaticAngle(profiles[0, 0], h_int, 500e-9)
b = ac.isoplanaticAngle(profiles[0, 0], h_int, 2.2e-6)
check("lambda^(6/5) scaling", b / a, (2.2e-6 / 500e-9) ** 1.2, 1e-12)
check("integer grid value", a, ac.isoplanaticAngle(profiles[0, 0], h_flt, 500e-9), 1e-12)

if failures:
    print("C17 VIOLATED: isoplanatic angle depends on the altitude array's dtype / "
          "does not reduce to 0.314 r0/h")
    for f in failures[:12]:
        print("  -", f)
    if len(failures) > 12:
        print("  ... and %d more" % (len(failures) - 12))
    sys.exit(1)
print("C17 demo A: ok")
sys.exit(0)
