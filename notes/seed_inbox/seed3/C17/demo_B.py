"""
C17 demo B: photon counts are proportional to collecting area and exposure time,
five magnitudes are a factor 100, and photons_per_band is the composition
magnitude_to_flux * area * exposure time -- for every band, including the
photon-starved regime (faint guide star, kHz frame rate, one sub-aperture).

All comparisons use a relative tolerance of 1e-6, far looser than float rounding.
"""
import sys
import numpy
from aotools import astronomy, circle

RTOL = 1e-6
failures = []
n_checks = 0


def check(label, got, want):
    global n_checks
    n_checks += 1
    if want == 0:
        ok = got == 0
        err = float('inf') if not ok else 0.
    else:
        err = abs(got - want) / abs(want)
        ok = numpy.isfinite(got) and err <= RTOL
    if not ok:
        failures.append("%s: got %r, expected %r (rel. err %.3g)" % (label, got, want, err))


bands = ['U', 'B', 'V', 'R', 'I', 'J', 'H', 'K', 'g', 'r', 'i', 'z']

# (description, mask, pixel scale [m], exposure [s], magnitudes)
full_pupil = circle(32, 64)                  # 8 m telescope, 0.125 m pixels
subap = numpy.ones((4, 4))                   # one 0.5 m sub-aperture
odd_mask = circle(3.5, 9)[:, :7]             # non-square, odd sized
cases = [
    ("full pupil, 1 s",        full_pupil, 0.125, 1.0,    (-1.46, 0.0, 5.56, 10.0)),
    ("full pupil, 2 ms",       full_pupil, 0.125, 2e-3,   (5.56, 12.0, 17.5)),
    ("one sub-aperture, 1 ms", subap,      0.125, 1e-3,   (9.0, 13.3, 16.0, 18.25)),
    ("small odd mask, 0.5 ms", odd_mask,   0.05,  5e-4,   (8.0, 12.7, 15.0)),
]

for desc, mask, scale, t, mags in cases:
    area = mask.sum() * scale ** 2
    big = numpy.kron(mask, numpy.ones((2, 2)))          # same sampling, 4x the area
    for band in bands:
        for mag in mags:
            tag = "%s, band %s, mag %g" % (desc, band, mag)
            n = astronomy.photons_per_band(mag, mask, scale, t, band)

            # composite == composition of the elementary converter
            check(tag + ": photons == flux * area * time",
                  n, astronomy.magnitude_to_flux(mag, band) * area * t)
            # the count inverts back to the magnitude it came from
            back = astronomy.flux_to_magnitude(n / (area * t), band) if n > 0 else float('nan')
            check(tag + ": magnitude recovered from count", 30. + back, 30. + mag)
            # proportional to exposure time
            check(tag + ": 3x exposure -> 3x photons",
                  astronomy.photons_per_band(mag, mask, scale, 3 * t, band), 3 * n)
            check(tag + ": exposure/7 -> photons/7",
                  astronomy.photons_per_band(mag, mask, scale, t / 7., band), n / 7.)
            # proportional to collecting area
            check(tag + ": 4x area -> 4x photons",
                  astronomy.photons_per_band(mag, big, scale, t, band), 4 * n)
            check(tag + ": half pixel scale -> photons/4",
                  astronomy.photons_per_band(mag, mask, scale / 2., t, band), n / 4.)
            # five magnitudes are a factor 100
            check(tag + ": +5 mag -> photons/100",
                  astronomy.photons_per_band(mag + 5, mask, scale, t, band), n / 100.)

if failures:
    print("C17 VIOLATED: photon counts are not proportional to area / exposure time / "
          "100^(-mag/5) (%d of %d checks failed)" % (len(failures), n_checks))
    for f in failures[:14]:
        print("  -", f)
    if len(failures) > 14:
        print("  ... and %d more" % (len(failures) - 14))
    sys.exit(1)
print("C17 demo B: ok (%d checks)" % n_checks)
sys.exit(0)
