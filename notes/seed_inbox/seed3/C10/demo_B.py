"""C10: every propagator conserves total power,
sum|U_out|^2 d_out^2 == sum|U_in|^2 d_in^2, and is linear, on every even
square grid -- not only on the power-of-two sizes used in the examples.
"""
import sys
import numpy
from aotools import opticalpropagation as op

rng = numpy.random.RandomState(7)
wvl = 1.55e-6
d1 = 2e-3
failures = []


def power(U, d):
    return (numpy.abs(U) ** 2).sum() * d ** 2


def check(name, N, p_in, p_out):
    if abs(p_out / p_in - 1) > 1e-9:
        failures.append("%-16s N=%-3d P_out/P_in = %.9g" % (name, N, p_out / p_in))


for N in (16, 24, 26, 30, 32, 34, 40, 52, 64):
    U = rng.normal(size=(N, N)) + 1j * rng.normal(size=(N, N))
    V = rng.normal(size=(N, N)) + 1j * rng.normal(size=(N, N))
    p_in = power(U, d1)
    for z in (35.0, -35.0):
        # one-step Fresnel: output spacing wvl |z| / (N d1)
        check("oneStepFresnel", N, p_in,
              power(op.oneStepFresnel(U.copy(), wvl, d1, z), wvl * abs(z) / (N * d1)))
        for d2 in (d1, 1.5 * d1):
            check("twoStepFresnel", N, p_in,
                  power(op.twoStepFresnel(U.copy(), wvl, d1, d2, z), d2))
            check("angularSpectrum", N, p_in,
                  power(op.angularSpectrum(U.copy(), wvl, d1, d2, z), d2))
    for f in (0.8, -0.8):
        check("lensAgainst", N, p_in,
              power(op.lensAgainst(U.copy(), wvl, d1, f), wvl * abs(f) / (N * d1)))

    # linearity on the same grids
    lhs = op.oneStepFresnel(U + 2j * V, wvl, d1, 35.0)
    rhs = op.oneStepFresnel(U.copy(), wvl, d1, 35.0) + 2j * op.oneStepFresnel(V.copy(), wvl, d1, 35.0)
    if numpy.abs(lhs - rhs).max() > 1e-9 * numpy.abs(rhs).max():
        failures.append("oneStepFresnel   N=%-3d not linear" % N)

if failures:
    print("C10 violated (power not conserved):")
    for f in failures:
        print("  " + f)
    sys.exit(1)
print("C10 holds: power conserved by all propagators on all tried grid sizes")
sys.exit(0)
