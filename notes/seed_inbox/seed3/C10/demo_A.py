"""C10: angular-spectrum propagation is linear in the input field and conserves
power, sum|U_out|^2 d_out^2 == sum|U_in|^2 d_in^2, for any magnification.

The field objects of a simulation are long-lived: the same arrays are handed
to the propagator, then combined and propagated again (superposition check),
and the power budget is taken from the input after the call.
"""
import sys
import numpy
from aotools import opticalpropagation as op

rng = numpy.random.RandomState(1234)
N = 32
wvl = 633e-9
d1 = 1e-3
failures = []


def rel(a, b):
    return numpy.abs(a - b).max() / max(numpy.abs(b).max(), 1e-300)


for mag in (1.0, 0.5, 2.0, 1.25):
    for z in (0.7, -0.7, 12.0):
        d2 = mag * d1
        a = rng.normal(size=(N, N)) + 1j * rng.normal(size=(N, N))
        b = rng.normal(size=(N, N)) + 1j * rng.normal(size=(N, N))
        alpha, beta = 0.3 - 1.1j, -2.0 + 0.4j

        # power budget of a single propagation
        Ua = op.angularSpectrum(a, wvl, d1, d2, z)
        p_out = (numpy.abs(Ua) ** 2).sum() * d2 ** 2
        p_in = (numpy.abs(a) ** 2).sum() * d1 ** 2
        if abs(p_out / p_in - 1) > 1e-9:
            failures.append("power: mag=%g z=%g  P_out/P_in = %.12g" % (mag, z, p_out / p_in))

        # superposition: L(alpha a + beta b) == alpha L(a) + beta L(b)
        Ub = op.angularSpectrum(b, wvl, d1, d2, z)
        Us = op.angularSpectrum(alpha * a + beta * b, wvl, d1, d2, z)
        err = rel(Us, alpha * Ua + beta * Ub)
        if err > 1e-9:
            failures.append("linearity: mag=%g z=%g  rel. error %.3e" % (mag, z, err))

        # homogeneity on the very same field: L(2a) == 2 L(a)
        U2 = op.angularSpectrum(2 * a, wvl, d1, d2, z)
        err = rel(U2, 2 * Ua)
        if err > 1e-9:
            failures.append("homogeneity: mag=%g z=%g  rel. error %.3e" % (mag, z, err))

if failures:
    print("C10 violated by angularSpectrum:")
    for f in failures:
        print("  " + f)
    sys.exit(1)
print("C10 holds for angularSpectrum on all tried magnifications/distances")
sys.exit(0)
