"""C03: the slope covariance matrix built with worker processes is bit-identical to the single-process one,
for every sensor configuration -- here systems whose wavefront sensors do not all have the same number of
active sub-apertures (a truth sensor with a smaller pupil mask, a coarser low-order sensor)."""
import sys
import traceback
import numpy
import aotools
from aotools.turbulence.slopecovariance import CovarianceMatrix


def build(masks, diams, tel_diam, threads):
    n_wfs = len(masks)
    gs_alt = [90000., 0., 90000., 0.][:n_wfs]
    gs_pos = [[10., 0.], [-4., 7.], [0., -9.], [3., 3.]][:n_wfs]
    wavel = [589e-9, 700e-9, 589e-9, 1650e-9][:n_wfs]
    alts = numpy.array([0., 4000., 11000.])
    r0s = numpy.array([0.21, 0.43, 0.77])
    L0s = numpy.array([25., 30., 50.])
    c = CovarianceMatrix(n_wfs, masks, tel_diam, diams, gs_alt, gs_pos, wavel, len(alts), alts, r0s, L0s,
                         threads=threads)
    return c.make_covariance_matrix()


def configs():
    tel = 4.2
    nx = 6
    full = aotools.circle(nx / 2., nx)
    small = aotools.circle(nx / 2. - 0.5, nx)
    tiny = aotools.circle(nx / 2. - 1., nx)
    lo = aotools.circle(2, 4)                       # 4x4 low-order sensor on the same pupil
    d = tel / nx
    yield "3 equal WFS", [full, full, full], [d, d, d], tel
    yield "large, medium, small masks", [full, small, tiny], [d, d, d], tel
    yield "small truth sensor first", [tiny, full, full], [d, d, d], tel
    yield "high-order + 4x4 low-order", [full, full, lo, small], [d, d, tel / 4, d], tel


def main():
    bad = []
    for name, masks, diams, tel in configs():
        counts = [int(m.sum()) for m in masks]
        ref = build(masks, diams, tel, 1)
        for threads in (2, 3, 4):
            try:
                m = build(masks, diams, tel, threads)
            except Exception:
                bad.append("%s (sub-apertures per WFS %s), threads=%d: multi-process build raised %s"
                           % (name, counts, threads, traceback.format_exc().strip().splitlines()[-1]))
                continue
            if m.shape != ref.shape or m.dtype != ref.dtype or m.tobytes() != ref.tobytes():
                ndiff = int((m != ref).sum()) if m.shape == ref.shape else -1
                dev = float(abs(m.astype("f8") - ref).max() / abs(ref).max()) if m.shape == ref.shape else -1
                bad.append("%s (sub-apertures per WFS %s), threads=%d: matrix differs from the single-process one "
                           "in %d of %d elements (max deviation / max|C| = %.3g)"
                           % (name, counts, threads, ndiff, ref.size, dev))
    if bad:
        print("C03 VIOLATED:")
        for b in bad:
            print("  " + b)
        return 1
    print("C03 holds: multi-process matrices bit-identical to single-process for even and uneven WFS sizes")
    return 0


if __name__ == "__main__":
    sys.exit(main())
