"""C03: the slope covariance matrix built with worker processes is bit-identical to the single-process one,
for every sensor/layer configuration -- here configurations whose parameters arrive as float32 arrays / NumPy
scalars (values read from FITS headers or a float32 config table), next to the same values as float64."""
import sys
import numpy
import aotools
from aotools.turbulence.slopecovariance import CovarianceMatrix


def build(dtype, threads):
    n_wfs = 3
    tel_diam = 4.2
    nx = 6
    masks = [aotools.circle(nx / 2., nx)] * n_wfs
    diams = numpy.array([tel_diam / nx] * n_wfs, dtype=dtype)
    gs_alt = numpy.array([90000., 0., 90000.], dtype=dtype)       # LGS, NGS, LGS
    gs_pos = numpy.array([[10., 0.], [-4., 7.], [0., -9.]], dtype=dtype)
    wavel = numpy.array([589e-9, 700e-9, 589e-9], dtype=dtype)
    alts = numpy.array([0., 4000., 11000.], dtype=dtype)
    r0s = numpy.array([0.21, 0.43, 0.77], dtype=dtype)
    L0s = numpy.array([25., 30., 50.], dtype=dtype)
    c = CovarianceMatrix(n_wfs, masks, tel_diam, diams, gs_alt, gs_pos, wavel, len(alts), alts, r0s, L0s,
                         threads=threads)
    return c.make_covariance_matrix()


def main():
    bad = []
    for dtype in ("float64", "float32"):
        ref = build(dtype, 1)
        if not numpy.all(numpy.isfinite(ref)):
            bad.append("%s: serial matrix not finite" % dtype)
        for threads in (2, 3, 5):
            m = build(dtype, threads)
            if m.shape != ref.shape or m.dtype != ref.dtype or m.tobytes() != ref.tobytes():
                ndiff = int((m != ref).sum()) if m.shape == ref.shape else -1
                rel = float(abs(m.astype("f8") - ref).max() / abs(ref).max()) if m.shape == ref.shape else -1
                bad.append("%s parameters, threads=%d: matrix differs from the single-process one in %d of %d "
                           "elements (max rel. deviation %.3g)" % (dtype, threads, ndiff, ref.size, rel))
    if bad:
        print("C03 VIOLATED:")
        for b in bad:
            print("  " + b)
        return 1
    print("C03 holds: multi-process matrices bit-identical to single-process (float64 and float32 parameters)")
    return 0


if __name__ == "__main__":
    sys.exit(main())
