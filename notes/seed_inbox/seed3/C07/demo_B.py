"""
C07 demo B -- the sub-harmonic screen for large and infinite outer scales.

The property is quantified over all L0 > 0; "no outer scale" is customarily requested as
L0 = 1e6, 1e9, ... or numpy.inf (the spectrum 0.023 r0^(-5/3) exp(-(f/fm)^2) (f^2+1/L0^2)^(-11/6)
is perfectly regular there once the zero frequency is removed).  Checked here, for each L0:

  1. the sub-harmonic screen is finite and is a LINEAR function of its Gaussian draws
     (superposition: screen(z1 + z2) = screen(z1) + screen(z2), screen(2 z) = 2 screen(z));
  2. its exact ensemble structure function (from the linear map, evaluated on an orthonormal
     basis of the draw space) is nowhere below that of the plain FFT screen -- the sub-harmonics
     only add power;
  3. at large separations it is closer to the analytic von Karman structure function than the
     plain FFT screen, and the added part is low-frequency (it changes neighbouring-pixel
     differences by much less than it changes long-baseline differences).
"""
import sys
import warnings
import numpy as np
from scipy.special import kv, gamma

warnings.simplefilter("ignore")
from aotools.turbulence import phasescreen as ps


class Feed(np.random.Generator):
    """Generator whose normal draws are a prescribed vector (default_rng returns it unchanged)."""

    def __init__(self, z):
        super().__init__(np.random.PCG64(0))
        self.z = np.asarray(z, dtype=float)
        self.pos = 0

    def _take(self, size):
        n = int(np.prod(size)) if size is not None else 1
        out = np.zeros(n)
        avail = self.z[self.pos:self.pos + n]
        out[:len(avail)] = avail
        self.pos += n
        return out.reshape(size) if size is not None else out[0]

    def normal(self, loc=0.0, scale=1.0, size=None):
        return loc + scale * self._take(size)

    def standard_normal(self, size=None, dtype=np.float64, out=None):
        return self._take(size).astype(dtype)


def vk_structure_function(r, r0, L0):
    if not np.isfinite(L0) or L0 / r.max() > 1e4:
        return 6.88 * (r / r0) ** (5.0 / 3)
    c = (L0 / r0) ** (5.0 / 3) * 2 ** (1.0 / 6) * gamma(11.0 / 6) / np.pi ** (8.0 / 3) \
        * (24.0 / 5 * gamma(6.0 / 5)) ** (5.0 / 6)
    x = 2 * np.pi * r / L0
    return c * (gamma(5.0 / 6) / 2 ** (1.0 / 6) - x ** (5.0 / 6) * kv(5.0 / 6, x))


def sf_from_map(M):
    G = M @ M.T
    d = np.diag(G)
    return d[:, None] + d[None, :] - 2 * G


N, r0, delta, l0 = 8, 0.1, 0.1, 0.01
n_hi = 2 * N * N
n_sh = n_hi + 3 * 18
rng = np.random.default_rng(7)
Q, _ = np.linalg.qr(rng.normal(size=(n_sh, n_sh)))       # orthonormal basis of the draw space
z1, z2 = rng.normal(size=n_sh), rng.normal(size=n_sh)

failures = []
for L0 in (30.0, 1e6, 1e9, 1e12, np.inf):
    tag = "L0=%g" % L0
    sh = lambda z: np.asarray(ps.ft_sh_phase_screen(r0, N, delta, L0, l0, seed=Feed(z)), float)
    hi = lambda z: np.asarray(ps.ft_phase_screen(r0, N, delta, L0, l0, seed=Feed(z)), float)

    # 1. finite + linear in the draws
    s1, s2, s12, s21 = sh(z1), sh(z2), sh(z1 + z2), sh(2 * z1)
    if not all(np.isfinite(s).all() for s in (s1, s2, s12, s21)):
        failures.append("%s: sub-harmonic screen is not finite" % tag)
        print("%-9s screen not finite" % tag)
        continue
    scale = np.abs(s12).max()
    lin = max(np.abs(s12 - (s1 + s2)).max(), np.abs(s21 - 2 * s1).max()) / scale
    if not lin < 1e-10:
        failures.append("%s: sub-harmonic screen is not linear in its draws "
                        "(superposition error %.2e of the screen amplitude)" % (tag, lin))

    # 2./3. exact ensemble structure functions
    M_hi = np.array([hi(e).ravel() for e in np.eye(n_hi)]).T
    M_sh = np.array([sh(q).ravel() for q in Q.T]).T
    D_hi, D_sh = sf_from_map(M_hi), sf_from_map(M_sh)
    dec = (D_sh - D_hi).min() / D_hi.max()
    if not dec > -1e-10:
        failures.append("%s: adding sub-harmonics lowers a structure-function value "
                        "(by %.2e of the largest value)" % (tag, -dec))

    row = lambda a, b: N * a + b
    seps = np.arange(N // 4, N)                   # along x, from pixel (0,0): 2..7 pixels
    d_hi = np.array([D_hi[row(0, 0), row(0, s)] for s in seps])
    d_sh = np.array([D_sh[row(0, 0), row(0, s)] for s in seps])
    d_vk = vk_structure_function(seps * delta, r0, L0)
    closer = np.abs(d_sh - d_vk) < np.abs(d_hi - d_vk)
    if not closer.all():
        failures.append("%s: at separations %s px the sub-harmonic structure function is not closer to "
                        "the analytic one than the plain FFT screen's (sh %s, fft %s, analytic %s)"
                        % (tag, seps[~closer].tolist(), np.round(d_sh[~closer], 3).tolist(),
                           np.round(d_hi[~closer], 3).tolist(), np.round(d_vk[~closer], 3).tolist()))
    add_near = D_sh[row(0, 0), row(0, 1)] - D_hi[row(0, 0), row(0, 1)]
    add_far = D_sh[row(0, 0), row(0, N - 1)] - D_hi[row(0, 0), row(0, N - 1)]
    if not (0 <= add_near + 1e-10 * D_hi.max() and add_near < 0.1 * add_far):
        failures.append("%s: the part added by the sub-harmonics is not low-frequency "
                        "(adds %.3g to the 1-pixel structure function, %.3g at %d pixels)"
                        % (tag, add_near, add_far, N - 1))
    print("%-9s superposition err %.1e | min(D_sh-D_hi)/max %.1e | D(4px): fft %.2f sh %.2f analytic %.2f"
          % (tag, lin, dec, d_hi[2], d_sh[2], d_vk[2]))

if failures:
    print("\nPROPERTY C07 VIOLATED:")
    for f in failures:
        print("  - " + f)
    sys.exit(1)
print("ok")
sys.exit(0)
