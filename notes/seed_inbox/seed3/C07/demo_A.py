"""
C07 demo A -- FFT phase screens: exact discretised von Karman covariance and exact r0^(-5/6)
scaling must hold for every way the (in-domain) scalar parameters are handed over, including
single-precision NumPy scalars (parameters read from float32 configuration arrays).

The reference is the property itself: the covariance of the screen -- obtained exactly from the
linear map draws -> screen -- must equal the inverse discrete Fourier sum of
0.023 r0^(-5/3) exp(-(f/fm)^2) (f^2 + 1/L0^2)^(-11/6) del_f^2 over the screen's frequency grid
(zero frequency removed), evaluated at the parameter VALUES (a float32 scalar denotes a real
number which float64 represents exactly).
"""
import sys
import warnings
import numpy as np

warnings.simplefilter("ignore")
from aotools.turbulence import phasescreen as ps


class Feed(np.random.Generator):
    """A Generator whose normal draws are a prescribed vector (numpy.random.default_rng returns
    a Generator it is given unchanged, so `seed=Feed(z)` fixes the draws of the screen)."""

    def __init__(self, z):
        super().__init__(np.random.PCG64(0))
        self.z = np.asarray(z, dtype=float)
        self.pos = 0

    def _take(self, size):
        n = int(np.prod(size)) if size is not None else 1
        out = np.zeros(n)
        avail = self.z[self.pos:self.pos + n]
        out[:len(avail)] = avail
        self.pos += n
        return out.reshape(size) if size is not None else out[0]

    def normal(self, loc=0.0, scale=1.0, size=None):
        return loc + scale * self._take(size)

    def standard_normal(self, size=None, dtype=np.float64, out=None):
        return self._take(size).astype(dtype)


def linear_map(N, r0, delta, L0, l0):
    nd = 2 * N * N
    cols = []
    for k in range(nd):
        z = np.zeros(nd)
        z[k] = 1.0
        cols.append(np.asarray(ps.ft_phase_screen(r0, N, delta, L0, l0, seed=Feed(z)),
                               dtype=float).ravel())
    return np.array(cols).T


def reference_covariance(N, r0, delta, L0, l0):
    r0, delta, L0, l0 = float(r0), float(delta), float(L0), float(l0)
    del_f = 1.0 / (N * delta)
    k = np.arange(-N // 2, N // 2)
    kx, ky = np.meshgrid(k, k)
    f = np.hypot(kx, ky) * del_f
    fm = 5.92 / l0 / (2 * np.pi)
    with np.errstate(divide="ignore"):
        psd = 0.023 * r0 ** (-5.0 / 3) * np.exp(-(f / fm) ** 2) * (f ** 2 + 1.0 / L0 ** 2) ** (-11.0 / 6)
    psd[(kx == 0) & (ky == 0)] = 0.0
    w = psd * del_f ** 2
    # B(dx,dy) = sum_k w_k cos(2 pi (kx dx + ky dy)/N)
    d = np.arange(N)
    cx = np.cos(2 * np.pi * np.outer(d, k) / N)            # (N, nk)
    B = np.einsum("ij,ai,bj->ab", w, cx, cx) - np.einsum(
        "ij,ai,bj->ab", w, np.sin(2 * np.pi * np.outer(d, k) / N), np.sin(2 * np.pi * np.outer(d, k) / N))
    # B[a,b]: a = dy, b = dx (cyclic)
    iy, ix = np.divmod(np.arange(N * N), N)
    return B[(iy[:, None] - iy[None, :]) % N, (ix[:, None] - ix[None, :]) % N]


failures = []
N = 8
cases = {
    "python floats": (0.1, 0.05, 3.0, 0.01),
    "numpy.float32 scalars": tuple(np.float32(v) for v in (0.1, 0.05, 3.0, 0.01)),
    "elements of a float32 array": tuple(np.array([0.13, 0.02, 7.5, 0.004], dtype=np.float32)),
}
for name, (r0, delta, L0, l0) in cases.items():
    M = linear_map(N, r0, delta, L0, l0)
    cov = M @ M.T
    ref = reference_covariance(N, r0, delta, L0, l0)
    err = np.abs(cov - ref).max() / np.abs(ref).max()
    var = np.diag(cov)
    print("%-30s covariance vs discretised von Karman sum: rel. err %.2e" % (name, err))
    if not err < 1e-11:
        failures.append("covariance differs from the discretised von Karman sum for %s "
                        "(relative error %.2e, rounding would be ~1e-15)" % (name, err))
    if not (var.max() - var.min()) <= 1e-11 * var.max():
        failures.append("variance depends on position for %s" % name)

# exact r0^(-5/6) scaling for fixed draws
z = np.random.default_rng(20240607).normal(size=2 * 16 * 16)
for name, conv in (("python floats", float), ("numpy.float32 scalars", np.float32)):
    ra, rb = conv(0.1), conv(0.37)
    delta, L0, l0 = conv(0.05), conv(20.0), conv(0.01)
    sa = ps.ft_phase_screen(ra, 16, delta, L0, l0, seed=Feed(z))
    sb = ps.ft_phase_screen(rb, 16, delta, L0, l0, seed=Feed(z))
    expect = (float(rb) / float(ra)) ** (-5.0 / 6)
    err = np.abs(sb - expect * sa).max() / np.abs(sb).max()
    print("%-30s r0^(-5/6) scaling for fixed draws: rel. err %.2e" % (name, err))
    if not err < 1e-11:
        failures.append("screen(r0=%r) != (r0 ratio)^(-5/6) * screen(r0=%r) for fixed draws with %s "
                        "(relative error %.2e)" % (rb, ra, name, err))

if failures:
    print("\nPROPERTY C07 VIOLATED:")
    for f in failures:
        print("  - " + f)
    sys.exit(1)
print("ok")
sys.exit(0)
