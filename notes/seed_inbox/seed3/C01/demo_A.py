"""
C01 demo A: the slope covariance matrix must equal the covariance of the finite-difference slopes of the von Karman
phase, summed over ALL layers -- also when the profile lists several layers at one altitude (dome seeing + ground
layer at 0 m, a strong and a weak sheet sharing a bin of a measured profile, ...).

Checks (all clauses of the property, against an independent first-principles model):
  * symmetric, positive semi-definite up to single precision rounding
  * every entry equals the modelled covariance up to single precision rounding
  * additive over layers: matrix(profile) == sum of the matrices of the single layers
  * the whole matrix scales as r0**(-5/3)
Exit 0 if everything holds, 1 otherwise.
"""
import sys

import numpy
import scipy.special

from aotools.turbulence.slopecovariance import CovarianceMatrix


def d_vk(r, r0, L0):
    r = numpy.asarray(r, dtype="float64")
    safe = numpy.where(r == 0, 1.0, r)
    x = 2 * numpy.pi * safe / L0
    val = 0.17253 * (L0 / r0) ** (5. / 3.) * (
        1 - 2 ** (1. / 6.) / scipy.special.gamma(5. / 6.) * x ** (5. / 6.) * scipy.special.kv(5. / 6., x))
    return numpy.where(r == 0, 0.0, val)


def reference(masks, tel_diam, subap_diams, gs_alts, gs_pos, wavelengths, layer_alts, layer_r0s, layer_L0s):
    """cov of slopes (lambda/2 pi d)(phi(p + d/2 e) - phi(p - d/2 e)); per sensor all x then all y; summed over layers.
    Returns the matrix and the sum over layers of |layer term| (scale of the rounding allowance)."""
    ex, ey = numpy.array([1.0, 0.0]), numpy.array([0.0, 1.0])
    total, abssum = 0.0, 0.0
    for h, r0, L0 in zip(layer_alts, layer_r0s, layer_L0s):
        plus, minus, scale = [], [], []
        for w in range(len(masks)):
            d = float(subap_diams[w])
            idx = numpy.argwhere(numpy.asarray(masks[w]) == 1).astype("float64")
            p = idx * d - tel_diam / 2. - d / 2.
            s = 1.0 if gs_alts[w] == 0 else 1.0 - float(h) / float(gs_alts[w])
            theta = numpy.asarray(gs_pos[w], dtype="float64") * numpy.pi / 180. / 3600.
            p = s * p + theta * float(h)
            dl = d * s
            plus.append(numpy.concatenate([p + 0.5 * dl * ex, p + 0.5 * dl * ey]))
            minus.append(numpy.concatenate([p - 0.5 * dl * ex, p - 0.5 * dl * ey]))
            scale.append(numpy.full(2 * len(p), float(wavelengths[w]) / (2 * numpy.pi * dl)))
        A, B, S = numpy.concatenate(plus), numpy.concatenate(minus), numpy.concatenate(scale)

        def D(P, Q):
            diff = P[:, None, :] - Q[None, :, :]
            return d_vk(numpy.hypot(diff[..., 0], diff[..., 1]), float(r0), float(L0))

        term = 0.5 * (-D(A, A) + D(A, B) + D(B, A) - D(B, B)) * numpy.outer(S, S)
        total = total + term
        abssum = abssum + abs(term)
    return total, abssum


def build(masks, tel_diam, subap_diams, gs_alts, gs_pos, wavelengths, layer_alts, layer_r0s, layer_L0s):
    c = CovarianceMatrix(len(masks), masks, tel_diam, subap_diams, gs_alts, gs_pos, wavelengths,
                         len(layer_alts), layer_alts, layer_r0s, layer_L0s, 1)
    return numpy.array(c.make_covariance_matrix(), dtype="float64")


def main():
    failures = []
    rng = numpy.random.default_rng(20240)
    m1 = (rng.random((6, 6)) < 0.65).astype(int)          # not point-symmetric
    m2 = (rng.random((6, 6)) < 0.65).astype(int)
    sensors = dict(masks=[m1, m2], tel_diam=4.2, subap_diams=[0.7, 0.7], gs_alts=[0, 90000.],
                   gs_pos=[[0., 0.], [14., -9.]], wavelengths=[500e-9, 589e-9])

    profiles = {
        "distinct altitudes": ([0., 4000., 11000.], [0.25, 0.6, 0.9], [25., 25., 25.]),
        # dome seeing and ground layer both at 0 m, one free-atmosphere layer
        "dome + ground at 0 m": ([0., 0., 9000.], [0.6, 0.2, 0.8], [25., 25., 25.]),
        # two sheets sharing the 9 km bin
        "two sheets at 9 km": ([0., 9000., 9000.], [0.3, 1.1, 0.45], [20., 30., 30.]),
    }

    for name, (alts, r0s, L0s) in profiles.items():
        M = build(layer_alts=alts, layer_r0s=r0s, layer_L0s=L0s, **sensors)
        R, A = reference(layer_alts=alts, layer_r0s=r0s, layer_L0s=L0s, **sensors)
        top = abs(R).max()
        allow = 3e-7 * len(alts) * A + 1e-9 * top        # float32 accumulation of len(alts) terms

        if abs(M - M.T).max() > 0:
            failures.append("%s: not symmetric" % name)
        excess = (abs(M - R) / allow).max()
        if excess > 1:
            i, j = numpy.unravel_index((abs(M - R) / allow).argmax(), M.shape)
            failures.append("%s: entry (%d,%d) is %.6e, slope covariance is %.6e (%.3g x the rounding allowance; "
                            "max relative error of the matrix %.3g)"
                            % (name, i, j, M[i, j], R[i, j], excess, abs(M - R).max() / top))
        eig = numpy.linalg.eigvalsh(M)
        if eig.min() < -1e-6 * eig.max():
            failures.append("%s: not PSD, min eigenvalue %.3e (max %.3e)" % (name, eig.min(), eig.max()))

        # additive over layers
        parts = sum(build(layer_alts=[alts[k]], layer_r0s=[r0s[k]], layer_L0s=[L0s[k]], **sensors)
                    for k in range(len(alts)))
        add_err = abs(M - parts).max() / top
        if add_err > 2e-6:
            failures.append("%s: not additive over layers, |C(profile) - sum C(layer)| / max = %.3g" % (name, add_err))

        # r0**(-5/3) scaling of the whole profile
        f = 1.7
        M2 = build(layer_alts=alts, layer_r0s=[f * r for r in r0s], layer_L0s=L0s, **sensors)
        sc_err = abs(M2 - f ** (-5. / 3.) * M).max() / top
        if sc_err > 2e-6:
            failures.append("%s: does not scale as r0^(-5/3), error %.3g" % (name, sc_err))

    if failures:
        print("C01 VIOLATED:")
        for f in failures:
            print("  -", f)
        return 1
    print("C01 holds on all profiles")
    return 0


if __name__ == "__main__":
    sys.exit(main())
