"""
C01 demo B: every entry of the slope covariance matrix must equal the covariance of the finite-difference slopes of the
von Karman phase "up to single-precision rounding", and the matrix must be positive semi-definite to that accuracy --
for ALL outer scales, including the very large L0 people use to emulate Kolmogorov turbulence, where each covariance
is a small second difference of huge structure-function values.

For a ladder of outer scales (25 m ... 10 km) the matrix is compared, entry by entry, with an independent
first-principles model evaluated in double precision.  The allowance is the rounding of a float32 accumulation over
the layers (3e-7 * n_layers * sum_layers |term|).  Symmetry and the spectrum are checked as well.
Exit 0 if everything holds, 1 otherwise.
"""
import sys

import numpy
import scipy.special

from aotools.turbulence.slopecovariance import CovarianceMatrix


def d_vk(r, r0, L0):
    r = numpy.asarray(r, dtype="float64")
    safe = numpy.where(r == 0, 1.0, r)
    x = 2 * numpy.pi * safe / L0
    val = 0.17253 * (L0 / r0) ** (5. / 3.) * (
        1 - 2 ** (1. / 6.) / scipy.special.gamma(5. / 6.) * x ** (5. / 6.) * scipy.special.kv(5. / 6., x))
    return numpy.where(r == 0, 0.0, val)


def reference(masks, tel_diam, subap_diams, gs_alts, gs_pos, wavelengths, layer_alts, layer_r0s, layer_L0s):
    """cov of slopes (lambda/2 pi d)(phi(p + d/2 e) - phi(p - d/2 e)); per sensor all x then all y; summed over layers.
    Returns the matrix and the sum over layers of |layer term| (scale of the rounding allowance)."""
    ex, ey = numpy.array([1.0, 0.0]), numpy.array([0.0, 1.0])
    total, abssum = 0.0, 0.0
    for h, r0, L0 in zip(layer_alts, layer_r0s, layer_L0s):
        plus, minus, scale = [], [], []
        for w in range(len(masks)):
            d = float(subap_diams[w])
            idx = numpy.argwhere(numpy.asarray(masks[w]) == 1).astype("float64")
            p = idx * d - tel_diam / 2. - d / 2.
            s = 1.0 if gs_alts[w] == 0 else 1.0 - float(h) / float(gs_alts[w])
            theta = numpy.asarray(gs_pos[w], dtype="float64") * numpy.pi / 180. / 3600.
            p = s * p + theta * float(h)
            dl = d * s
            plus.append(numpy.concatenate([p + 0.5 * dl * ex, p + 0.5 * dl * ey]))
            minus.append(numpy.concatenate([p - 0.5 * dl * ex, p - 0.5 * dl * ey]))
            scale.append(numpy.full(2 * len(p), float(wavelengths[w]) / (2 * numpy.pi * dl)))
        A, B, S = numpy.concatenate(plus), numpy.concatenate(minus), numpy.concatenate(scale)

        def D(P, Q):
            diff = P[:, None, :] - Q[None, :, :]
            return d_vk(numpy.hypot(diff[..., 0], diff[..., 1]), float(r0), float(L0))

        term = 0.5 * (-D(A, A) + D(A, B) + D(B, A) - D(B, B)) * numpy.outer(S, S)
        total = total + term
        abssum = abssum + abs(term)
    return total, abssum


def build(masks, tel_diam, subap_diams, gs_alts, gs_pos, wavelengths, layer_alts, layer_r0s, layer_L0s):
    c = CovarianceMatrix(len(masks), masks, tel_diam, subap_diams, gs_alts, gs_pos, wavelengths,
                         len(layer_alts), layer_alts, layer_r0s, layer_L0s, 1)
    return numpy.array(c.make_covariance_matrix(), dtype="float64")


def main():
    failures = []
    rng = numpy.random.default_rng(7)
    n = 10
    yy, xx = numpy.mgrid[:n, :n] - (n - 1) / 2.
    circle = ((xx ** 2 + yy ** 2) <= (n / 2.) ** 2).astype(int)
    m1 = circle.copy()
    m1[2, 3] = 0
    m1[7, 0] = 1                                           # not point-symmetric
    m2 = circle * (rng.random((n, n)) < 0.9)
    sensors = dict(masks=[m1, m2], tel_diam=8., subap_diams=[0.8, 0.8], gs_alts=[0, 90000.],
                   gs_pos=[[20., 0.], [-20., 5.]], wavelengths=[500e-9, 589e-9])
    alts, r0s = [0., 10000.], [0.15, 0.3]

    for L0 in [25., 100., 1000., 10000.]:
        name = "L0 = %g m" % L0
        L0s = [L0, L0]
        M = build(layer_alts=alts, layer_r0s=r0s, layer_L0s=L0s, **sensors)
        R, A = reference(layer_alts=alts, layer_r0s=r0s, layer_L0s=L0s, **sensors)
        top = abs(R).max()
        allow = 3e-7 * len(alts) * A + 1e-9 * top

        if abs(M - M.T).max() > 0:
            failures.append("%s: not symmetric" % name)
        ratio = abs(M - R) / allow
        if ratio.max() > 1:
            i, j = numpy.unravel_index(ratio.argmax(), M.shape)
            failures.append("%s: entry (%d,%d) is %.6e, slope covariance is %.6e (%.3g x the single precision "
                            "allowance); largest error anywhere = %.3g of the largest entry"
                            % (name, i, j, M[i, j], R[i, j], ratio.max(), abs(M - R).max() / top))
        eig = numpy.linalg.eigvalsh(M)
        if eig.min() < -1e-6 * eig.max():
            failures.append("%s: not positive semi-definite: min eigenvalue %.3e, max %.3e (model: min %.3e)"
                            % (name, eig.min(), eig.max(), numpy.linalg.eigvalsh(R).min()))

    if failures:
        print("C01 VIOLATED:")
        for f in failures:
            print("  -", f)
        return 1
    print("C01 holds for all outer scales")
    return 0


if __name__ == "__main__":
    sys.exit(main())
