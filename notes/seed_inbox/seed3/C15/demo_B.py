"""C15 demo B: a stack of frames must give the same brightest-pixel centroids as each
frame processed alone -- whatever the memory layout in which the caller holds the stack.

AO telemetry is very often stored frame-last, (y, x, t), or comes Fortran-ordered out of
FITS / IDL / Matlab readers; the (t, y, x) stack handed to the centroider is then a
moveaxis / transposed *view*.  The values are the same, so the centroids must be too.
"""
import sys
import numpy

from aotools.image_processing import centroiders

TOL = 1e-9
failures = []


def check(name, got, want):
    got = numpy.asarray(got, dtype=float)
    want = numpy.asarray(want, dtype=float)
    if got.shape != want.shape:
        failures.append("%s: shape %s instead of %s" % (name, got.shape, want.shape))
        return
    err = numpy.max(numpy.abs(got - want))
    if not err <= TOL:
        failures.append("%s: max |stack - frame alone| = %.3e\n    stack : %s\n    alone : %s"
                        % (name, err, numpy.array2string(got, precision=4),
                           numpy.array2string(want, precision=4)))


def spots(rng, nt, ny, nx):
    """non-negative frames: a Gaussian spot on a noisy sky, different in each frame"""
    y, x = numpy.indices((ny, nx))
    frames = numpy.empty((nt, ny, nx))
    for t in range(nt):
        cy = rng.uniform(3, ny - 4)
        cx = rng.uniform(3, nx - 4)
        frames[t] = (100 * numpy.exp(-((x - cx)**2 + (y - cy)**2) / 3.)
                     + rng.uniform(5, 15) + rng.random((ny, nx)) * 4)
    return frames


rng = numpy.random.default_rng(15)

for (nt, ny, nx) in [(1, 9, 9), (4, 10, 12), (7, 11, 8)]:
    frames = spots(rng, nt, ny, nx)                      # (t, y, x), C order
    for frac in (0.1, 0.25, 0.6):
        alone = numpy.array([centroiders.brightest_pixel(frames[t].copy(), frac)
                             for t in range(nt)]).T        # (2, t)

        tag = "brightest_pixel %dx(%d,%d) frac=%.2f" % (nt, ny, nx, frac)

        # 1. the ordinary C-ordered stack
        check(tag + " [C-ordered stack]", centroiders.brightest_pixel(frames, frac), alone)

        # 2. cube stored frame-last (y, x, t), handed over as a (t, y, x) view
        cube = numpy.ascontiguousarray(numpy.moveaxis(frames, 0, -1))
        view = numpy.moveaxis(cube, -1, 0)
        assert view.shape == frames.shape and numpy.array_equal(view, frames)
        check(tag + " [frame-last cube, moveaxis view]",
              centroiders.brightest_pixel(view, frac), alone)

        # 3. Fortran-ordered stack (FITS / IDL style)
        fstack = numpy.asfortranarray(frames)
        check(tag + " [Fortran-ordered stack]",
              centroiders.brightest_pixel(fstack, frac), alone)

        # 4. frames taken one at a time out of those same holders
        one = numpy.array([centroiders.brightest_pixel(view[t], frac) for t in range(nt)]).T
        check(tag + " [frames sliced from the frame-last cube]", one, alone)
        one = numpy.array([centroiders.brightest_pixel(fstack[t], frac) for t in range(nt)]).T
        check(tag + " [frames sliced from the Fortran stack]", one, alone)

        # 5. a single transposed frame against the same pixels held contiguously
        ft = frames[0].T
        check(tag + " [transposed single frame]",
              centroiders.brightest_pixel(ft, frac),
              centroiders.brightest_pixel(numpy.ascontiguousarray(ft), frac))

if failures:
    print("C15 VIOLATED: brightest-pixel centroids of a stack differ from the frames processed alone")
    for f in failures[:8]:
        print(" -", f)
    if len(failures) > 8:
        print("   ... and %d more" % (len(failures) - 8))
    sys.exit(1)

print("ok: brightest-pixel stack == frame-by-frame for every memory layout tried")
sys.exit(0)
