"""C15 demo A: a stack of frames handed to the correlation centroider must give the same
answers as each frame processed alone (any threshold, any padding), and a frame displaced
by s from its reference must come out displaced by s -- also when the frames of the stack
do not share one sky level (sub-apertures / exposures with different backgrounds).
"""
import sys
import numpy

from aotools.image_processing import centroiders

TOL = 1e-8
failures = []


def check(name, got, want, tol=TOL):
    got = numpy.asarray(got, dtype=float)
    want = numpy.asarray(want, dtype=float)
    if got.shape != want.shape:
        failures.append("%s: shape %s instead of %s" % (name, got.shape, want.shape))
        return
    err = numpy.max(numpy.abs(got - want))
    if not err <= tol:
        failures.append("%s: max deviation %.3e\n    got  : %s\n    want : %s"
                        % (name, err, numpy.array2string(got, precision=5).replace("\n", ""),
                           numpy.array2string(want, precision=5).replace("\n", "")))


def blob(ny, nx, cy, cx):
    """compact non-negative content, exactly zero outside a small patch"""
    y, x = numpy.indices((ny, nx))
    g = numpy.exp(-((x - cx)**2 / 2.5 + (y - cy)**2 / 1.7))
    g[(abs(x - cx) > 3) | (abs(y - cy) > 3)] = 0.
    return 50. * g


shifts = [(0, 0), (2, -1), (-3, 2), (1, 3), (-2, -2)]      # (sx, sy), content stays inside

for (ny, nx) in [(16, 16), (15, 18)]:
    ref = blob(ny, nx, ny // 2, nx // 2)
    clean = numpy.array([numpy.roll(numpy.roll(ref, sy, 0), sx, 1) for sx, sy in shifts])
    s_true = numpy.array(shifts, dtype=float).T            # (2, t): x row, y row

    stacks = {
        "no sky": clean,
        "same sky in every frame": clean + 7.,
        "different sky per frame": clean + numpy.array([0., 3., 11., 6., 20.])[:, None, None],
    }

    for sky, stack in stacks.items():
        for thr in (0., 0.2, 0.5):
            for pad in (1, 2, 3):
                tag = "correlation_centroid (%d,%d) [%s] thr=%.1f pad=%d" % (ny, nx, sky, thr, pad)

                batch = centroiders.correlation_centroid(stack, ref, threshold=thr, padding=pad)
                alone = numpy.hstack([
                    centroiders.correlation_centroid(stack[t], ref, threshold=thr, padding=pad)
                    for t in range(len(stack))])
                check(tag + " stack vs frames alone", batch, alone)

                # displacement clause: measured from the array centre n//2, a frame shifted
                # by s reads s (thresholded so that only the correlation peak contributes)
                if thr > 0:
                    centre = numpy.array([[nx // 2], [ny // 2]], dtype=float)
                    check(tag + " displacement of the stack", batch - centre, s_true)

if failures:
    print("C15 VIOLATED: correlation centroids of a stack are not those of its frames")
    for f in failures[:8]:
        print(" -", f)
    if len(failures) > 8:
        print("   ... and %d more" % (len(failures) - 8))
    sys.exit(1)

print("ok: correlation centroider batches consistently and reads the displacement")
sys.exit(0)
