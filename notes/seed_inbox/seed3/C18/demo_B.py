"""
C18 demo B: equivalent-layers compression returns exactly L layers with non-negative
strengths, conserves the total Cn2, the 5/3 height moment (isoplanatic angle) and, when
wind is given, the 5/3 wind moment (coherence time) -- for any profile, whatever the
numeric type the caller stores the heights in (height grids are very often built with
numpy.arange(0, top, step), i.e. integer metres).
"""
import sys
import warnings
import numpy

warnings.simplefilter("ignore")
from aotools.turbulence import profile_compression as pc

RTOL = 1e-9


def m53(weights, x):
    x = numpy.asarray(x, dtype=float)
    return (numpy.asarray(weights, dtype=float) * x ** (5. / 3)).sum()


rng = numpy.random.RandomState(18)
cases = []
# float heights, regular and irregular
h = numpy.arange(0, 25000, 250.)
cases.append(("float64 regular 0-25 km", h))
cases.append(("float64 irregular", numpy.sort(rng.uniform(0, 22000, 37))))
# integer metres, boundary layer only
cases.append(("int64 regular 0-6 km", numpy.arange(0, 6000, 250)))
# integer metres, full atmosphere
cases.append(("int64 regular 0-25 km", numpy.arange(0, 25000, 250)))
cases.append(("int32 regular 0-20 km", numpy.arange(0, 20000, 500, dtype=numpy.int32)))
cases.append(("int64 irregular 30 m - 18 km",
              numpy.unique(rng.randint(30, 18000, 40)).astype(numpy.int64)))

bad = []
for name, h in cases:
    N = len(h)
    p = rng.uniform(0.2, 3.0, N) * 1e-15
    w = rng.uniform(3., 45., N)
    for L in (1, 2, 5, 8):
        if L >= N:
            continue
        out = pc.equivalent_layers(h.copy(), p.copy(), L, w=w.copy())
        hL, pL, wL = [numpy.asarray(o, dtype=float) for o in out]
        tag = "%s, L=%d" % (name, L)
        if hL.shape != (L,) or pL.shape != (L,) or wL.shape != (L,):
            bad.append(tag + ": wrong number of layers")
            continue
        if (pL < 0).any() or not numpy.isfinite(pL).all():
            bad.append(tag + ": bad strengths %s" % pL)
        if abs(pL.sum() - p.sum()) > RTOL * p.sum():
            bad.append(tag + ": total Cn2 %g -> %g" % (p.sum(), pL.sum()))
        th_in, th_out = m53(p, h), m53(pL, hL)
        if not (abs(th_out - th_in) <= RTOL * th_in):
            bad.append(tag + ": 5/3 height moment %.9g -> %.9g (heights %s)"
                       % (th_in, th_out, numpy.array2string(hL, precision=1)))
        ta_in, ta_out = m53(p, w), m53(pL, wL)
        if not (abs(ta_out - ta_in) <= RTOL * ta_in):
            bad.append(tag + ": 5/3 wind moment %.9g -> %.9g" % (ta_in, ta_out))
        # without wind the same heights / strengths come back
        h2, p2 = pc.equivalent_layers(h.copy(), p.copy(), L)
        if not (numpy.allclose(h2, hL, rtol=1e-12, equal_nan=True)
                and numpy.allclose(p2, pL, rtol=1e-12)):
            bad.append(tag + ": result differs with / without wind")

if bad:
    print("C18 VIOLATED (equivalent layers):")
    for b in bad:
        print("  " + b)
    sys.exit(1)
print("ok: %d profiles" % len(cases))
sys.exit(0)
