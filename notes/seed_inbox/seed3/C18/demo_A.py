"""
C18 demo A: the moment-conserving compression (GCTM) must return exactly L layers with
non-negative strengths that reproduce the first 2L-1 turbulence moments of the input
profile to optimiser accuracy -- for every profile whose L equal-thickness slabs are all
non-empty, including profiles whose lowest slab holds nothing but the ground layer at
h = 0.
"""
import sys
import warnings
import numpy

warnings.simplefilter("ignore")
from aotools.turbulence import profile_compression as pc

H0 = 1.0e4      # height unit used only to keep the moments of comparable magnitude
TOL = 2e-3      # relative accuracy asked of every one of the 2L-1 moments


def moments(h, p, L):
    return numpy.array([(p * (h / H0) ** k).sum() for k in range(2 * L - 1)])


def slabs_non_empty(h, L):
    edges = h.min() + (h.max() - h.min()) / L * numpy.arange(L)
    ix = numpy.digitize(h, edges)
    return all((ix == i + 1).any() for i in range(L))


profiles = []
# ordinary dense profiles
h = numpy.arange(0, 20000, 500.)
profiles.append(("dense regular, L=3", h, (1 + numpy.cos(h / 3000.) ** 2) * 1e-15, 3))
h = numpy.array([0, 500, 1000, 2000, 4000, 8000, 12000, 16000.])
profiles.append(("irregular, L=3", h, numpy.array([5, 2, 1, 1, 1, 2, 1, .5]) * 1e-14, 3))
# strong ground layer, next layer far above it: the lowest slab holds the ground layer only
h = numpy.array([0, 6000, 7000, 9000, 12000, 15000, 18000.])
profiles.append(("ground layer alone in lowest slab, L=3", h,
                 numpy.array([5, 2, 1, 1, 2, 1, .5]) * 1e-14, 3))
h = numpy.array([0, 5000, 6000, 10000.])
profiles.append(("ground layer alone in lowest slab, L=2", h,
                 numpy.array([6, 1, 2, 1.]) * 1e-14, 2))
h = numpy.array([0, 9000, 10000, 11000, 14000, 16000, 20000, 24000.])
profiles.append(("ground + free atmosphere, L=3", h,
                 numpy.array([8, 1, 2, 1, 1, 1, .5, .5]) * 1e-14, 3))

bad = []
for name, h, p, L in profiles:
    assert slabs_non_empty(h, L), name
    h_in, p_in = h.copy(), p.copy()
    hL, pL = pc.GCTM(h_in, p_in, L)
    hL = numpy.asarray(hL, dtype=float)
    pL = numpy.asarray(pL, dtype=float)
    if hL.shape != (L,) or pL.shape != (L,):
        bad.append("%s: expected %d layers, got %s / %s" % (name, L, hL.shape, pL.shape))
        continue
    if not (numpy.isfinite(hL).all() and numpy.isfinite(pL).all()):
        bad.append("%s: non-finite output %s %s" % (name, hL, pL))
        continue
    if (pL < 0).any():
        bad.append("%s: negative strength %s" % (name, pL))
    m_in = moments(h, p, L)
    m_out = moments(hL, pL, L)
    err = numpy.abs(m_out - m_in) / m_in
    print("%-45s max relative moment error %.2e" % (name, err.max()))
    if err.max() > TOL:
        bad.append("%s: moments not reproduced, relative errors %s (heights %s)"
                   % (name, numpy.array2string(err, precision=3), hL))

if bad:
    print("C18 VIOLATED (moment-conserving compression):")
    for b in bad:
        print("  " + b)
    sys.exit(1)
print("ok")
sys.exit(0)
