"""C06: unseeded screens differ from each other -- checked over a Monte-Carlo sized ensemble of
unseeded finite FFT screens (plain and sub-harmonic); seeded ones stay reproducible in between."""
import sys
import numpy
from aotools.turbulence import phasescreen as ps

N_ENSEMBLE = 3000
failures = []

ref = ps.ft_phase_screen(0.15, 8, 0.05, 30.0, 0.01, seed=77)

for name, fn in (("ft_phase_screen", ps.ft_phase_screen), ("ft_sh_phase_screen", ps.ft_sh_phase_screen)):
    n = N_ENSEMBLE if fn is ps.ft_phase_screen else 300
    seen = {}
    dups = []
    for k in range(n):
        scrn = fn(0.15, 8, 0.05, 30.0, 0.01)          # unseeded
        key = scrn.tobytes()
        if key in seen:
            dups.append((seen[key], k))
        else:
            seen[key] = k
    if dups:
        failures.append("%s: %d of %d unseeded screens are bit-identical copies of an earlier unseeded "
                        "screen (first: call %d == call %d)" % (name, len(dups), n, dups[0][0], dups[0][1]))

# interleaved seeded reproduction must be unaffected by all of the above
if not numpy.array_equal(ref, ps.ft_phase_screen(0.15, 8, 0.05, 30.0, 0.01, seed=77)):
    failures.append("seeded ft_phase_screen not reproducible")
if numpy.array_equal(ref, ps.ft_phase_screen(0.15, 8, 0.05, 30.0, 0.01, seed=78)):
    failures.append("seeds 77 and 78 give the same screen")

if failures:
    print("C06 VIOLATED:")
    for f in failures:
        print("  " + f)
    sys.exit(1)
print("C06 ok: all unseeded screens of the ensemble are distinct")
sys.exit(0)
