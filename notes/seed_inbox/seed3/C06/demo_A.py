"""C06: different seeds give different infinite screens (and equal seeds give equal ones),
for large integer seeds such as nanosecond time stamps or 64-bit hash-derived seeds."""
import sys
import numpy
from aotools.turbulence import infinitephasescreen as ips

failures = []


def history(cls, seed, nrows=6, **kw):
    s = cls(16, 0.1, 0.16, 25.0, random_seed=seed, **kw)
    out = [s.scrn.copy()]
    for _ in range(nrows):
        out.append(s.add_row().copy())
    return numpy.array(out)


# pairs of distinct, perfectly valid integer seeds
seed_pairs = [
    (1234, 1235),                                   # small
    (2**32 + 7, 2**32 + 8),                         # above 32 bit
    (2**53, 2**53 + 1),                             # above 53 bit
    (1727430000123456789, 1727430000123456790),     # consecutive time.time_ns() style stamps
    (2**63 - 1, 2**63 - 2),                         # top of the int64 range
    (0xDEADBEEFCAFEF00D, 0xDEADBEEFCAFEF00C),       # hash-derived 64 bit
    (2**100 + 1, 2**100 + 2),                       # SeedSequence().entropy sized
]

for cls, kw in ((ips.PhaseScreenVonKarman, {}), (ips.PhaseScreenKolmogorov, {"stencil_length_factor": 2})):
    for s1, s2 in seed_pairs:
        h1 = history(cls, s1, **kw)
        h1b = history(cls, s1, **kw)
        h2 = history(cls, s2, **kw)
        if not numpy.array_equal(h1, h1b):
            failures.append("%s: seed %d not reproducible" % (cls.__name__, s1))
        if numpy.array_equal(h1[0], h2[0]):
            failures.append("%s: distinct seeds %d and %d give the SAME initial screen"
                            % (cls.__name__, s1, s2))
        elif any(numpy.array_equal(a, b) for a, b in zip(h1[1:], h2[1:])):
            failures.append("%s: distinct seeds %d and %d give identical added rows"
                            % (cls.__name__, s1, s2))

if failures:
    print("C06 VIOLATED:")
    for f in failures:
        print("  " + f)
    sys.exit(1)
print("C06 ok: distinct seeds -> distinct screens, equal seeds -> equal screens")
sys.exit(0)
