"""
C04 demo A: the innovation matrix B must carry the whole conditional covariance.

For a set of in-domain configurations (both infinite-screen variants, ordinary and finely sampled
screens, i.e. pixel scale much smaller than the outer scale) this program

  1. computes the theoretical von Karman covariance at the true pixel separations on its own,
  2. checks   A Czz = Cxz   and   A Czz A^T + B B^T = Cxx ,  the second one measured against the size
     of the conditional covariance  Cxx - A Czz A^T  (NOT against the much larger phase variance),
  3. draws many new rows for one fixed screen content through the public get_new_row() and checks that
     the sample covariance of the rows has the spectrum of the theoretical conditional covariance
     (no direction of the new row may be left without innovation).

Exit 0 if everything holds, 1 otherwise.
"""
import sys
import numpy
from scipy import linalg
from scipy.special import gamma, kv
from aotools.turbulence import infinitephasescreen as ips


def vk_cov(r, r0, L0):
    """Assemat & Wilson 2006, eq. 5, with the r -> 0 limit taken analytically."""
    r = numpy.asarray(r, dtype=float)
    x = 2 * numpy.pi * r / L0
    c = numpy.full(r.shape, gamma(5. / 6) / 2 ** (1. / 6))
    nz = x > 0
    c[nz] = x[nz] ** (5. / 6) * kv(5. / 6, x[nz])
    return ((L0 / r0) ** (5. / 3) * 2 ** (-5. / 6) * gamma(11. / 6) / numpy.pi ** (8. / 3)
            * ((24. / 5) * gamma(6. / 5)) ** (5. / 6) * c)


def theory(scrn):
    """Covariance blocks from the stencil geometry: stencil pixel (i, j), new row at i = -1."""
    zc = numpy.asarray(scrn.stencil_coords, dtype=float)
    xc = numpy.stack([-numpy.ones(scrn.nx_size), numpy.arange(scrn.nx_size)], axis=1)
    pos = numpy.concatenate([zc, xc]) * scrn.pixel_scale
    d = pos[:, None, :] - pos[None, :, :]
    cov = vk_cov(numpy.hypot(d[..., 0], d[..., 1]), scrn.r0, scrn.L0)
    n = len(zc)
    return cov[:n, :n], cov[n:, :n], cov[n:, n:]


CONFIGS = [
    # (class, kwargs, nx, pixel_scale, r0, L0)
    (ips.PhaseScreenVonKarman, dict(n_columns=2), 16, 0.1, 0.2, 20.),
    (ips.PhaseScreenKolmogorov, dict(stencil_length_factor=2), 17, 0.05, 0.15, 25.),
    (ips.PhaseScreenVonKarman, dict(n_columns=4), 32, 4. / 64, 0.2, 50.),
    (ips.PhaseScreenVonKarman, dict(n_columns=2), 16, 0.002, 0.1, 40.),     # 2 mm pixels, L0 = 40 m
    (ips.PhaseScreenVonKarman, dict(n_columns=3), 24, 0.001, 0.15, 25.),    # 1 mm pixels, L0 = 25 m
    (ips.PhaseScreenKolmogorov, dict(stencil_length_factor=2), 17, 0.002, 0.12, 50.),
    (ips.PhaseScreenKolmogorov, dict(stencil_length_factor=1), 20, 0.001, 0.2, 30.),   # padded to 33
]

failures = []
for cls, kw, nx, ps, r0, L0 in CONFIGS:
    tag = "%s(nx=%d, pixel_scale=%g, r0=%g, L0=%g, %s)" % (cls.__name__, nx, ps, r0, L0, kw)
    scrn = cls(nx, ps, r0, L0, random_seed=12345, **kw)
    czz, cxz, cxx = theory(scrn)
    A, B = scrn.A_mat, scrn.B_mat

    res_a = numpy.abs(A.dot(czz) - cxz).max() / numpy.abs(cxx).max()
    # what B B^T has to reproduce: the conditional covariance, computed here independently of A_mat
    cond_cov = cxx - cxz.dot(linalg.cho_solve(linalg.cho_factor(czz), cxz.T))
    scale = numpy.abs(cond_cov).max()
    res_b = numpy.abs(A.dot(czz).dot(A.T) + B.dot(B.T) - cxx).max() / scale
    print("%s\n    |A Czz - Cxz| / |Cxx| = %.2e    |A Czz A^T + B B^T - Cxx| / |Cxx - A Czz A^T| = %.2e"
          % (tag, res_a, res_b))
    if not res_a < 1e-6:
        failures.append("%s: A Czz != Cxz (relative residual %.2e)" % (tag, res_a))
    if not res_b < 1e-2:
        failures.append("%s: A Czz A^T + B B^T != Cxx; the mismatch is %.1f%% of the conditional covariance"
                        % (tag, 100 * res_b))

    # Behaviour through the public API: rows drawn for one frozen screen content
    n_draws = 6000
    rows = numpy.array([scrn.get_new_row()[0] for _ in range(n_draws)])
    sample = numpy.cov(rows.T)
    w_theory = numpy.linalg.eigvalsh((cond_cov + cond_cov.T) / 2)
    w_sample = numpy.linalg.eigvalsh(sample)
    ratio = w_sample[0] / w_theory[0]
    total = w_sample.sum() / w_theory.sum()
    print("    sampled rows: smallest innovation eigenvalue / theory = %.3f, total innovation power / theory = %.3f"
          % (ratio, total))
    if not (0.7 < ratio < 1.3):
        failures.append("%s: the weakest direction of the new row carries %.3f of its theoretical innovation "
                        "variance (sampled over %d rows)" % (tag, ratio, n_draws))
    if not (0.9 < total < 1.1):
        failures.append("%s: the new rows carry %.3f of the theoretical innovation power" % (tag, total))

if failures:
    print("\nC04 VIOLATED:")
    for f in failures:
        print("  - " + f)
    sys.exit(1)
print("\nC04 holds on all configurations")
sys.exit(0)
