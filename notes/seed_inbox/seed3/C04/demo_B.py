"""
C04 demo B: the innovation vector b of every new row must be unit-normal AND independent of the phase
that is already in the screen -- otherwise Cov(X, Z) = A Cov(Z, Z) + B Cov(b, Z) is not the von Karman
covariance and the joint statistics of old and new phase are not stationary.

For many seeded screens (both variants) the program extrudes a number of rows.  Before each step it records
the old screen, after the step it recovers the innovation actually used,

        b = B^-1 (X - A Z)      (Z: stencil values, relative to the reference pixel for the Fried variant)

and accumulates the sample correlation between every component of b and every pixel of the old screen over
the ensemble of seeds.  Under the property all these correlations are zero up to sampling noise; the size of that noise is
calibrated by pairing the innovations of one seed with the screens of another seed (permutations).
The innovations themselves must have zero mean and unit variance.

Exit 0 if the statistics are as the property demands, 1 otherwise.
"""
import sys
import numpy
from aotools.turbulence import infinitephasescreen as ips


def run(cls, kw, nx, ps, r0, L0, n_seeds, n_steps, fried):
    old_rec = [[] for _ in range(n_steps)]
    b_rec = [[] for _ in range(n_steps)]
    for seed in range(1, n_seeds + 1):
        scrn = cls(nx, ps, r0, L0, random_seed=seed, **kw)
        rows, cols = scrn.stencil_coords[:, 0], scrn.stencil_coords[:, 1]
        for k in range(n_steps):
            old = scrn._scrn.copy()             # the whole working array (the Fried stencil reaches past .scrn)
            z = old[rows, cols]
            ref = old[1, 1] if fried else 0.
            scrn.add_row()
            x = scrn._scrn[0]
            b = numpy.linalg.solve(scrn.B_mat, x - ref - scrn.A_mat.dot(z - ref))
            old_rec[k].append(old.ravel())
            b_rec[k].append(b)
    return numpy.array(old_rec), numpy.array(b_rec)      # (step, seed, pixel), (step, seed, component)


def analyse(tag, old, b, failures):
    n_steps, n_seeds, n_b = b.shape
    mean = b.mean(axis=(0, 1)) * numpy.sqrt(n_steps * n_seeds)          # ~ N(0, 1) per component
    var = b.var()
    print("%s\n    innovations: variance %.4f, largest standardised mean %.2f" % (tag, var, numpy.abs(mean).max()))
    if not (0.95 < var < 1.05) or numpy.abs(mean).max() > 5:
        failures.append("%s: innovations are not zero-mean unit-variance (variance %.4f)" % (tag, var))

    def statistic(bb):
        total, worst = 0., (0., None)
        for k in range(n_steps):
            bs = (bb[k] - bb[k].mean(0)) / bb[k].std(0)
            os_ = (old[k] - old[k].mean(0)) / old[k].std(0)
            corr = bs.T.dot(os_) / n_seeds                                # (component, pixel)
            total += n_seeds * (corr ** 2).sum()
            if numpy.abs(corr).max() > worst[0]:
                i, j = numpy.unravel_index(numpy.abs(corr).argmax(), corr.shape)
                worst = (numpy.abs(corr).max(), (k + 1, i, j))
        return total, worst

    stat, worst = statistic(b)
    # null distribution of the same statistic: pair the innovations with the screens of OTHER seeds
    shuffler = numpy.random.default_rng(2024)
    null = numpy.array([statistic(b[:, shuffler.permutation(n_seeds)])[0] for _ in range(40)])
    z = (stat - null.mean()) / null.std(ddof=1)
    print("    innovation vs old phase: sum of n*corr^2 = %.0f, for innovations paired with foreign screens it is "
          "%.0f +- %.0f  ->  %.1f sigma; largest |corr| = %.3f at step %d, component %d, old pixel %d"
          % ((stat, null.mean(), null.std(ddof=1), z, worst[0]) + worst[1]))
    # a single correlation of 0.3 is 6.7 standard errors for 500 seeds
    if z > 8 or worst[0] > 0.3:
        failures.append("%s: the innovations are correlated with the phase already in the screen "
                        "(%.1f sigma; largest correlation %.3f at step %d between innovation component %d "
                        "and old pixel %d)" % ((tag, z, worst[0]) + worst[1]))


failures = []
old, b = run(ips.PhaseScreenVonKarman, dict(n_columns=2), 8, 0.25, 0.2, 20., n_seeds=500, n_steps=8, fried=False)
analyse("PhaseScreenVonKarman(8, 0.25, 0.2, 20, random_seed=1..500, n_columns=2), 8 rows", old, b, failures)
old, b = run(ips.PhaseScreenKolmogorov, dict(stencil_length_factor=2), 6, 0.25, 0.2, 20., n_seeds=500, n_steps=22,
             fried=True)
analyse("PhaseScreenKolmogorov(6, 0.25, 0.2, 20, random_seed=1..500, stencil_length_factor=2), 22 rows", old, b,
        failures)

if failures:
    print("\nC04 VIOLATED:")
    for f in failures:
        print("  - " + f)
    sys.exit(1)
print("\nC04 holds: innovations are unit-normal and uncorrelated with the old phase")
sys.exit(0)
