"""
C08 demo B: the closed-form von Karman statistics for separations handed over as single-precision (float32)
numbers / arrays -- the form coordinate grids of large screens usually come in.

Checked clauses:
  1. D(r) = 2 * (B(0) - B(r))  (slope-covariance structure function vs turb.phase_covariance)
  2. B(0) is the variance 0.0863 (L0/r0)^(5/3), also for very large L0
  3. every matrix of phase covariances between points is positive semi-definite
The separations used are exactly representable in float32 (multiples of 2**-9 m), so the float32 arrays describe
exactly the same geometry as their float64 copies.
"""
import sys
import warnings
import numpy as np

from aotools.turbulence.turb import phase_covariance
from aotools.turbulence.slopecovariance import structure_function_vk

warnings.simplefilter("ignore")
failures = []
h = 2.0 ** -9          # 1.953125 mm, exact in float32

# ---- 1. structure function against 2 (B(0) - B(r)) ------------------------------------------------------------
for r0, L0 in ((0.1, 25.), (0.15, 100.), (0.05, 10.)):
    r64 = h * np.arange(0, 200, dtype=np.float64)
    for dtype in (np.float64, np.float32):
        r = r64.astype(dtype)
        assert np.all(r.astype(np.float64) == r64)       # same separations
        B = np.asarray(phase_covariance(r, r0, L0), dtype=np.float64)
        D_from_B = 2 * (B[0] - B)
        D = structure_function_vk(r64, r0, L0)
        # the constants of the two closed forms differ by 6e-4; allow 2e-3 of D plus rounding of B(0) in double
        tol = 2e-3 * D + 1e-12 * B[0]
        bad = np.abs(D_from_B - D) > tol
        if bad.any():
            k = int(np.argmax(np.abs(D_from_B - D) / np.maximum(D, 1e-300) * bad))
            failures.append(
                "r0=%g L0=%g %s separations: 2(B(0)-B(r)) = %.6g but D(r) = %.6g at r = %.6g m (%d of %d points off)"
                % (r0, L0, np.dtype(dtype).name, D_from_B[k], D[k], r64[k], bad.sum(), bad.size))
        if np.any(np.diff(D_from_B) < -1e-12 * B[0]):
            failures.append("r0=%g L0=%g %s separations: 2(B(0)-B(r)) is not non-decreasing in r"
                            % (r0, L0, np.dtype(dtype).name))

# ---- 2. variance at zero separation ---------------------------------------------------------------------------
for L0 in (1., 1e3, 1e7):
    for zero in (0.0, np.float32(0.0), np.zeros(3, dtype=np.float32)):
        var = np.asarray(phase_covariance(zero, 0.1, L0), dtype=np.float64)
        expect = 0.0863 * (L0 / 0.1) ** (5. / 3)
        if not np.all(np.abs(var - expect) <= 2e-3 * expect):
            failures.append("B(0) for r0=0.1 L0=%g with zero of type %s is %s, expected %.6g"
                            % (L0, type(zero).__name__ + (":" + str(zero.dtype) if hasattr(zero, "dtype") else ""),
                               var, expect))

# ---- 3. positive semi-definiteness ----------------------------------------------------------------------------
def min_eig_ratio(sep, r0, L0):
    C = np.asarray(phase_covariance(sep, r0, L0), dtype=np.float64)
    C = 0.5 * (C + C.T)
    w = np.linalg.eigvalsh(C)
    return w[0] / w[-1], w[0]

r0, L0 = 0.1, 100.
# collinear points k * h: all separations exact in float32
x = h * np.arange(120, dtype=np.float64)
sep_line = np.abs(x[:, None] - x[None, :])
# 12 x 12 grid of points, spacing h
gx, gy = np.meshgrid(h * np.arange(12, dtype=np.float32), h * np.arange(12, dtype=np.float32))
px, py = gx.ravel(), gy.ravel()
sep_grid32 = np.sqrt((px[:, None] - px[None, :]) ** 2 + (py[:, None] - py[None, :]) ** 2)      # float32
for name, sep in (("line, float64 separations", sep_line),
                  ("line, float32 separations", sep_line.astype(np.float32)),
                  ("grid, float64 separations", sep_grid32.astype(np.float64)),
                  ("grid, float32 separations", sep_grid32)):
    ratio, w0 = min_eig_ratio(sep, r0, L0)
    print("PSD check %-28s smallest eigenvalue %.3e (ratio to largest %.2e)" % (name, w0, ratio))
    if ratio < -1e-12:
        failures.append("covariance matrix (%s, r0=%g, L0=%g) is not positive semi-definite: "
                        "smallest eigenvalue %.3e" % (name, r0, L0, w0))

if failures:
    print("FAIL")
    for f in failures:
        print("  " + f)
    sys.exit(1)
print("OK")
sys.exit(0)
