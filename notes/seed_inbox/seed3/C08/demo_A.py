"""
C08 demo A: the von Karman structure function used inside the Karhunen-Loeve kernel must be the same function as
the one used by the slope-covariance code (and as 2*(B(0) - B(r)) of turb.phase_covariance), whatever accepted
tag ('vonKarman', 'karman', 'vk') the caller selects it with.

The KL kernel L[i, j, :] is (a constant times) the FFT over the azimuth of D(|x_i - x_j(theta)| / 2), so the
structure function samples the kernel was built from can be read back with an inverse FFT and compared with the
closed forms.
"""
import sys
import numpy as np

from aotools.functions import karhunenLoeve as KL
from aotools.turbulence.slopecovariance import structure_function_vk
from aotools.turbulence.turb import phase_covariance

failures = []


def check(ri, nr, outerscale, tag):
    rad = KL.gkl_radii(ri, nr)
    kernel = KL.gkl_kernel(ri, nr, rad, tag, outerscale)
    nth = kernel.shape[2]
    fnorm = 1. / 2. * (-1) / (2 * np.pi * (1 - ri ** 2))
    theta = np.arange(nth) * 2 * np.pi / nth
    worst = 0.
    for i in range(nr):
        for j in range(i + 1):
            # structure function samples behind the kernel
            sf = np.fft.ifft(kernel[i, j, :] / (fnorm * 2 * np.pi / nth)).real
            # separations (pupil radius units -> diameter units)
            d2 = rad[i] ** 2 + rad[j] ** 2 - 2 * rad[i] * rad[j] * np.cos(theta)
            sep = 0.5 * np.sqrt(np.maximum(d2, 0))
            ref = structure_function_vk(sep, 1.0, outerscale)
            ref2 = 2 * (phase_covariance(0., 1.0, outerscale) - phase_covariance(sep, 1.0, outerscale))
            # saturation value (the two closed forms carry constants that differ by 6e-4, hence the looser bound below)
            scale = 0.17253 * outerscale ** (5. / 3)
            err = np.abs(sf - ref).max() / scale
            err2 = np.abs(sf - ref2).max() / scale
            worst = max(worst, err)
            if err > 1e-9 or err2 > 2e-3:
                failures.append(
                    "tag=%r ri=%g nr=%d L0=%g (i=%d,j=%d): KL structure function differs from the slope-covariance "
                    "copy by %.3g and from 2(B(0)-B(r)) by %.3g (fractions of the saturation value)"
                    % (tag, ri, nr, outerscale, i, j, err, err2))
                return worst
            if sf.min() < -1e-9 * scale:
                failures.append("tag=%r L0=%g: negative structure function %.3g in the KL kernel"
                                % (tag, outerscale, sf.min()))
                return worst
            if i == j and abs(sf[0]) > 1e-9 * scale:
                failures.append("tag=%r L0=%g: D(0) = %.3g != 0 in the KL kernel" % (tag, outerscale, sf[0]))
                return worst
    return worst


for tag in ('vonKarman', 'vk', 'karman'):
    for (ri, nr, L0) in ((0.25, 8, 1.0), (0.1, 6, 3.0), (0.3, 10, 20.0), (0.2, 7, 0.5)):
        w = check(ri, nr, L0, tag)
        print("tag=%-10r ri=%-5g nr=%-3d L0=%-5g  max |D_KL - D_slopecov| / D_sat = %.3g" % (tag, ri, nr, L0, w))

# all von Karman tags must give the same kernel
rad = KL.gkl_radii(0.2, 6)
k_ref = KL.gkl_kernel(0.2, 6, rad, 'vonKarman', 2.0)
for tag in ('vk', 'karman'):
    k = KL.gkl_kernel(0.2, 6, rad, tag, 2.0)
    if not np.allclose(k, k_ref, rtol=1e-12, atol=1e-14):
        failures.append("kernel for tag %r differs from the kernel for 'vonKarman' (max diff %.3g)"
                        % (tag, np.abs(k - k_ref).max()))

if failures:
    print("FAIL")
    for f in failures:
        print("  " + f)
    sys.exit(1)
print("OK")
sys.exit(0)
