"""C18 demo B: optimal_grouping must, for EVERY profile it is given (whatever was compressed
before in the same process and whatever the state of numpy's global RNG), return exactly L
layers of non-negative strength that conserve the total Cn2, keep every input layer in exactly
one contiguous group, sit at input heights in increasing order, and cost no more than the plain
equal split of the profile."""
import sys
import numpy
from aotools.turbulence.profile_compression import optimal_grouping

failures = []


def group_cost(h, p, lo, hi, x):
    return (p[lo:hi] * numpy.abs(h[lo:hi] - x)).sum()


def best_cost(h, p, lo, hi):
    return min(group_cost(h, p, lo, hi, x) for x in h[lo:hi])


def check(name, h, p, L, R):
    N = len(h)
    h_L, c_L = optimal_grouping(R, L, h, p)
    h_L = numpy.asarray(h_L, dtype=float)
    c_L = numpy.asarray(c_L, dtype=float)
    if len(h_L) != L or len(c_L) != L:
        failures.append("%s: expected %d layers, got %d heights / %d strengths" % (name, L, len(h_L), len(c_L)))
        return
    if not (c_L >= 0).all():
        failures.append("%s: negative layer strength" % name)
    if abs(c_L.sum() - p.sum()) > 1e-12 * p.sum():
        failures.append("%s: total Cn2 not conserved (in %.15g, out %.15g)" % (name, p.sum(), c_L.sum()))
    if not numpy.isin(h_L, h).all():
        failures.append("%s: output heights %r are not input heights" % (name, h_L))
        return
    if L > 1 and not (numpy.diff(h_L) > 0).all():
        failures.append("%s: output heights not increasing: %r" % (name, h_L))

    # recover the contiguous groups from the output strengths: no layer dropped, none used twice
    cs = numpy.cumsum(p)
    edges = [0]
    for t in numpy.cumsum(c_L):
        k = int(numpy.argmin(numpy.abs(cs - t)))
        if abs(cs[k] - t) > 1e-9 * cs[-1]:
            failures.append("%s: output strengths are not sums of contiguous input layers" % name)
            return
        edges.append(k + 1)
    if edges[-1] != N or not (numpy.diff(edges) > 0).all():
        failures.append("%s: groups %r do not partition the %d input layers" % (name, edges, N))
        return

    cost_out = sum(group_cost(h, p, edges[g], edges[g + 1], h_L[g]) for g in range(L))
    eq = numpy.linspace(0, N, L + 1).astype(int)
    eq_edges = [0] + [int(s) + 1 for s in eq[1:-1]] + [N]
    cost_eq = sum(best_cost(h, p, eq_edges[g], eq_edges[g + 1]) for g in range(L))
    if cost_out > cost_eq * (1 + 1e-9):
        failures.append("%s: cost of returned grouping %.6g is WORSE than the equal split %.6g (groups end at %r)"
                        % (name, cost_out, cost_eq, edges[1:]))


numpy.random.seed(2024)              # the library draws its random restarts from the global RNG
rng = numpy.random.RandomState(99)   # the demo's own generator for building profiles

N = 30
h = numpy.linspace(0., 20000., N)

# a night's worth of profiles on the same height grid, compressed one after another
ground = numpy.exp(-h / 1500.) + 0.002                       # boundary-layer dominated
jet = numpy.exp(-0.5 * ((h - 12000.) / 1500.) ** 2) + 0.002  # jet-stream dominated
profiles = [("ground-dominated", ground * 1e-13), ("jet-dominated", jet * 1e-13)]
for k in range(6):
    profiles.append(("random #%d" % k, rng.uniform(0.01, 1., N) ** 3 * 1e-13))
profiles.append(("mixed", (0.3 * ground + jet) * 1e-13))

for L in (1, 2, 4, 7):
    for name, p in profiles:
        check("N=%d L=%d %s" % (N, L, name), h, p, L, R=2)

# irregular heights, various sizes
for trial in range(8):
    n = rng.randint(4, 25)
    L = rng.randint(1, n)
    hh = numpy.sort(rng.uniform(0., 20000., n))
    pp = rng.uniform(0.01, 1., n) * 1e-13
    check("irregular #%d N=%d L=%d" % (trial, n, L), hh, pp, L, R=1)

if failures:
    print("C18 VIOLATED (optimal_grouping):")
    for f in failures:
        print("  -", f)
    sys.exit(1)
print("C18 demo B: all optimal_grouping checks passed")
sys.exit(0)
