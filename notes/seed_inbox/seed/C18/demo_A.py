"""C18 demo A: equivalent_layers must conserve total Cn2, the 5/3 height moment and the
5/3 wind moment, return exactly L non-negative layers and never drop/duplicate an input layer
-- also for irregular profiles whose layers leave one of the L altitude slabs empty."""
import sys
import warnings
import numpy
from aotools.turbulence.profile_compression import equivalent_layers

warnings.simplefilter("ignore")          # an empty slab legitimately gives 0/0 for its (unused) height
failures = []


def check(name, h, p, w, L):
    h_L, c_L, w_L = equivalent_layers(h, p, L, w=w)
    h_L2, c_L2 = equivalent_layers(h, p, L)
    for tag, hh, cc in (("with wind", h_L, c_L), ("no wind", h_L2, c_L2)):
        if len(hh) != L or len(cc) != L:
            failures.append("%s [%s]: expected %d layers, got %d/%d" % (name, tag, L, len(hh), len(cc)))
            return
        if not (numpy.asarray(cc) >= 0).all():
            failures.append("%s [%s]: negative / NaN layer strength %r" % (name, tag, cc))
        tot_in, tot_out = p.sum(), numpy.sum(cc)
        if abs(tot_out - tot_in) > 1e-12 * tot_in:
            failures.append("%s [%s]: total Cn2 not conserved: in %.15g out %.15g (ratio %.6f)"
                            % (name, tag, tot_in, tot_out, tot_out / tot_in))
        live = numpy.asarray(cc) > 0       # layers of zero strength carry no turbulence
        m_in = (p * h ** (5 / 3)).sum()
        m_out = (numpy.asarray(cc)[live] * numpy.asarray(hh)[live] ** (5 / 3)).sum()
        if abs(m_out - m_in) > 1e-10 * m_in:
            failures.append("%s [%s]: 5/3 height moment (isoplanatic angle) not conserved: in %.12g out %.12g"
                            % (name, tag, m_in, m_out))
    if len(w_L) != L:
        failures.append("%s: expected %d wind values, got %d" % (name, L, len(w_L)))
        return
    live = c_L > 0
    v_in = (p * w ** (5 / 3)).sum()
    v_out = (c_L[live] * w_L[live] ** (5 / 3)).sum()
    if abs(v_out - v_in) > 1e-10 * v_in:
        failures.append("%s: 5/3 wind moment (coherence time) not conserved: in %.12g out %.12g" % (name, v_in, v_out))


rng = numpy.random.RandomState(1234)

# 1. regular, dense profiles (the textbook use)
for N, L in ((100, 5), (100, 7), (35, 3), (35, 10), (12, 11), (2, 1)):
    h = numpy.linspace(0., 25000., N)
    p = rng.uniform(0.1, 1.0, N) * 1e-15
    w = rng.uniform(3., 40., N)
    check("regular N=%d L=%d" % (N, L), h, p, w, L)

# 2. irregular random heights
for trial in range(20):
    N = rng.randint(3, 40)
    L = rng.randint(1, N)
    h = numpy.sort(rng.uniform(0., 20000., N))
    p = rng.uniform(0.01, 1.0, N) * 1e-15
    w = rng.uniform(1., 50., N)
    check("irregular #%d N=%d L=%d" % (trial, N, L), h, p, w, L)

# 3. realistic sparse profiles: a cluster of boundary-layer layers plus a few high-altitude
#    layers, so that some of the L equal-thickness slabs contain no layer at all
h = numpy.array([0., 100., 300., 600., 1000., 9000., 11000., 14000., 16000.])
p = numpy.array([40., 12., 8., 5., 3., 9., 11., 7., 5.]) * 1e-15
w = numpy.array([5., 6., 7., 8., 9., 25., 32., 20., 12.])
for L in (2, 3, 4, 5, 6, 7, 8):
    check("sparse 9-layer profile L=%d" % L, h, p, w, L)

h = numpy.array([0., 200., 500., 12000., 12500.])
p = numpy.array([5., 2., 1., 3., 1.]) * 1e-14
w = numpy.array([4., 6., 9., 30., 28.])
for L in (2, 3, 4):
    check("two-cluster profile L=%d" % L, h, p, w, L)

if failures:
    print("C18 VIOLATED (equivalent_layers):")
    for f in failures:
        print("  -", f)
    sys.exit(1)
print("C18 demo A: all equivalent_layers conservation checks passed")
sys.exit(0)
