"""
C02 demo A: the tomographic reconstructor must be the minimum-variance linear estimator on the retained
singular subspace, for every conditioning value and every (PSD) covariance matrix - whatever its overall scale.

For a PSD matrix C partitioned into on-axis (first 2*n rows/cols) and off-axis parts, and a conditioning c, the
retained subspace is spanned by the singular vectors of C_off,off whose singular value exceeds c * s_max.
The reconstructor R = create_tomographic_covariance_reconstructor(C, n, c) must
   (1) satisfy the normal equations there:         R C_off,off V_keep == C_on,off V_keep
   (2) give no weight to the filtered modes:       R V_drop == 0
   (3) hence reach the same expected squared residual as the reference truncated least-squares estimator.
Slope covariances are proportional to wavelength**2 (~1e-13) so nothing may depend on the absolute scale of C.

exit 0: property holds, exit 1: property violated
"""
import sys

import numpy

from aotools.turbulence.slopecovariance import create_tomographic_covariance_reconstructor


def random_psd(rng, size, scale):
    # full rank PSD matrix with a spectrum spread over ~4 decades
    q, _ = numpy.linalg.qr(rng.standard_normal((size, size)))
    spectrum = 10. ** numpy.linspace(0, -4, size)
    return scale * (q * spectrum).dot(q.T)


def residual_variance(C, n2, R):
    c_onon = C[:n2, :n2]
    c_onoff = C[:n2, n2:]
    c_offoff = C[n2:, n2:]
    return numpy.trace(c_onon - R.dot(c_onoff.T) - c_onoff.dot(R.T) + R.dot(c_offoff).dot(R.T))


def check(C, n_onaxis, k_keep, label):
    """k_keep: number of singular modes of C_off,off that the conditioning is chosen to retain"""
    n2 = 2 * n_onaxis
    c_onoff = C[:n2, n2:]
    c_offoff = C[n2:, n2:]

    u, s, vt = numpy.linalg.svd(c_offoff)
    if k_keep >= len(s):
        conditioning = 0.
        k_keep = len(s)
    else:
        # relative threshold that sits in the middle (log-wise) of the gap between mode k_keep-1 and k_keep
        conditioning = numpy.sqrt(s[k_keep - 1] * s[k_keep]) / s[0]
    v_keep = vt[:k_keep].T
    v_drop = vt[k_keep:].T

    R = create_tomographic_covariance_reconstructor(C.copy(), n_onaxis, conditioning)

    failures = []
    ref = numpy.abs(c_onoff).max()

    # (1) normal equations on retained subspace
    err_normal = numpy.abs(R.dot(c_offoff).dot(v_keep) - c_onoff.dot(v_keep)).max() / ref
    if not err_normal < 1e-6:
        failures.append("normal equations violated on retained subspace (rel. err {:.3g})".format(err_normal))

    # (2) no weight on filtered modes (compare with the size of R expected from the retained part)
    R_ref = c_onoff.dot(v_keep).dot(numpy.diag(1. / s[:k_keep])).dot(u[:, :k_keep].T)
    if v_drop.shape[1]:
        leak = numpy.abs(R.dot(v_drop)).max() / max(numpy.abs(R_ref).max(), 1e-300)
        if not leak < 1e-6:
            failures.append("reconstructor gives weight to filtered modes (rel. leak {:.3g})".format(leak))

    # (3) expected squared residual equals that of the minimum variance estimator on that subspace
    var_R = residual_variance(C, n2, R)
    var_ref = residual_variance(C, n2, R_ref)
    if not abs(var_R - var_ref) <= 1e-6 * numpy.trace(C[:n2, :n2]):
        failures.append("expected squared residual {:.6g} differs from minimum-variance value {:.6g}".format(
                var_R, var_ref))

    for f in failures:
        print("FAIL [{}; n_onaxis={}, conditioning={:.3g}, modes kept={}/{}]: {}".format(
                label, n_onaxis, conditioning, k_keep, len(s), f))
    return len(failures)


def main():
    rng = numpy.random.default_rng(20240)
    n_fail = 0
    n_checks = 0
    for scale in (1., 1e-13, 1e-6, 1e4):
        for total_subaps, n_onaxis in ((12, 3), (15, 4), (9, 1)):
            C = random_psd(rng, 2 * total_subaps, scale)
            n_off = 2 * (total_subaps - n_onaxis)
            for k_keep in (n_off, n_off - 1, n_off // 2, 2):
                n_fail += check(C, n_onaxis, k_keep, "scale {:g}".format(scale))
                n_checks += 1

    if n_fail:
        print("{} property violations in {} checks".format(n_fail, n_checks))
        return 1
    print("OK: reconstructor is minimum-variance on the retained subspace for all {} cases".format(n_checks))
    return 0


if __name__ == "__main__":
    sys.exit(main())
