"""
C02 demo B: end-to-end check of the tomographic reconstructor built from the slope covariance builder.

If the on-axis (first) WFS duplicates one of the off-axis WFSs - same guide star direction and altitude, same pupil
mask, same sub-aperture size and wavelength - the minimum-variance estimate of the on-axis slopes is simply the slopes
of that WFS: R must be [ I | 0 | 0 ... ], i.e. identity on the duplicated WFS and zero weight on all the others, and
the expected squared residual E|s_on - R s_off|^2 must vanish.  This must hold for every sensor geometry, in
particular whatever the pupil masks (and hence the number of sub-apertures) of the *other* WFSs are.

exit 0: property holds, exit 1: property violated
"""
import sys

import numpy

import aotools
from aotools.turbulence.slopecovariance import CovarianceMatrix

TOL = 2e-3   # covariance matrices are built in float32; observed error on a correct build is ~1e-5

LAYER_ALTITUDES = numpy.array([0., 4000., 10000.])
LAYER_R0S = [0.2, 0.4, 0.5]
LAYER_L0S = [25., 25., 30.]


def check(label, masks, telescope_diameter, subap_diameters, gs_altitudes, gs_positions, wavelengths, threads=1):
    """WFS 0 (on-axis) is a duplicate of WFS 1"""
    n_wfs = len(masks)
    cm = CovarianceMatrix(
            n_wfs, masks, telescope_diameter, subap_diameters, gs_altitudes, gs_positions, wavelengths,
            len(LAYER_ALTITUDES), LAYER_ALTITUDES, LAYER_R0S, LAYER_L0S, threads)
    C = cm.make_covariance_matrix()
    R = cm.make_tomographic_reconstructor()

    n_on = int(masks[0].sum())
    counts = [int(m.sum()) for m in masks]
    n_off = 2 * sum(counts[1:])

    failures = []
    if R.shape != (2 * n_on, n_off):
        failures.append("reconstructor has shape {} instead of {}".format(R.shape, (2 * n_on, n_off)))
    else:
        expected = numpy.zeros((2 * n_on, n_off))
        expected[:, :2 * n_on] = numpy.identity(2 * n_on)

        err_identity = numpy.abs(R[:, :2 * n_on] - expected[:, :2 * n_on]).max()
        err_others = numpy.abs(R[:, 2 * n_on:]).max()
        if not err_identity < TOL:
            failures.append("R does not reproduce the duplicated WFS (max |R_dup - I| = {:.3g})".format(err_identity))
        if not err_others < TOL:
            failures.append("R gives weight to the other WFSs (max |R_other| = {:.3g})".format(err_others))

        # expected squared residual of the estimate, relative to the on-axis slope variance
        C64 = C.astype("float64")
        R64 = R.astype("float64")
        c_onon = C64[:2 * n_on, :2 * n_on]
        c_onoff = C64[:2 * n_on, 2 * n_on:]
        c_offoff = C64[2 * n_on:, 2 * n_on:]
        resid = numpy.trace(c_onon - R64.dot(c_onoff.T) - c_onoff.dot(R64.T) + R64.dot(c_offoff).dot(R64.T))
        rel_resid = resid / numpy.trace(c_onon)
        if not abs(rel_resid) < TOL:
            failures.append("expected squared residual is {:.3g} of the on-axis slope variance, not 0".format(rel_resid))

    status = "FAIL" if failures else "ok"
    print("{:4s} {} (sub-apertures per WFS: {})".format(status, label, counts))
    for f in failures:
        print("       " + f)
    return len(failures)


def main():
    nx = 6
    telescope_diameter = 4.2
    d = telescope_diameter / nx
    circ = aotools.circle(3, nx)       # 32 sub-apertures
    small = aotools.circle(2.2, nx)    # 16 sub-apertures
    full = numpy.ones((nx, nx))        # 36 sub-apertures
    directions = [[5, 3], [5, 3], [-20, 10], [0, -25]]

    n_fail = 0
    n_fail += check("all WFSs alike, NGS",
                    [circ, circ, circ, circ], telescope_diameter, [d] * 4, [0] * 4, directions, [600e-9] * 4)
    n_fail += check("other WFSs with different pupil masks, NGS",
                    [circ, circ, full, small], telescope_diameter, [d] * 4, [0] * 4, directions, [600e-9] * 4)
    n_fail += check("other WFSs with different masks and wavelengths, LGS",
                    [small, small, full, circ], telescope_diameter, [d] * 4, [90000] * 4, directions,
                    [600e-9, 600e-9, 500e-9, 700e-9])
    n_fail += check("3 WFSs, third one with a coarser sub-aperture grid",
                    [circ, circ, aotools.circle(1.5, 3)], telescope_diameter, [d, d, 2 * d], [0] * 3,
                    directions[:3], [600e-9] * 3)
    n_fail += check("other WFSs with different pupil masks, 2 processes",
                    [circ, circ, small, full], telescope_diameter, [d] * 4, [0] * 4, directions, [600e-9] * 4,
                    threads=2)

    if n_fail:
        print("{} property violations".format(n_fail))
        return 1
    print("OK: duplicated on-axis WFS is reproduced exactly for all geometries")
    return 0


if __name__ == "__main__":
    sys.exit(main())
