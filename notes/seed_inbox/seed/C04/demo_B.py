"""
C04 demo B: the Fried-stencil screen (PhaseScreenKolmogorov) must extrude rows with the exact conditional
von Karman law for EVERY requested size -- also sizes that are not 2^n + 1 and are therefore padded
internally to the next allowed size.

For each requested size we follow the full internal screen and check that
  (1)  A.Czz = Cxz  and  A.Czz.A^T + B.B^T = Cxx  on the sparse stencil (theoretical covariance computed here),
  (2)  the innovations  e = new_row - ref - A_th.(Z - ref)  of 200 extruded rows have the conditional covariance
       Cxx - A_th.Czx, i.e. B.b with b a unit-normal vector of full length: after whitening with the theoretical
       conditional covariance they must have unit variance (chi-square test) and full rank,
  (3)  adding a constant to the whole screen adds that constant to the new row.
Exit 0 if the law holds for all sizes, 1 otherwise.
"""
import sys
import copy
import numpy
from scipy.special import gamma, kv
from scipy import linalg

from aotools.turbulence import infinitephasescreen as ips


def vk_cov(r, r0, L0):
    """von Karman phase covariance (Assemat & Wilson 2006, eq. 5), written out independently."""
    r = numpy.asarray(r, dtype=float)
    x = 2 * numpy.pi * numpy.where(r == 0, 1.0, r) / L0
    c = (L0 / r0) ** (5. / 3) * 2 ** (-5. / 6) * gamma(11. / 6) / numpy.pi ** (8. / 3) \
        * (24. / 5 * gamma(6. / 5)) ** (5. / 6)
    body = x ** (5. / 6) * kv(5. / 6, x)
    body = numpy.where(r == 0, 2 ** (-1. / 6) * gamma(5. / 6), body)   # limit x -> 0
    return c * body


def theory(stencil_coords, nx, pixel_scale, r0, L0):
    z = numpy.asarray(stencil_coords, dtype=float) * pixel_scale
    x = numpy.stack([-numpy.ones(nx), numpy.arange(nx)], axis=1) * pixel_scale
    p = numpy.concatenate([z, x])
    sep = numpy.sqrt(((p[:, None, :] - p[None, :, :]) ** 2).sum(-1))
    C = vk_cov(sep, r0, L0)
    n = len(z)
    return C[:n, :n], C[n:, :n], C[n:, n:]


def check_size(requested, pixel_scale, r0, L0, factor, seed, n_rows=200):
    label = "requested size %3d" % requested
    problems = []
    scrn = ips.PhaseScreenKolmogorov(requested, pixel_scale, r0, L0, random_seed=seed,
                                     stencil_length_factor=factor)
    nx = scrn.nx_size
    rows, cols = scrn.stencil_coords[:, 0], scrn.stencil_coords[:, 1]
    Czz, Cxz, Cxx = theory(scrn.stencil_coords, nx, pixel_scale, r0, L0)
    scale = numpy.abs(Cxx).max()

    # (1) matrix identities
    A, B = scrn.A_mat, scrn.B_mat
    e1 = numpy.abs(A.dot(Czz) - Cxz).max() / scale
    e2 = numpy.abs(A.dot(Czz).dot(A.T) + B.dot(B.T) - Cxx).max() / scale
    if not e1 < 1e-7:
        problems.append("A.Czz != Cxz  (rel. err %.2e)" % e1)
    if not e2 < 1e-7:
        problems.append("A.Czz.A^T + B.B^T != Cxx  (rel. err %.2e)" % e2)

    # (3) a constant added to the screen is added to the new row (same innovation vector for both)
    twin = copy.deepcopy(scrn)
    twin._scrn = twin._scrn + 7.5
    d = twin.get_new_row() - scrn.get_new_row() - 7.5
    if not numpy.abs(d).max() < 1e-9:
        problems.append("constant offset not carried to the new row (max dev %.2e)" % numpy.abs(d).max())

    # (2) innovations of the extruded rows
    A_th = linalg.solve(Czz, Cxz.T, assume_a='pos').T
    cond = Cxx - A_th.dot(Cxz.T)
    L = linalg.cholesky((cond + cond.T) / 2, lower=True)
    W = numpy.zeros((n_rows, nx))
    for k in range(n_rows):
        full = numpy.array(scrn._scrn)
        ref = full[scrn.reference_coord]
        Z = full[rows, cols]
        out = scrn.add_row()
        if out.shape != (requested, requested):
            problems.append("scrn has shape %s" % (out.shape,))
            break
        new = numpy.array(scrn._scrn[0])
        W[k] = linalg.solve_triangular(L, new - ref - A_th.dot(Z - ref), lower=True)
    chi2 = (W ** 2).sum()
    dof = n_rows * nx
    nsig = (chi2 - dof) / numpy.sqrt(2. * dof)
    rank = numpy.linalg.matrix_rank(W, tol=1e-6 * numpy.sqrt(n_rows))
    if not abs(nsig) < 6:
        problems.append("innovation variance is %.3f x the conditional von Karman variance (%.1f sigma)"
                        % (chi2 / dof, nsig))
    if rank != nx:
        problems.append("innovations span only %d of the %d dimensions of a row" % (rank, nx))
    print("%s (internal %3d)  identities %.1e %.1e   innovation chi2/dof %.3f  rank %d/%d   %s"
          % (label, nx, e1, e2, chi2 / dof, rank, nx, "FAIL" if problems else "ok"))
    return ["%s: %s" % (label, p) for p in problems]


def main():
    problems = []
    for k, requested in enumerate([33, 17, 24, 40, 64]):
        problems += check_size(requested, 0.1, 0.15, 20., 2, seed=100 + k)
    if problems:
        print("\nC04 VIOLATED:")
        for p in problems:
            print("  " + p)
        return 1
    print("\nC04 holds for every requested size")
    return 0


if __name__ == "__main__":
    sys.exit(main())
