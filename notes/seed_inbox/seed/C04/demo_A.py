"""
C04 demo A: every infinite phase screen must extrude rows with the exact conditional von Karman law
of ITS OWN r0 / L0 / geometry -- also when several screens are built one after the other in the same
process (the layers of a multi-layer atmosphere share size, pixel scale and L0 and differ in r0).

For each screen of a construction sequence we check, against an independently computed theoretical
von Karman covariance at the true pixel separations,
  (1)  A.Czz = Cxz   and   A.Czz.A^T + B.B^T = Cxx          (the documented A_mat / B_mat)
  (2)  behaviourally: the innovations  e = new_row - A_th.Z  of 150 extruded rows, whitened with the
       theoretical conditional covariance Cxx - A_th.Czx, have unit variance (chi-square test).
Exit 0 if all screens obey the law, 1 otherwise.
"""
import sys
import numpy
from scipy.special import gamma, kv
from scipy import linalg

from aotools.turbulence import infinitephasescreen as ips


def vk_cov(r, r0, L0):
    """von Karman phase covariance (Assemat & Wilson 2006, eq. 5), written out independently."""
    r = numpy.asarray(r, dtype=float)
    x = 2 * numpy.pi * numpy.where(r == 0, 1.0, r) / L0
    c = (L0 / r0) ** (5. / 3) * 2 ** (-5. / 6) * gamma(11. / 6) / numpy.pi ** (8. / 3) \
        * (24. / 5 * gamma(6. / 5)) ** (5. / 6)
    body = x ** (5. / 6) * kv(5. / 6, x)
    body = numpy.where(r == 0, 2 ** (-1. / 6) * gamma(5. / 6), body)   # limit x -> 0
    return c * body


def theory(stencil_coords, nx, pixel_scale, r0, L0):
    z = numpy.asarray(stencil_coords, dtype=float) * pixel_scale
    x = numpy.stack([-numpy.ones(nx), numpy.arange(nx)], axis=1) * pixel_scale
    p = numpy.concatenate([z, x])
    sep = numpy.sqrt(((p[:, None, :] - p[None, :, :]) ** 2).sum(-1))
    C = vk_cov(sep, r0, L0)
    n = len(z)
    return C[:n, :n], C[n:, :n], C[n:, n:]


def check_screen(label, nx, pixel_scale, r0, L0, n_columns, seed, n_rows=150):
    problems = []
    scrn = ips.PhaseScreenVonKarman(nx, pixel_scale, r0, L0, random_seed=seed, n_columns=n_columns)
    coords = [(i, j) for i in range(n_columns) for j in range(nx)]
    Czz, Cxz, Cxx = theory(coords, nx, pixel_scale, r0, L0)
    scale = numpy.abs(Cxx).max()

    # (1) matrix identities
    A, B = scrn.A_mat, scrn.B_mat
    e1 = numpy.abs(A.dot(Czz) - Cxz).max() / scale
    e2 = numpy.abs(A.dot(Czz).dot(A.T) + B.dot(B.T) - Cxx).max() / scale
    if not e1 < 1e-7:
        problems.append("A.Czz != Cxz  (rel. err %.2e)" % e1)
    if not e2 < 1e-7:
        problems.append("A.Czz.A^T + B.B^T != Cxx  (rel. err %.2e)" % e2)

    # (2) behaviour of add_row
    A_th = linalg.solve(Czz, Cxz.T, assume_a='pos').T
    cond = Cxx - A_th.dot(Cxz.T)
    L = linalg.cholesky((cond + cond.T) / 2, lower=True)
    chi2 = 0.
    for _ in range(n_rows):
        Z = numpy.array(scrn.scrn[:n_columns]).ravel()
        new = numpy.array(scrn.add_row()[0])
        w = linalg.solve_triangular(L, new - A_th.dot(Z), lower=True)
        chi2 += (w ** 2).sum()
    dof = n_rows * nx
    nsig = (chi2 - dof) / numpy.sqrt(2. * dof)
    if not abs(nsig) < 6:
        problems.append("innovation variance is %.3f x the conditional von Karman variance (%.1f sigma)"
                        % (chi2 / dof, nsig))
    print("%-34s identities %.1e %.1e   innovation chi2/dof %.3f   %s"
          % (label, e1, e2, chi2 / dof, "FAIL" if problems else "ok"))
    return ["%s: %s" % (label, p) for p in problems]


def main():
    nx, pixel_scale, L0, ncol = 33, 0.1, 20., 2
    problems = []
    # a three-layer atmosphere: same grid, same outer scale, different r0 per layer
    for k, r0 in enumerate([0.15, 0.4, 0.08]):
        problems += check_screen("layer %d (r0=%.2f)" % (k, r0), nx, pixel_scale, r0, L0, ncol, seed=10 + k)
    # and the first layer once more
    problems += check_screen("layer 0 again (r0=0.15)", nx, pixel_scale, 0.15, L0, ncol, seed=20)

    if problems:
        print("\nC04 VIOLATED:")
        for p in problems:
            print("  " + p)
        return 1
    print("\nC04 holds for every screen of the sequence")
    return 0


if __name__ == "__main__":
    sys.exit(main())
