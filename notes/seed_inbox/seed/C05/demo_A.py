"""
C05 demo A: the von Karman infinite screen must converge to, and stay at, the theoretical von Karman statistics
-- for every screen object, whatever other screens were built earlier in the same process.

Several screens with the same size (and different seeds / pixel scales) are built one after another.  Each is
evolved for many rows and the measured phase variance and nearest-neighbour structure functions (along the new
row, and between consecutive rows) are compared with the von Karman model evaluated independently here.
"""
import sys
import numpy
from aotools.turbulence import infinitephasescreen, turb

N_ROWS = 30000
BURN_IN = 500
TOL = 0.12


def model(pixel_scale, r0, L0):
    c0 = float(turb.phase_covariance(0., r0, L0))
    c1 = float(turb.phase_covariance(pixel_scale, r0, L0))
    return c0, 2 * (c0 - c1)


def measure(screen):
    var = 0.
    d_along = 0.
    d_across = 0.
    n = 0
    for i in range(N_ROWS):
        scrn = screen.add_row()
        if i < BURN_IN:
            continue
        if scrn.shape != (screen.requested_nx_size,) * 2 or not numpy.isfinite(scrn).all():
            return None
        var += (scrn[0] ** 2).mean()
        d_along += ((scrn[0, 1:] - scrn[0, :-1]) ** 2).mean()
        d_across += ((scrn[0] - scrn[1]) ** 2).mean()
        n += 1
    return var / n, d_along / n, d_across / n


def main():
    # (nx_size, pixel_scale, r0, L0, seed, n_columns), built in this order in one process
    cases = [
        (8, 0.5, 0.2, 4., 1, 2),
        (8, 0.5, 0.2, 4., 2, 2),
        (8, 0.25, 0.2, 4., 3, 2),
        (8, 0.5, 0.2, 4., 4, 2),
        (8, 0.5, 0.3, 6., 5, 3),
        (8, 0.5, 0.3, 6., 6, 3),
    ]
    bad = []
    for k, (nx, pxl, r0, L0, seed, ncol) in enumerate(cases):
        screen = infinitephasescreen.PhaseScreenVonKarman(nx, pxl, r0, L0, random_seed=seed, n_columns=ncol)
        got = measure(screen)
        c0, d1 = model(pxl, r0, L0)
        if got is None:
            bad.append("screen #%d %r: wrong shape or non-finite values" % (k, cases[k]))
            continue
        var, d_along, d_across = got
        line = ("screen #%d (nx=%d pixel_scale=%g r0=%g L0=%g seed=%d n_columns=%d): "
                "variance %.3f (model %.3f), D(1 pixel) along row %.3f / across rows %.3f (model %.3f)"
                % (k, nx, pxl, r0, L0, seed, ncol, var, c0, d_along, d_across, d1))
        print(line)
        if (abs(var / c0 - 1) > 2 * TOL or abs(d_along / d1 - 1) > TOL or abs(d_across / d1 - 1) > TOL):
            bad.append(line)

    if bad:
        print("\nFAIL: long-run statistics of these screens do not match the von Karman model:")
        for b in bad:
            print("  " + b)
        return 1
    print("OK: every screen converged to the von Karman model")
    return 0


if __name__ == "__main__":
    sys.exit(main())
