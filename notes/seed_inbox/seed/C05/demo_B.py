"""
C05 demo B: the infinite screen evolves by exactly one row per add_row(), for any history.

For both screen variants and several sizes (including sizes whose internal working size is larger than the
requested one) add_row() is called a few hundred times, with reads and prints interleaved.  After every step
the exposed screen must be N x N, finite, and equal to the previous exposed screen moved down by one row with
a new row at index 0; reading or printing must leave it unchanged.
"""
import sys
import numpy
from aotools.turbulence import infinitephasescreen as ips


def run(label, screen, n, n_steps):
    prev = numpy.array(screen.scrn, copy=True)
    if prev.shape != (n, n):
        return "%s: initial shape %r" % (label, prev.shape)
    for step in range(1, n_steps + 1):
        returned = screen.add_row()
        cur = numpy.array(screen.scrn, copy=True)
        if cur.shape != (n, n) or numpy.shape(returned) != (n, n):
            return "%s: step %d: shape %r (returned %r), expected %r" % (
                label, step, cur.shape, numpy.shape(returned), (n, n))
        if not numpy.isfinite(cur).all():
            return "%s: step %d: screen contains non-finite values" % (label, step)
        if not numpy.array_equal(numpy.asarray(returned), cur):
            return "%s: step %d: add_row() returned something else than .scrn" % (label, step)
        if not numpy.array_equal(cur[1:], prev[:-1]):
            wrong = [int(i) + 1 for i in numpy.where((cur[1:] != prev[:-1]).any(axis=1))[0]]
            return ("%s: step %d: screen is not the previous screen moved down by one row "
                    "(%d of the %d rows 1.. differ from the previous rows 0.., first at row %d)"
                    % (label, step, len(wrong), n - 1, wrong[0]))
        if n > 1 and numpy.array_equal(cur[0], prev[0]):
            return "%s: step %d: no new row at index 0" % (label, step)
        # reading and printing change nothing
        if step % 3 == 0:
            str(screen), repr(screen), screen.scrn.sum()
            if not numpy.array_equal(screen.scrn, cur):
                return "%s: step %d: reading / printing changed the screen" % (label, step)
        prev = cur
    return None


def main():
    cases = []
    for n, ncol in ((4, 2), (7, 2), (16, 3), (33, 2)):
        cases.append(("PhaseScreenVonKarman(%d, n_columns=%d)" % (n, ncol),
                      ips.PhaseScreenVonKarman(n, 0.25, 0.2, 20., random_seed=n, n_columns=ncol), n,
                      3 * n + 7))
    for n, f in ((5, 4), (6, 4), (12, 2), (9, 1), (20, 4)):
        scr = ips.PhaseScreenKolmogorov(n, 0.25, 0.2, 20., random_seed=n, stencil_length_factor=f)
        cases.append(("PhaseScreenKolmogorov(%d, stencil_length_factor=%d)" % (n, f), scr, n,
                      3 * scr.stencil_length + 7))

    failures = []
    for label, screen, n, n_steps in cases:
        msg = run(label, screen, n, n_steps)
        print("%-55s %4d steps: %s" % (label, n_steps, "ok" if msg is None else "FAIL"))
        if msg is not None:
            failures.append(msg)

    if failures:
        print("\nFAIL:")
        for f in failures:
            print("  " + f)
        return 1
    print("OK: every step moved the screen by exactly one row")
    return 0


if __name__ == "__main__":
    sys.exit(main())
