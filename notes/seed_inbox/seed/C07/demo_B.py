"""
C07 demo B: the exact ensemble covariance of ft_phase_screen must equal the inverse discrete
Fourier sum of the modified von Karman spectrum on the screen's own N x N frequency grid
(spacing 1/(N*delta), zero frequency removed) -- for EVERY even N, not only the usual
power-of-two / highly composite sizes.

The screen is a linear function of its Gaussian draws, so the covariance is obtained exactly
(no Monte Carlo): a generator that hands out unit vectors as "draws" gives the columns of the
linear map L, and Cov = L L^T.
"""
import sys
import numpy
from aotools.turbulence import phasescreen


class ScriptedRNG(numpy.random.Generator):
    """A Generator whose normal draws are read from a prescribed sequence."""

    def __init__(self, values=None):
        super().__init__(numpy.random.PCG64(0))
        self.values = values
        self.pos = 0

    def _take(self, size):
        n = int(numpy.prod(size)) if size is not None else 1
        if self.values is None:
            out = numpy.zeros(n)
        else:
            out = numpy.asarray(self.values[self.pos:self.pos + n], dtype=float)
            if out.size != n:
                raise RuntimeError("screen asked for more draws than on the counting run")
        self.pos += n
        return out.reshape(size) if size is not None else float(out[0])

    def normal(self, loc=0.0, scale=1.0, size=None):
        return loc + scale * self._take(size)

    def standard_normal(self, size=None, dtype=numpy.float64, out=None):
        return self._take(size)


def linear_map(r0, N, delta, L0, l0):
    counter = ScriptedRNG()
    phasescreen.ft_phase_screen(r0, N, delta, L0, l0, seed=counter)
    M = counter.pos
    L = numpy.empty((N * N, M))
    e = numpy.zeros(M)
    for k in range(M):
        e[k] = 1.
        scr = phasescreen.ft_phase_screen(r0, N, delta, L0, l0, seed=ScriptedRNG(e))
        e[k] = 0.
        if scr.shape != (N, N):
            raise RuntimeError("screen has shape %s, expected %s" % (scr.shape, (N, N)))
        L[:, k] = scr.ravel()
    return L


def expected_covariance(r0, N, delta, L0, l0):
    """sum_f PSD(f) del_f^2 cos(2 pi f.(x - x')) over the N x N grid f = k/(N delta), k=-N/2..N/2-1."""
    del_f = 1. / (N * delta)
    k = numpy.arange(-(N // 2), N // 2)
    fx, fy = numpy.meshgrid(k * del_f, k * del_f)
    f2 = fx ** 2 + fy ** 2
    fm = 5.92 / l0 / (2 * numpy.pi)
    psd = 0.023 * r0 ** (-5. / 3) * numpy.exp(-f2 / fm ** 2) * (f2 + 1. / L0 ** 2) ** (-11. / 6)
    psd[N // 2, N // 2] = 0.
    d = numpy.arange(-(N - 1), N)                       # pixel separations
    E = numpy.exp(2j * numpy.pi * numpy.outer(d, k) / N)    # (sep, freq)
    c = (E @ psd @ E.T).real * del_f ** 2               # c[dy, dx]
    i = numpy.arange(N)
    yy, xx = numpy.meshgrid(i, i, indexing="ij")
    yy = yy.ravel()
    xx = xx.ravel()
    dy = yy[None, :] - yy[:, None] + (N - 1)
    dx = xx[None, :] - xx[:, None] + (N - 1)
    return c[dy, dx]


def check(r0, N, delta, L0, l0, tol=1e-9):
    L = linear_map(r0, N, delta, L0, l0)
    cov = L @ L.T
    ref = expected_covariance(r0, N, delta, L0, l0)
    scale = numpy.abs(ref).max()
    err = numpy.abs(cov - ref).max() / scale
    var = numpy.diag(cov)
    spread = (var.max() - var.min()) / scale
    ok = err < tol and spread < tol
    print("N=%3d delta=%g r0=%g L0=%g l0=%g : max|Cov - invDFT(PSD)|/max = %.3e, variance spread = %.3e  %s"
          % (N, delta, r0, L0, l0, err, spread, "ok" if ok else "VIOLATION"))
    return ok


def main():
    cases = [
        (0.15, 8, 0.05, 20., 0.01),
        (0.2, 12, 0.1, 50., 0.02),
        (0.1, 16, 0.03, 10., 0.01),
        (0.2, 22, 0.04, 25., 0.01),
        (0.2, 26, 0.04, 25., 0.01),
        (0.12, 34, 0.02, 30., 0.005),
    ]
    bad = [c for c in cases if not check(*c)]
    if bad:
        print("FAIL: ensemble covariance of ft_phase_screen is not the inverse DFT of the von Karman "
              "spectrum on the screen's own frequency grid for (r0, N, delta, L0, l0) in %s" % bad)
        return 1
    print("PASS")
    return 0


if __name__ == "__main__":
    sys.exit(main())
