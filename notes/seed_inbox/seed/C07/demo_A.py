"""
C07 demo A: the exact ensemble covariance of an FFT phase screen is the inverse discrete Fourier
sum of the modified von Karman spectrum for ITS OWN r0, L0 and l0, and for fixed draws the screen
scales exactly as r0^(-5/6) -- for every screen that is generated, whatever screens were
generated before it.  Here: the layers of a multi-layer atmosphere, made one after the other on
a common grid, each with its own strength, outer scale and inner scale.

The covariance is obtained exactly (no Monte Carlo): a generator that hands out unit vectors
as "draws" gives the columns of the linear map L, and Cov = L L^T.
"""
import sys
import numpy
from aotools.turbulence import phasescreen


class ScriptedRNG(numpy.random.Generator):
    """A Generator whose normal draws are read from a prescribed sequence."""

    def __init__(self, values=None):
        super().__init__(numpy.random.PCG64(0))
        self.values = values
        self.pos = 0

    def _take(self, size):
        n = int(numpy.prod(size)) if size is not None else 1
        if self.values is None:
            out = numpy.zeros(n)
        else:
            out = numpy.asarray(self.values[self.pos:self.pos + n], dtype=float)
            if out.size != n:
                raise RuntimeError("screen asked for more draws than on the counting run")
        self.pos += n
        return out.reshape(size) if size is not None else float(out[0])

    def normal(self, loc=0.0, scale=1.0, size=None):
        return loc + scale * self._take(size)

    def standard_normal(self, size=None, dtype=numpy.float64, out=None):
        return self._take(size)


def linear_map(r0, N, delta, L0, l0):
    counter = ScriptedRNG()
    phasescreen.ft_phase_screen(r0, N, delta, L0, l0, seed=counter)
    M = counter.pos
    L = numpy.empty((N * N, M))
    e = numpy.zeros(M)
    for k in range(M):
        e[k] = 1.
        scr = phasescreen.ft_phase_screen(r0, N, delta, L0, l0, seed=ScriptedRNG(e))
        e[k] = 0.
        if scr.shape != (N, N):
            raise RuntimeError("screen has shape %s, expected %s" % (scr.shape, (N, N)))
        L[:, k] = scr.ravel()
    return L


def expected_covariance(r0, N, delta, L0, l0):
    """sum_f PSD(f) del_f^2 cos(2 pi f.(x - x')) over the N x N grid f = k/(N delta), k=-N/2..N/2-1."""
    del_f = 1. / (N * delta)
    k = numpy.arange(-(N // 2), N // 2)
    fx, fy = numpy.meshgrid(k * del_f, k * del_f)
    f2 = fx ** 2 + fy ** 2
    fm = 5.92 / l0 / (2 * numpy.pi)
    psd = 0.023 * r0 ** (-5. / 3) * numpy.exp(-f2 / fm ** 2) * (f2 + 1. / L0 ** 2) ** (-11. / 6)
    psd[N // 2, N // 2] = 0.
    d = numpy.arange(-(N - 1), N)                       # pixel separations
    E = numpy.exp(2j * numpy.pi * numpy.outer(d, k) / N)    # (sep, freq)
    c = (E @ psd @ E.T).real * del_f ** 2               # c[dy, dx]
    i = numpy.arange(N)
    yy, xx = numpy.meshgrid(i, i, indexing="ij")
    yy = yy.ravel()
    xx = xx.ravel()
    dy = yy[None, :] - yy[:, None] + (N - 1)
    dx = xx[None, :] - xx[:, None] + (N - 1)
    return c[dy, dx]


def check(r0, N, delta, L0, l0, tol=1e-9):
    L = linear_map(r0, N, delta, L0, l0)
    cov = L @ L.T
    ref = expected_covariance(r0, N, delta, L0, l0)
    scale = numpy.abs(ref).max()
    err = numpy.abs(cov - ref).max() / scale
    var = numpy.diag(cov)
    spread = (var.max() - var.min()) / scale
    ok = err < tol and spread < tol
    print("N=%3d delta=%g r0=%g L0=%g l0=%g : max|Cov - invDFT(PSD)|/max = %.3e, variance spread = %.3e  %s"
          % (N, delta, r0, L0, l0, err, spread, "ok" if ok else "VIOLATION"))
    return ok


def check_scaling(N, delta, L0, l0, r0s, seed, tol=1e-10):
    """screens of a multi-layer atmosphere on one grid, same draws: phs(r0) * r0^(5/6) is constant."""
    ref = None
    ok = True
    for r0 in r0s:
        scr = phasescreen.ft_phase_screen(r0, N, delta, L0, l0, seed=seed) * r0 ** (5. / 6)
        if ref is None:
            ref = scr
        err = numpy.abs(scr - ref).max() / numpy.abs(ref).max()
        good = err < tol
        ok = ok and good
        print("N=%3d delta=%g L0=%g l0=%g seed=%d r0=%g : |phs*r0^(5/6) - first|/max = %.3e  %s"
              % (N, delta, L0, l0, seed, r0, err, "ok" if good else "VIOLATION"))
    return ok


def main():
    ok = True
    # layers of different strength on a common grid, identical draws
    ok &= check_scaling(16, 0.05, 20., 0.01, [0.1, 0.2, 0.4, 0.1], seed=3)
    # exact ensemble covariance of each layer of a 4-layer atmosphere on a common 10 x 10 grid:
    # (r0, N, delta, L0, l0); boundary layer with a small outer scale, high layers with a large one
    layers = [
        (0.20, 10, 0.1, 25., 0.01),
        (0.35, 10, 0.1, 25., 0.01),
        (0.50, 10, 0.1, 4., 0.01),
        (0.80, 10, 0.1, 25., 0.08),
    ]
    for layer in layers:
        ok &= check(*layer)
    # and a screen on another grid afterwards
    ok &= check(0.2, 12, 0.07, 50., 0.02)
    if not ok:
        print("FAIL: a screen generated after other screens on the same grid does not have the von "
              "Karman covariance / r0^(-5/6) scaling of its own parameters")
        return 1
    print("PASS")
    return 0


if __name__ == "__main__":
    sys.exit(main())
