"""
C20 (purity / no hidden state): the result of a call must not depend on which other calls were made
before it.  Here: Zernike mode stacks and Zernike phase maps requested with the default ("noll")
normalisation must be bit-identical before and after the same modes have been requested with another
normalisation, and a result already handed to the caller must not change when further calls are made.
"""
import sys
import numpy
from aotools import functions

failures = []


def same(a, b):
    a = numpy.asarray(a)
    b = numpy.asarray(b)
    return a.shape == b.shape and a.dtype == b.dtype and a.tobytes() == b.tobytes()


def check(label, ok):
    if not ok:
        failures.append(label)
        print("FAIL:", label)


for nmodes, size, other in [(6, 16, "p2v"), (10, 21, "rms"), (4, 8, "p2v")]:
    # --- zernikeArray: noll, <other norm>, noll again -------------------------------------------
    first = functions.zernikeArray(nmodes, size)
    first_snapshot = first.copy()

    other_1 = functions.zernikeArray(nmodes, size, norm=other).copy()

    check("zernikeArray(%d, %d): array returned earlier changed after a later norm=%r call"
          % (nmodes, size, other), same(first, first_snapshot))

    again = functions.zernikeArray(nmodes, size)
    check("zernikeArray(%d, %d) differs after zernikeArray(%d, %d, norm=%r): max |diff| = %g"
          % (nmodes, size, nmodes, size, other, abs(again - first_snapshot).max()),
          same(again, first_snapshot))

    other_2 = functions.zernikeArray(nmodes, size, norm=other)
    check("zernikeArray(%d, %d, norm=%r) not repeatable" % (nmodes, size, other),
          same(other_1, other_2))

# --- phaseFromZernikes: same coefficients, history with another normalisation in between ----------
coeffs = [0.3, -1.2, 0.7, 2.0, -0.4, 0.9, 0.1]
coeffs_before = list(coeffs)
p_noll_1 = functions.phaseFromZernikes(coeffs, 24)
p_p2v_1 = functions.phaseFromZernikes(coeffs, 24, norm="p2v")
p_noll_2 = functions.phaseFromZernikes(coeffs, 24)
p_rms_1 = functions.phaseFromZernikes(coeffs, 24, norm="rms")
p_p2v_2 = functions.phaseFromZernikes(coeffs, 24, norm="p2v")
p_noll_3 = functions.phaseFromZernikes(coeffs, 24)
check("phaseFromZernikes modified its coefficient list", coeffs == coeffs_before)
check("phaseFromZernikes(noll) differs after a norm='p2v' call: max |diff| = %g"
      % abs(p_noll_2 - p_noll_1).max(), same(p_noll_1, p_noll_2))
check("phaseFromZernikes(p2v) differs after a norm='rms' call: max |diff| = %g"
      % abs(p_p2v_2 - p_p2v_1).max(), same(p_p2v_1, p_p2v_2))
check("phaseFromZernikes(noll) differs after p2v and rms calls: max |diff| = %g"
      % abs(p_noll_3 - p_noll_1).max(), same(p_noll_1, p_noll_3))

# the integer-J and list-J entry points must keep agreeing whatever was called before
full = functions.zernikeArray(7, 24)
listed = functions.zernikeArray([1, 2, 3, 4, 5, 6, 7], 24)
check("zernikeArray(7, 24) and zernikeArray([1..7], 24) disagree after calls with other norms: "
      "max |diff| = %g" % abs(full - listed).max(), same(full, listed))

if failures:
    print("%d purity violation(s)" % len(failures))
    sys.exit(1)
print("ok: results independent of call history")
sys.exit(0)
