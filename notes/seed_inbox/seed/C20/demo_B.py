"""
C20 (purity): no public function may modify an array passed to it (values, shape, dtype stay
bit-identical), and calling it again with the same argument must give the same result.
Exercised here on the structure-function / slope-covariance helpers of
aotools.turbulence.slopecovariance with separation arrays of several dtypes, layouts and contents,
including separations that are exactly zero (a sub-aperture paired with itself).
"""
import sys
import numpy
from aotools.turbulence import slopecovariance as sc

failures = []


def fingerprint(a):
    return (a.shape, a.dtype.str, a.strides, a.tobytes())


def run(label, func, arrays, *rest):
    """call func(*arrays, *rest) twice; arrays must be untouched and the two results equal"""
    before = [fingerprint(a) for a in arrays]
    r1 = numpy.array(func(*(list(arrays) + list(rest))), copy=True)
    mid = [fingerprint(a) for a in arrays]
    r2 = numpy.array(func(*(list(arrays) + list(rest))), copy=True)
    after = [fingerprint(a) for a in arrays]
    if before != mid or before != after:
        failures.append(label + ": argument array was modified")
        print("FAIL: %s: an argument array was modified by the call" % label)
        for a, b in zip(arrays, before):
            old = numpy.frombuffer(b[3], dtype=b[1]).reshape(b[0])
            if fingerprint(a) != b:
                print("      before:", old.ravel()[:8], " after:", a.ravel()[:8])
    if not (r1.shape == r2.shape and numpy.array_equal(r1, r2, equal_nan=True)):
        failures.append(label + ": second call differs")
        print("FAIL: %s: second call with the same argument returned a different result" % label)
        print("      first :", r1.ravel()[:8])
        print("      second:", r2.ravel()[:8])


r0, L0 = 0.15, 25.0
rng = numpy.random.default_rng(20)

# pairwise distances between points of a small grid: the diagonal is exactly zero
pts = numpy.stack(numpy.meshgrid(numpy.arange(4) * 0.5, numpy.arange(3) * 0.5), -1).reshape(-1, 2)
dist = numpy.sqrt(((pts[:, None, :] - pts[None, :, :]) ** 2).sum(-1))

cases = {
    "positive float64 vector": rng.uniform(0.01, 30., 17),
    "positive float64 matrix": rng.uniform(0.01, 30., (5, 7)),
    "distance matrix with zero diagonal (float64)": dist.copy(),
    "lag vector starting at zero (float64)": numpy.arange(0., 4., 0.25),
    "lag vector starting at zero (float32)": numpy.arange(0., 4., 0.25).astype("float32"),
    "lag vector starting at zero (int64)": numpy.arange(0, 6),
    "Fortran-ordered distance matrix": numpy.asfortranarray(dist),
    "strided view with zeros": numpy.arange(0., 8., 0.5)[::2],
    "0-d zero": numpy.array(0.0),
    "all zeros": numpy.zeros((2, 3)),
}

for name, arr in cases.items():
    run("structure_function_vk, " + name, sc.structure_function_vk, [arr], r0, L0)
    run("structure_function_kolmogorov, " + name, sc.structure_function_kolmogorov, [arr], r0)

# the same array used by several functions one after another (shared-array program)
shared = dist.copy()
shared_before = fingerprint(shared)
a = sc.structure_function_kolmogorov(shared, r0)
b = sc.structure_function_vk(shared, r0, L0)
c = sc.structure_function_kolmogorov(shared, r0)
d = sc.mirror_covariance_matrix(shared)
if fingerprint(shared) != shared_before:
    failures.append("shared-array program: array modified")
    print("FAIL: shared distance matrix was modified by a sequence of library calls")
if not numpy.array_equal(a, c):
    failures.append("shared-array program: kolmogorov result changed")
    print("FAIL: structure_function_kolmogorov(shared) changed after structure_function_vk(shared): "
          "max |diff| = %g" % abs(a - c).max())

# separations (n1, n2, 2) with exact zeros, through the covariance kernels
seps = numpy.zeros((3, 3, 2))
seps[..., 0] = numpy.subtract.outer(numpy.arange(3.), numpy.arange(3.)) * 0.5
seps[..., 1] = 0.25
for f in (sc.compute_covariance_xx, sc.compute_covariance_yy, sc.compute_covariance_xy):
    run(f.__name__ + ", separations with zeros", f, [seps], 0.5, 0.5, r0, L0)

if failures:
    print("%d purity violation(s)" % len(failures))
    sys.exit(1)
print("ok: arguments untouched, calls repeatable")
sys.exit(0)
