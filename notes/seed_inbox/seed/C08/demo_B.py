"""C08 demo B: the slope-covariance structure function must describe the same von Karman model as the
phase covariance for EVERY (r0, L0), whatever was evaluated before.

For a fine sweep of Fried parameters (as in an r0 scan / seeing fit) and of outer scales, in several orders:
  * D(r; r0, L0) scales exactly as r0^(-5/3),
  * D(r) agrees with 2 * (C(0) - C(r)) from aotools.turbulence.turb.phase_covariance,
  * D saturates at 2 * 0.0863 (L0/r0)^(5/3) for r >> L0,
  * the value returned does not depend on which other atmospheres were evaluated earlier.
"""
import sys
import numpy
from aotools.turbulence import turb, slopecovariance

failures = []
r = numpy.array([0., 0.02, 0.1, 0.5, 2., 10., 50., 1e4])


def check(r0, L0, tag):
    D = numpy.asarray(slopecovariance.structure_function_vk(r, r0, L0), dtype=float)
    # reference 1: phase covariance
    c0 = float(turb.phase_covariance(0., r0, L0))
    D_cov = 2 * (c0 - numpy.asarray(turb.phase_covariance(r, r0, L0), dtype=float))
    if D[0] != 0:
        failures.append("%s r0=%g L0=%g: D(0) = %g" % (tag, r0, L0, D[0]))
    if numpy.any(numpy.abs(D[1:] - D_cov[1:]) > 2e-3 * D_cov[1:]):
        failures.append("%s r0=%g L0=%g: D = %r but 2(C(0)-C(r)) = %r (ratio %r)"
                        % (tag, r0, L0, D[1:], D_cov[1:], D[1:] / D_cov[1:]))
    # reference 2: saturation at twice the variance
    sat = 2 * 0.0863 * (L0 / r0) ** (5. / 3)
    if abs(D[-1] - sat) > 2e-3 * sat:
        failures.append("%s r0=%g L0=%g: D(r>>L0) = %g, expected %g" % (tag, r0, L0, D[-1], sat))
    # reference 3: r0^(-5/3) scaling against unit r0
    D1 = numpy.asarray(slopecovariance.structure_function_vk(r, 1., L0), dtype=float)
    if numpy.any(numpy.abs(D[1:] - D1[1:] * r0 ** (-5. / 3)) > 1e-9 * D[1:]):
        failures.append("%s r0=%g L0=%g: D does not scale as r0^(-5/3): ratio to scaled unit-r0 value %r"
                        % (tag, r0, L0, D[1:] / (D1[1:] * r0 ** (-5. / 3))))
    return D


r0_scan = [0.1500, 0.1502, 0.1504, 0.1496, 0.2, 0.0004, 0.0002]
L0_scan = [25., 25.0004, 10., 100.]

first = {}
for L0 in L0_scan:
    for r0 in r0_scan:
        first[(r0, L0)] = check(r0, L0, "ascending")
# same atmospheres visited in the opposite order must give the same numbers
for L0 in reversed(L0_scan):
    for r0 in reversed(r0_scan):
        D = check(r0, L0, "descending")
        if not numpy.allclose(D, first[(r0, L0)], rtol=1e-12, atol=0):
            failures.append("r0=%g L0=%g: result depends on call history" % (r0, L0))

if failures:
    print("C08 VIOLATED (%d failures), first few:" % len(failures))
    for f in failures[:6]:
        print("  " + f)
    sys.exit(1)
print("C08 demo B: ok")
sys.exit(0)
