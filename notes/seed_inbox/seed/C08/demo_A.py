"""C08 demo A: with a very large outer scale the von Karman statistics must tend to Kolmogorov.

D(r) = 2 * (C(0) - C(r)) built from aotools.turbulence.turb.phase_covariance must
  * tend to 6.88 (r/r0)^(5/3) as L0 grows,
  * agree with the structure function copy used by the slope-covariance code,
  * be zero only at r = 0 and non-decreasing / strictly positive for r > 0.
All checked for separations that are tiny compared with L0 (r/L0 down to 1e-7).
"""
import sys
import numpy
from aotools.turbulence import turb, slopecovariance

failures = []
r0 = 0.15
r = numpy.array([0., 0.05, 0.1, 0.3, 1., 3., 10.])

for L0 in (1e5, 1e6, 1e7):
    cov = numpy.asarray(turb.phase_covariance(r, r0, L0), dtype=float)
    c0 = float(turb.phase_covariance(0., r0, L0))
    if not numpy.all(numpy.isfinite(cov)) or not numpy.isfinite(c0):
        failures.append("L0=%g: non-finite covariance %r" % (L0, cov))
        continue
    D = 2 * (c0 - cov)
    kol = 6.88 * (r / r0) ** (5. / 3)
    D_sc = numpy.asarray(slopecovariance.structure_function_vk(r, r0, L0), dtype=float)

    if abs(D[0]) > 1e-9 * c0:
        failures.append("L0=%g: D(0) = %g is not zero" % (L0, D[0]))
    # Kolmogorov limit (first correction is -1.485 (r/L0)^(1/3), below 8% here)
    rel = numpy.abs(D[1:] - kol[1:]) / kol[1:]
    if numpy.any(rel > 0.10):
        failures.append("L0=%g: 2(C(0)-C(r)) = %r is not within 10%% of Kolmogorov %r" % (L0, D[1:], kol[1:]))
    # agreement with the slope-covariance copy (absolute tolerance set by cancellation in C(0)-C(r))
    tol = 1e-3 * D_sc[1:] + 1e-12 * c0
    if numpy.any(numpy.abs(D[1:] - D_sc[1:]) > tol):
        failures.append("L0=%g: 2(C(0)-C(r)) = %r disagrees with structure_function_vk = %r" % (L0, D[1:], D_sc[1:]))
    if numpy.any(numpy.diff(D) < -1e-12 * c0) or numpy.any(D[1:] <= 0):
        failures.append("L0=%g: structure function from covariance not increasing/positive: %r" % (L0, D))

# ordinary regime sanity (r comparable with L0): saturation at twice the variance
L0 = 25.
sat = 2 * float(turb.phase_covariance(0., r0, L0))
if abs(sat - 2 * 0.0863 * (L0 / r0) ** (5. / 3)) > 2e-3 * sat:
    failures.append("saturation value %g wrong" % sat)

if failures:
    print("C08 VIOLATED:")
    for f in failures:
        print("  " + f)
    sys.exit(1)
print("C08 demo A: ok")
sys.exit(0)
