"""C15 demo B: every centroider is unchanged when the image is multiplied by a positive
constant (whatever the units of the image: counts, normalised flux, W/m^2 ...), and the
centre-of-gravity / brightest-pixel centroid of a single bright pixel is that pixel's (x, y)
whatever the pixel's value.  Checked for single frames and for stacks, with and without
thresholds."""
import sys
import numpy
from aotools.image_processing import centroiders

rng = numpy.random.RandomState(15)
failures = []


def check(label, got, want, tol=1e-7):
    got = numpy.asarray(got, dtype=float)
    want = numpy.asarray(want, dtype=float)
    if got.shape != want.shape or not numpy.allclose(got, want, rtol=0, atol=tol):
        failures.append("%s:\n      got      %s\n      expected %s" % (label, got.ravel()[:6], want.ravel()[:6]))


def spot_stack(nt, ny, nx):
    """a few noisy spots on a faint non-negative background, all values in [0, ~1]"""
    y, x = numpy.indices((ny, nx))
    frames = []
    for _ in range(nt):
        y0, x0 = rng.uniform(3, ny - 4), rng.uniform(3, nx - 4)
        frames.append(numpy.exp(-((y - y0) ** 2 + (x - x0) ** 2) / 3.) + 0.02 * rng.random_sample((ny, nx)))
    return numpy.array(frames)


constants = [3., 0.25, 1e-3, 4.7e4, 1e9, 2.5e-7, 6e-10, 3e-13, 1e-16, 1e16]

for ny, nx in [(10, 10), (9, 13)]:
    stack = spot_stack(4, ny, nx)
    ref = stack[0]
    quads = rng.random_sample((4, 2, 2))
    for c in constants:
        for thr in (0, 0.2, 0.6):
            check("centre_of_gravity stack %dx%d, threshold=%g, image*%g" % (ny, nx, thr, c),
                  centroiders.centre_of_gravity(stack * c, threshold=thr),
                  centroiders.centre_of_gravity(stack, threshold=thr))
            check("centre_of_gravity single %dx%d, threshold=%g, image*%g" % (ny, nx, thr, c),
                  centroiders.centre_of_gravity(stack[1] * c, threshold=thr),
                  centroiders.centre_of_gravity(stack[1], threshold=thr))
        for frac in (0.1, 0.35):
            check("brightest_pixel stack %dx%d, fraction=%g, image*%g" % (ny, nx, frac, c),
                  centroiders.brightest_pixel(stack * c, frac),
                  centroiders.brightest_pixel(stack, frac))
            check("brightest_pixel single %dx%d, fraction=%g, image*%g" % (ny, nx, frac, c),
                  centroiders.brightest_pixel(stack[2] * c, frac),
                  centroiders.brightest_pixel(stack[2], frac))
        for thr in (0., 0.3):
            for padding in (1, 2):
                check("correlation_centroid %dx%d, threshold=%g, padding=%d, image*%g" % (ny, nx, thr, padding, c),
                      centroiders.correlation_centroid(stack * c, ref * c, threshold=thr, padding=padding),
                      centroiders.correlation_centroid(stack, ref, threshold=thr, padding=padding), tol=1e-5)

    # single bright pixel of any (positive) value sits at its own (x, y)
    for value in (1., 255., 1e-4, 1e-9, 5e-12, 1e-20, 1e12):
        for (py, px) in [(0, 0), (3, 7), (ny - 1, nx - 1), (ny - 2, 1)]:
            img = numpy.zeros((ny, nx))
            img[py, px] = value
            check("centre_of_gravity of one pixel of value %g at (x=%d, y=%d) in %dx%d" % (value, px, py, ny, nx),
                  centroiders.centre_of_gravity(img), [px, py])
            check("centre_of_gravity (stack of 1) of one pixel of value %g at (x=%d, y=%d)" % (value, px, py),
                  centroiders.centre_of_gravity(img[None]), [[px], [py]])
            check("brightest_pixel of one pixel of value %g at (x=%d, y=%d) in %dx%d" % (value, px, py, ny, nx),
                  centroiders.brightest_pixel(img, 0.05), [px, py])

if failures:
    print("C15 VIOLATED: centroids depend on the overall brightness of the image (%d cases)" % len(failures))
    for f in failures[:10]:
        print("  " + f)
    sys.exit(1)
print("C15 ok: all centroiders are scale invariant and locate a single pixel, for every brightness tried")
sys.exit(0)
