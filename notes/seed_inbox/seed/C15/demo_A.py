"""C15 demo A: the correlation centroid of an image displaced by s from its reference
is displaced by s from the array centre (index n//2 on each axis), for any padding and
for any frame shape (square or not, odd or even), single frames and stacks alike."""
import sys
import numpy
from aotools.image_processing import centroiders


BLOB = numpy.array([[1., 3., 2.],
                    [2., 9., 4.],
                    [0., 5., 1.]])


def spot(ny, nx, y0, x0):
    """compact 3x3 spot centred on (y0, x0), exact zeros elsewhere"""
    img = numpy.zeros((ny, nx))
    img[y0 - 1:y0 + 2, x0 - 1:x0 + 2] = BLOB
    return img


failures = []
shapes = [(16, 16), (15, 15), (12, 12), (17, 17), (12, 20), (20, 12), (13, 18), (18, 13), (11, 15), (15, 21)]
shifts = [(0, 0), (1, 0), (0, -1), (2, -1), (-2, 1)]          # (sy, sx)
for ny, nx in shapes:
    ref = spot(ny, nx, ny // 2, nx // 2) + 0.05                # flat background is removed by the routine
    frames = numpy.array([spot(ny, nx, ny // 2 + sy, nx // 2 + sx) + 0.05 for sy, sx in shifts])
    for padding in (1, 2, 3, 4):
        for threshold in (0., 0.3):
            stack = centroiders.correlation_centroid(frames, ref, threshold=threshold, padding=padding)
            for i, (sy, sx) in enumerate(shifts):
                single = centroiders.correlation_centroid(frames[i], ref, threshold=threshold, padding=padding)
                want = numpy.array([nx // 2 + sx, ny // 2 + sy], dtype=float)
                for label, got in (("stack", stack[:, i]), ("single", single[:, 0])):
                    if not numpy.allclose(got, want, rtol=0, atol=1e-6):
                        failures.append("shape (ny=%d, nx=%d) padding=%d threshold=%g shift (sx=%d, sy=%d) [%s]: "
                                        "got (x, y)=(%.4f, %.4f), expected (%.4f, %.4f)"
                                        % (ny, nx, padding, threshold, sx, sy, label, got[0], got[1], want[0], want[1]))

if failures:
    print("C15 VIOLATED: correlation centroid is not 'array centre + displacement' (%d cases)" % len(failures))
    for f in failures[:12]:
        print("  " + f)
    sys.exit(1)
print("C15 ok: correlation centroid = centre + displacement for every shape and padding tried")
sys.exit(0)
