"""
C19 demo A: the structure-function estimator must return, for every lag j, the mean squared difference of the
phase with itself shifted by j*step along the FIRST axis -- whatever the memory layout of the array it is given.

Checks (each for C-ordered, Fortran-ordered and transposed-view inputs, square and tall arrays, step 1 and 2):
  * a ramp of slope a along the first axis gives exactly a^2 (j*step)^2, and 0 at lag 0
  * a ramp along the second axis only gives 0 at every lag
  * random data agree with the direct definition
  * quadratic in amplitude
Exits 0 if all hold, 1 otherwise.
"""
import sys
import numpy
from aotools.turbulence.slopecovariance import calculate_structure_function

failures = []


def definition(phase, n_lags, step):
    out = numpy.zeros(n_lags)
    n = phase.shape[0]
    for j in range(1, n_lags):
        s = j * step
        acc = 0.
        for r in range(n - s):
            acc += numpy.sum((phase[r].astype(float) - phase[r + s].astype(float)) ** 2)
        out[j] = acc / ((n - s) * phase.shape[1])
    return out


def layouts(arr):
    """The same logical array in several memory layouts."""
    yield "C-contiguous", numpy.ascontiguousarray(arr)
    yield "Fortran-contiguous", numpy.asfortranarray(arr)
    yield "transposed view", numpy.ascontiguousarray(arr.T).T


def check(label, got, want):
    if got.shape != want.shape or not numpy.allclose(got, want, rtol=1e-9, atol=1e-9):
        failures.append("{}:\n    got  {}\n    want {}".format(label, got, want))


rng = numpy.random.RandomState(19)

for shape in [(32, 32), (48, 24)]:
    rows, cols = shape
    for step in (1, 2):
        n_lags = 5
        a = 0.75
        ramp0 = a * numpy.arange(rows, dtype=float)[:, None] + numpy.zeros(shape)
        ramp1 = a * numpy.arange(cols, dtype=float)[None, :] + numpy.zeros(shape)
        rnd = rng.randn(*shape)
        want_ramp0 = (a * numpy.arange(n_lags) * step) ** 2
        want_rnd = definition(rnd, n_lags, step)

        for (name, r0), (_, r1), (_, rd) in zip(layouts(ramp0), layouts(ramp1), layouts(rnd)):
            tag = "shape={} step={} layout={}".format(shape, step, name)

            sf = calculate_structure_function(r0, nbOfPoint=n_lags, step=step)
            check("ramp along first axis, " + tag, sf, want_ramp0)
            if sf[0] != 0:
                failures.append("lag 0 not zero, " + tag)

            sf = calculate_structure_function(r1, nbOfPoint=n_lags, step=step)
            check("ramp along second axis (must be all zero), " + tag, sf, numpy.zeros(n_lags))

            sf = calculate_structure_function(rd, nbOfPoint=n_lags, step=step)
            check("random phase vs definition, " + tag, sf, want_rnd)

            sf3 = calculate_structure_function(3. * rd, nbOfPoint=n_lags, step=step)
            check("quadratic in amplitude, " + tag, sf3, 9. * sf)

if failures:
    print("C19 VIOLATED: structure function is not the mean squared difference along the first axis")
    for f in failures:
        print("  - " + f)
    sys.exit(1)

print("C19 holds: structure function matches its definition for every layout tested")
sys.exit(0)
