"""
C19 demo B: the temporal power spectrum of slope data and its frequency axis.

Checks, for even AND odd frame counts and several frame rates:
  * the frequency axis is k * frame_rate / n_frames for k = 0 .. n_frames//2 - 1
  * a pure sinusoid at frequency f0 = k0 * frame_rate / n_frames (present in every sub-aperture) makes the
    spectrum peak at bin k0, and the frequency axis read at the peak gives back f0
  * the spectrum is the squared modulus of the DFT along the frame axis averaged over sub-apertures,
    for any leading shape, and is quadratic in amplitude
Exits 0 if all hold, 1 otherwise.
"""
import sys
import numpy
from aotools.turbulence.temporal_ps import calc_slope_temporalps, get_tps_time_axis

failures = []
rng = numpy.random.RandomState(1919)

for n_frames in (64, 100, 1000, 63, 101, 255, 999):
    for frame_rate in (1., 150., 997.5):
        tag = "n_frames={} frame_rate={}".format(n_frames, frame_rate)
        n_half = n_frames // 2

        # --- frequency axis
        axis = numpy.asarray(get_tps_time_axis(frame_rate, n_frames))
        want_axis = numpy.arange(n_half) * frame_rate / n_frames
        if axis.shape != want_axis.shape or not numpy.allclose(axis, want_axis, rtol=1e-10, atol=0):
            failures.append("frequency axis is not k*frame_rate/n_frames, {}: axis[1]={!r} want {!r}; axis[-1]={!r} want {!r}"
                            .format(tag, axis[1], want_axis[1], axis[-1], want_axis[-1]))

        # --- pure sinusoid: peak bin and the frequency read off the axis there
        k0 = max(2, n_half // 3)
        f0 = k0 * frame_rate / n_frames
        t = numpy.arange(n_frames) / frame_rate
        n_subaps = 6
        phases = rng.uniform(0, 2 * numpy.pi, n_subaps)
        slopes = numpy.sin(2 * numpy.pi * f0 * t[:, None] + phases[None, :])
        tps, _ = calc_slope_temporalps(slopes)
        peak = int(numpy.argmax(tps))
        if peak != k0:
            failures.append("sinusoid peak in bin {} instead of {}, {}".format(peak, k0, tag))
        if axis.shape == tps.shape and abs(axis[peak] - f0) > 1e-9 * f0:
            failures.append("sinusoid of {!r} Hz is reported at {!r} Hz, {}".format(f0, axis[peak], tag))

    # --- definition, leading shapes, amplitude scaling
    data = rng.randn(2, 3, n_frames, 5)
    tps, _ = calc_slope_temporalps(data)
    want = numpy.zeros((2, 3, n_frames // 2))
    k = numpy.arange(n_frames // 2)
    dft = numpy.exp(-2j * numpy.pi * numpy.outer(k, numpy.arange(n_frames)) / n_frames)
    for a in range(2):
        for b in range(3):
            want[a, b] = (abs(dft.dot(data[a, b])) ** 2).mean(-1)
    if tps.shape != want.shape or not numpy.allclose(tps, want, rtol=1e-8, atol=1e-8):
        failures.append("spectrum is not mean |DFT|^2 over sub-apertures, n_frames={}".format(n_frames))
    tps3, _ = calc_slope_temporalps(-3. * data)
    if not numpy.allclose(tps3, 9. * tps, rtol=1e-10):
        failures.append("spectrum not quadratic in amplitude, n_frames={}".format(n_frames))

if failures:
    print("C19 VIOLATED: temporal power spectrum / frequency axis")
    for f in failures:
        print("  - " + f)
    sys.exit(1)

print("C19 holds: temporal power spectrum and frequency axis match their definitions")
sys.exit(0)
