"""
C09 demo A: the scaled 2-D transforms *as exported by the package* (aotools.ft2 /
aotools.ift2) must be mutual inverses and obey Parseval for every size (odd or
even), with leading batch dimensions, and any grid spacing, when
delta_f = 1 / (N * delta).  The same must hold for the Fourier module's names.

Exits 0 if the property holds everywhere probed, 1 otherwise.
"""
import sys
import numpy

import aotools
from aotools import fouriertransform

TOL = 1e-9
failures = []


def check_pair(label, fwd, inv, x, delta):
    N = x.shape[-1]
    delta_f = 1.0 / (N * delta)
    X = fwd(x, delta)
    scale = max(1.0, float(numpy.abs(x).max()))

    back = inv(X, delta_f)
    if back.shape != x.shape:
        failures.append("%s: inverse(forward(x)) has shape %s, expected %s"
                        % (label, back.shape, x.shape))
        return
    err = float(numpy.abs(back - x).max()) / scale
    if not err < TOL:
        failures.append("%s: inverse(forward(x)) != x, max rel err %.3e" % (label, err))

    forth = fwd(inv(x, delta_f), delta)
    err = float(numpy.abs(forth - x).max()) / scale
    if not err < TOL:
        failures.append("%s: forward(inverse(x)) != x, max rel err %.3e" % (label, err))

    # Parseval for the inverse transform: sum|X|^2 df^2 == sum|x|^2 d^2
    x_back = inv(x, delta_f)
    e_freq = float((numpy.abs(x) ** 2).sum()) * delta_f ** 2
    e_space = float((numpy.abs(x_back) ** 2).sum()) * delta ** 2
    if not abs(e_freq - e_space) <= 1e-9 * max(e_freq, e_space):
        failures.append("%s: Parseval violated by the inverse transform: %.12g vs %.12g"
                        % (label, e_freq, e_space))


rng = numpy.random.default_rng(20240909)

cases = []
for N in (1, 2, 3, 4, 5, 7, 8, 9, 16, 17, 31, 32):
    for batch in ((), (3,), (2, 5)):
        for delta in (1.0, 0.1, 3.7):
            cases.append((N, batch, delta))

for N, batch, delta in cases:
    shape = batch + (N, N)
    x = rng.normal(size=shape) + 1j * rng.normal(size=shape)
    xr = rng.normal(size=shape)
    tag = "N=%d batch=%s delta=%g" % (N, batch, delta)
    check_pair("aotools.ft2/aotools.ift2 complex " + tag, aotools.ft2, aotools.ift2, x, delta)
    check_pair("aotools.ft2/aotools.ift2 real " + tag, aotools.ft2, aotools.ift2, xr, delta)
    check_pair("fouriertransform.ft2/ift2 complex " + tag,
               fouriertransform.ft2, fouriertransform.ift2, x, delta)

# the package-level inverse must agree with the Fourier module's inverse
for N, batch, delta in cases:
    shape = batch + (N, N)
    X = rng.normal(size=shape) + 1j * rng.normal(size=shape)
    delta_f = 1.0 / (N * delta)
    a = numpy.asarray(aotools.ift2(X, delta_f))
    b = numpy.asarray(fouriertransform.ift2(X, delta_f))
    if a.shape != b.shape or not float(numpy.abs(a - b).max()) < TOL * max(1.0, float(numpy.abs(b).max())):
        failures.append("aotools.ift2 disagrees with aotools.fouriertransform.ift2 for N=%d batch=%s delta=%g"
                        % (N, batch, delta))

if failures:
    print("C09 VIOLATED: %d failing checks; first few:" % len(failures))
    for f in failures[:12]:
        print("  -", f)
    sys.exit(1)

print("C09 holds: package-level and module-level ft2/ift2 are exact inverse pairs with Parseval")
sys.exit(0)
