"""
C09 demo B: the scaled 1-D transforms ft / ift approximate the continuous Fourier
transform with the origin at the centre sample (index N//2) on both the space and the
frequency grid, for odd as well as even N, batched input and any spacing:

  * a unit impulse at the centre sample has the flat, real spectrum `delta`;
  * an impulse k samples off-centre has spectrum delta * exp(-2 pi i f k delta),
    with f = (arange(N) - N//2) / (N delta);
  * (circularly) shifting any signal by k samples multiplies its spectrum by that phase;
  * a centred Gaussian exp(-pi t^2) maps to the analytic Gaussian exp(-pi f^2);
  * the same statements hold for ift with the roles of the grids exchanged;
  * ft/ift are inverse pairs and obey Parseval.

Exits 0 if all hold, 1 otherwise.
"""
import sys
import numpy

import aotools
from aotools import fouriertransform

failures = []


def fail(msg):
    failures.append(msg)


def grids(N, delta):
    n = numpy.arange(N) - N // 2
    return n * delta, n / (N * delta)


rng = numpy.random.default_rng(909)

for name, ft, ift in (("aotools", aotools.ft, aotools.ift),
                      ("aotools.fouriertransform", fouriertransform.ft, fouriertransform.ift)):
    for N in (1, 2, 3, 4, 5, 8, 9, 16, 17, 64, 65, 101, 128):
        for delta in (1.0, 0.25, 2.5):
            t, f = grids(N, delta)
            delta_f = 1.0 / (N * delta)
            tag = "%s N=%d delta=%g" % (name, N, delta)

            # impulses: origin must be the centre sample
            for k in sorted(set((0, 1, -1, N // 2 - (1 - N % 2), -(N // 2)))):
                if not (-(N // 2) <= k < N - N // 2):
                    continue
                x = numpy.zeros((2, N))
                x[:, N // 2 + k] = 1.0
                X = ft(x, delta)
                want = delta * numpy.exp(-2j * numpy.pi * f * k * delta)
                err = float(numpy.abs(X - want).max()) / delta
                if not err < 1e-10:
                    fail("%s: ft of impulse at centre%+d is not delta*exp(-2 pi i f k delta); rel err %.3e"
                         % (tag, k, err))
                Y = numpy.zeros((2, N))
                Y[:, N // 2 + k] = 1.0
                y = ift(Y, delta_f)
                want = delta_f * numpy.exp(+2j * numpy.pi * t * k * delta_f)
                err = float(numpy.abs(y - want).max()) / delta_f
                if not err < 1e-10:
                    fail("%s: ift of impulse at centre%+d is not delta_f*exp(+2 pi i t k delta_f); rel err %.3e"
                         % (tag, k, err))

            # shift theorem, random batched complex input
            x = rng.normal(size=(3, 2, N)) + 1j * rng.normal(size=(3, 2, N))
            X = ft(x, delta)
            for k in (1, 2, -3):
                Xs = ft(numpy.roll(x, k, axis=-1), delta)
                want = X * numpy.exp(-2j * numpy.pi * f * k * delta)
                err = float(numpy.abs(Xs - want).max()) / max(1e-300, float(numpy.abs(X).max()))
                if not err < 1e-10:
                    fail("%s: shift by %d samples does not multiply the spectrum by the matching "
                         "linear phase; rel err %.3e" % (tag, k, err))

            # inverse pair, Parseval, linearity
            back = ift(X, delta_f)
            err = float(numpy.abs(back - x).max())
            if not err < 1e-10:
                fail("%s: ift(ft(x)) != x, err %.3e" % (tag, err))
            e_x = float((numpy.abs(x) ** 2).sum()) * delta
            e_X = float((numpy.abs(X) ** 2).sum()) * delta_f
            if not abs(e_x - e_X) <= 1e-10 * e_x:
                fail("%s: Parseval violated: %.12g vs %.12g" % (tag, e_x, e_X))
            y = rng.normal(size=x.shape)
            a, b = 0.7 - 1.3j, -2.1
            err = float(numpy.abs(ft(a * x + b * y, delta) - (a * X + b * ft(y, delta))).max())
            if not err < 1e-10 * max(1.0, float(numpy.abs(X).max())):
                fail("%s: ft is not linear, err %.3e" % (tag, err))

    # centred Gaussian -> analytic Gaussian (grid wide/fine enough that aliasing < 1e-5)
    for N in (63, 64, 65, 95, 96, 97):
        for delta in (0.25, 0.2):
            t, f = grids(N, delta)
            g = numpy.exp(-numpy.pi * t ** 2)
            G = ft(numpy.stack([g, 2 * g]), delta)
            want = numpy.exp(-numpy.pi * f ** 2)
            err = max(float(numpy.abs(G[0] - want).max()), float(numpy.abs(G[1] - 2 * want).max()))
            if not err < 1e-4:
                fail("%s N=%d delta=%g: centred Gaussian does not map to the analytic Gaussian; "
                     "max abs err %.3e (max imaginary part %.3e)"
                     % (name, N, delta, err, float(numpy.abs(G.imag).max())))
            delta_f = 1.0 / (N * delta)
            gb = ift(numpy.exp(-numpy.pi * f ** 2), delta_f)
            err = float(numpy.abs(gb - g).max())
            if not err < 1e-4:
                fail("%s N=%d delta=%g: ift of the centred analytic Gaussian spectrum is not the "
                     "centred Gaussian; max abs err %.3e" % (name, N, delta, err))

if failures:
    print("C09 VIOLATED: %d failing checks; first few:" % len(failures))
    for m in failures[:14]:
        print("  -", m)
    sys.exit(1)

print("C09 holds: ft/ift are centred continuous-FT approximations, inverse pairs, Parseval, linear")
sys.exit(0)
