"""
C14 demo A: circle(r, n, c, origin) must be exactly the indicator of the pixel
centres (half-integer coordinates) within distance r of c -- for every call,
whatever calls were made before it.

The sweep below visits both origins, centred / half-pixel / boundary-touching
centres and several sizes, in the order a user of the library would (a few
corner-origin masks such as the ones encircled_energy builds, then ordinary
centred pupils of the same size), and compares every mask against an
independent evaluation of the definition.  All coordinates used are dyadic, so
the reference is exact.
"""
import sys
import itertools
import numpy
from aotools.functions import pupil


def reference(radius, size, centre, origin):
    out = numpy.zeros((size, size))
    off = size / 2. if origin == "middle" else 0.
    for row in range(size):          # row index <-> y
        for col in range(size):      # col index <-> x
            dx = (col + 0.5) - off - centre[0]
            dy = (row + 0.5) - off - centre[1]
            if dx * dx + dy * dy <= radius * radius:
                out[row, col] = 1
    return out


failures = []


def check(radius, size, centre, origin):
    got = pupil.circle(radius, size, centre, origin)
    want = reference(radius, size, centre, origin)
    if got.shape != want.shape or not (got == want).all():
        failures.append(
            "circle(%r, %r, %r, origin=%r) is not the indicator of the disc: "
            "%d pixels set, expected %d"
            % (radius, size, centre, origin, int(got.sum()), int(want.sum())))
        return False
    return True


sizes = [8, 9, 16]
radii = [0, 0.5, 1, 2.5, 3, 4]
for size in sizes:
    half = size // 2
    # masks addressed from the array corner (as encircled_energy does) ...
    corner_centres = [(half, half), (half + 0.5, half), (1, size - 1), (0, 0)]
    for r, c in itertools.product(radii, corner_centres):
        check(r, size, c, "corner")
    # ... followed by ordinary pupils of the same size
    middle_centres = [(0, 0), (0.5, 0.5), (1, 0), (0, -1.5)]
    for r, c in itertools.product(radii, middle_centres):
        check(r, size, c, "middle")

    # centred masks: nested in r, symmetric under the square's symmetries
    prev = None
    for r in radii:
        m = pupil.circle(r, size)
        for name, sym in (("transpose", m.T), ("flipud", m[::-1]),
                          ("fliplr", m[:, ::-1]), ("rot90", numpy.rot90(m))):
            if not (sym == m).all():
                failures.append("circle(%r, %r) not symmetric under %s"
                                % (r, size, name))
        if prev is not None and not (prev <= m).all():
            failures.append("circle(., %r) not nested at r=%r" % (size, r))
        prev = m

    # integer shift of the centre translates the mask
    a = pupil.circle(2.5, size, (0, 0))
    b = pupil.circle(2.5, size, (1, 0))
    if not (a[:, :-1] == b[:, 1:]).all():
        failures.append("circle(2.5, %r): shifting c by (1, 0) does not "
                        "translate the mask by one column" % size)

# area -> pi r^2
m = pupil.circle(100, 256)
if abs(m.sum() / (numpy.pi * 100 ** 2) - 1) > 0.01:
    failures.append("circle(100, 256) area %g is not close to pi r^2 = %g"
                    % (m.sum(), numpy.pi * 100 ** 2))

if failures:
    print("C14 VIOLATED: %d failures, first few:" % len(failures))
    for f in failures[:8]:
        print("  " + f)
    sys.exit(1)
print("C14 demo A: all circle masks are exact indicators")
sys.exit(0)
