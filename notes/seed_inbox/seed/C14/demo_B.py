"""
C14 demo B: findActiveSubaps(subaps, mask, threshold) must return exactly the
grid cells whose MEAN mask value is >= threshold; the returned fill factors are
those means (so they lie in [0, 1] for a 0/1 mask, a fully illuminated cell has
fill 1), the set shrinks monotonically with the threshold, fills agree with
computeFillFactor when the mask size is a multiple of the sub-aperture count,
and scatter (make_subaps_2d) followed by read-back through the mask is the
identity.

Checked for mask sizes that are multiples of the sub-aperture count and for
sizes that are not (e.g. a 10-pixel pupil across 3 or 4 sub-apertures).
"""
import sys
import numpy
from aotools import wfs
from aotools.functions import pupil

failures = []


def cells(subaps, mask):
    """(x, y, cell) for every cell of the subaps x subaps grid over the mask"""
    xs = mask.shape[0] / float(subaps)
    ys = mask.shape[1] / float(subaps)
    for x in range(subaps):
        for y in range(subaps):
            yield x, y, xs, ys, mask[
                int(numpy.round(x * xs)):int(numpy.round((x + 1) * xs)),
                int(numpy.round(y * ys)):int(numpy.round((y + 1) * ys))]


def check_selection(subaps, mask, threshold, label):
    coords, fills = wfs.findActiveSubaps(subaps, mask, threshold,
                                         returnFill=True)
    want_coords, want_fills = [], []
    for x, y, xs, ys, cell in cells(subaps, mask):
        mean = cell.sum() / float(cell.size)
        if mean >= threshold:
            want_coords.append([x * xs, y * ys])
            want_fills.append(mean)
    got = [tuple(c) for c in numpy.asarray(coords).reshape(-1, 2).tolist()]
    want = [tuple(c) for c in want_coords]
    if got != want:
        failures.append("%s, threshold %g: %d cells selected, but %d cells "
                        "have mean mask value >= threshold"
                        % (label, threshold, len(got), len(want)))
    elif not numpy.allclose(fills, want_fills, rtol=0, atol=1e-12):
        failures.append("%s, threshold %g: returned fill factors are not the "
                        "cell means" % (label, threshold))
    if len(fills) and (numpy.min(fills) < 0 or numpy.max(fills) > 1 + 1e-12):
        failures.append("%s, threshold %g: fill factor of a 0/1 mask outside "
                        "[0, 1]: max %.4f" % (label, threshold,
                                              numpy.max(fills)))
    return set(got)


configs = [(10, 10), (40, 10), (40, 8), (30, 5),     # size multiple of subaps
           (10, 3), (10, 4), (31, 7), (50, 8), (22, 5)]   # ... and not
thresholds = [0.0, 0.25, 0.5, 0.75, 1.0]

for size, subaps in configs:
    masks = [
        ("circle(%g, %d)" % (size / 2., size), pupil.circle(size / 2., size)),
        ("circle(%g, %d, (0.5, 0.5))" % (size / 3., size),
         pupil.circle(size / 3., size, (0.5, 0.5))),
        ("ones(%d, %d)" % (size, size), numpy.ones((size, size))),
    ]
    for mname, mask in masks:
        label = "%s with %d subaps" % (mname, subaps)
        previous = None
        for t in thresholds:
            sel = check_selection(subaps, mask, t, label)
            if previous is not None and not sel <= previous:
                failures.append("%s: selection does not shrink when the "
                                "threshold rises to %g" % (label, t))
            previous = sel

        # a fully transparent mask illuminates every sub-aperture completely
        if mname.startswith("ones"):
            c, f = wfs.findActiveSubaps(subaps, mask, 1.0, returnFill=True)
            if len(c) != subaps ** 2:
                failures.append("%s: fully illuminated mask, threshold 1.0 -> "
                                "only %d of %d sub-apertures selected"
                                % (label, len(c), subaps ** 2))

        # fills agree with computeFillFactor when size is a multiple of subaps
        if size % subaps == 0:
            c, f = wfs.findActiveSubaps(subaps, mask, 0.3, returnFill=True)
            f2 = wfs.computeFillFactor(mask, c, size // subaps)
            if not numpy.array_equal(f, f2):
                failures.append("%s: fills differ from computeFillFactor"
                                % label)

    # scatter into the 2-D map, read back through the mask: identity
    submask = numpy.zeros((subaps, subaps))
    c = wfs.findActiveSubaps(subaps, pupil.circle(size / 2., size), 0.5)
    for cx, cy in c:
        submask[int(round(cx * subaps / float(size))),
                int(round(cy * subaps / float(size)))] = 1
    n = int(submask.sum())
    slopes = numpy.arange(3 * 2 * n, dtype=float).reshape(3, 2, n) - 7.5
    back = wfs.make_subaps_2d(slopes, submask)[:, :, submask == 1]
    if not numpy.array_equal(back, slopes):
        failures.append("size %d, %d subaps: scatter + read-back is not the "
                        "identity" % (size, subaps))

if failures:
    print("C14 VIOLATED: %d failures, first few:" % len(failures))
    for f in failures[:8]:
        print("  " + f)
    sys.exit(1)
print("C14 demo B: sub-aperture selection is exact")
sys.exit(0)
