"""
C03 demo A: the slope covariance matrix must not depend on the number of worker processes nor on the
order in which the per-WFS-pair tasks happen to finish.

Part 1 builds the matrix with real process pools of several sizes and compares each, bit for bit, with the
single-process matrix.

Part 2 replaces the process pool by a deterministic in-process "scheduler" pool that implements the
multiprocessing.Pool interface but lets the tasks *finish* in an order we choose (submission order,
reversed, rotated, several seeded shuffles).  Whatever Pool call the library uses (map, imap,
imap_unordered, map_async, apply_async, starmap ...), a completion order is only observable through
the interfaces that expose it, exactly as with a real pool.  For every completion order the matrix
must be bit-identical to the single-process one.

Exit status 0: property holds.  Exit status 1: a violation was found (printed).
"""
import multiprocessing
import random
import sys

import numpy

import aotools
from aotools.turbulence import slopecovariance


def make_builder(threads):
    n_wfs = 3
    telescope_diameter = 8.
    nx_subaps = 6
    n_layers = 5
    layer_altitudes = numpy.array([0., 2500., 6000., 11000., 16000.])
    layer_r0s = [0.31, 0.9, 0.57, 1.3, 0.74]
    layer_L0s = [25., 40., 17., 60., 33.]
    subap_diameters = [telescope_diameter / nx_subaps] * n_wfs
    pupil_masks = [aotools.circle(nx_subaps / 2., nx_subaps)] * n_wfs
    gs_altitudes = [90000, 90000, 0]
    gs_positions = [[12., 0.], [-7., 9.], [3., -11.]]
    wfs_wavelengths = [589e-9, 589e-9, 700e-9]
    return aotools.CovarianceMatrix(
        n_wfs, pupil_masks, telescope_diameter, subap_diameters, gs_altitudes, gs_positions, wfs_wavelengths,
        n_layers, layer_altitudes, layer_r0s, layer_L0s, threads)


# ---------------------------------------------------------------------------------------------------
# A deterministic stand-in for multiprocessing.Pool: tasks are evaluated in-process, and "finish" in the
# order given by ``completion_order`` (a function n_tasks -> permutation of range(n_tasks)).
# ---------------------------------------------------------------------------------------------------
class _Async(object):
    def __init__(self, value):
        self._value = value

    def get(self, timeout=None):
        return self._value

    def wait(self, timeout=None):
        pass

    def ready(self):
        return True

    def successful(self):
        return True


def scheduler_pool(completion_order):

    class SchedulerPool(object):
        def __init__(self, processes=None, *args, **kwargs):
            self.processes = processes
            self._pending = []

        # -- ordered interfaces: the completion order is not observable through these
        def map(self, func, iterable, chunksize=None):
            return [func(a) for a in list(iterable)]

        def starmap(self, func, iterable, chunksize=None):
            return [func(*a) for a in list(iterable)]

        def imap(self, func, iterable, chunksize=1):
            return iter(self.map(func, iterable))

        # -- interfaces through which the completion order is observable
        def imap_unordered(self, func, iterable, chunksize=1):
            items = list(iterable)
            order = completion_order(len(items))
            return iter([func(items[k]) for k in order])

        def map_async(self, func, iterable, chunksize=None, callback=None, error_callback=None):
            res = self.map(func, iterable)
            if callback is not None:
                callback(res)
            return _Async(res)

        def starmap_async(self, func, iterable, chunksize=None, callback=None, error_callback=None):
            res = self.starmap(func, iterable)
            if callback is not None:
                callback(res)
            return _Async(res)

        def apply(self, func, args=(), kwds={}):
            return func(*args, **kwds)

        def apply_async(self, func, args=(), kwds={}, callback=None, error_callback=None):
            # callbacks of tasks submitted together fire, in completion order, when the pool is flushed
            holder = _LazyAsync(self)
            self._pending.append((func, args, kwds, callback, holder))
            return holder

        def _flush(self):
            pending, self._pending = self._pending, []
            for k in completion_order(len(pending)):
                func, args, kwds, callback, holder = pending[k]
                holder._value = func(*args, **kwds)
                holder._done = True
                if callback is not None:
                    callback(holder._value)

        def close(self):
            self._flush()

        def join(self):
            self._flush()

        def terminate(self):
            pass

        def __enter__(self):
            return self

        def __exit__(self, *exc):
            self._flush()
            return False

    class _LazyAsync(object):
        def __init__(self, pool):
            self._pool = pool
            self._done = False
            self._value = None

        def get(self, timeout=None):
            if not self._done:
                self._pool._flush()
            return self._value

        def wait(self, timeout=None):
            if not self._done:
                self._pool._flush()

        def ready(self):
            return True

        def successful(self):
            return True

    return SchedulerPool


def describe_difference(ref, got):
    if ref.shape != got.shape:
        return "shape {} instead of {}".format(got.shape, ref.shape)
    bad = ref.view(numpy.uint32) != got.view(numpy.uint32) if ref.dtype == numpy.float32 else ref != got
    idx = tuple(numpy.argwhere(bad)[0])
    return "{} of {} elements differ, e.g. [{}, {}]: {!r} (single process) vs {!r}; max abs difference {:.3e}".format(
        int(bad.sum()), ref.size, idx[0], idx[1], float(ref[idx]), float(got[idx]),
        float(numpy.nanmax(numpy.abs(ref.astype("float64") - got.astype("float64")))))


def identical(a, b):
    return a.shape == b.shape and a.dtype == b.dtype and a.tobytes() == b.tobytes()


def main():
    failures = []

    reference = make_builder(1).make_covariance_matrix()
    if not numpy.all(numpy.isfinite(reference)):
        print("reference matrix is not finite -- demo configuration problem")
        return 1

    # ---- Part 1: real process pools of several sizes
    for threads in (2, 3, 5):
        got = make_builder(threads).make_covariance_matrix()
        if not identical(reference, got):
            failures.append("real pool, {} processes: {}".format(threads, describe_difference(reference, got)))

    # ---- Part 2: chosen completion orders
    orders = [
        ("submission order", lambda n: list(range(n))),
        ("reversed", lambda n: list(range(n))[::-1]),
        ("rotated by a third", lambda n: list(range(n))[n // 3:] + list(range(n))[:n // 3]),
        ("odd tasks first", lambda n: list(range(1, n, 2)) + list(range(0, n, 2))),
    ]
    for seed in (1, 2, 3):
        def shuffled(n, seed=seed):
            perm = list(range(n))
            random.Random(seed).shuffle(perm)
            return perm
        orders.append(("shuffle seed {}".format(seed), shuffled))

    real_pool = multiprocessing.Pool
    try:
        for name, order in orders:
            for threads in (2, 4):
                multiprocessing.Pool = scheduler_pool(order)
                slopecovariance.multiprocessing.Pool = multiprocessing.Pool
                got = make_builder(threads).make_covariance_matrix()
                if not identical(reference, got):
                    failures.append("completion order '{}', {} workers: {}".format(
                        name, threads, describe_difference(reference, got)))
    finally:
        multiprocessing.Pool = real_pool
        slopecovariance.multiprocessing.Pool = real_pool

    if failures:
        print("C03 VIOLATED: the covariance matrix depends on process count / task completion order")
        for f in failures:
            print("  - " + f)
        return 1

    print("C03 holds: identical matrix for every worker count and completion order tried")
    return 0


if __name__ == "__main__":
    sys.exit(main())
